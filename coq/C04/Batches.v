(* the batch sampler's view of the spec stream: it ends on a batch boundary (the
   trailing assert cannot fire) and no batch mixes datasets *)
From Coq Require Import ZArith List Bool Lia.
Import ListNotations.
From KD Require Import C04.Model C04.Spec C04.Lists C04.Arith C04.Sides C04.Proofs C04.Corollaries.
Open Scope Z_scope.

(* a stream that consists of epoch announcements and complete batches, each
   batch tagged with the dataset it comes from (0 = main, S ci = config ci) *)
Inductive Closed : list event -> list (nat * list Z) -> Prop :=
| Closed_nil : Closed [] []
| Closed_epoch e l bs : Closed l bs -> Closed (SetEpoch e :: l) bs
| Closed_iter e l bs : Closed l bs -> Closed (IterStart e :: l) bs
| Closed_main b l bs : b <> [] -> Closed l bs -> Closed (emit Main b ++ l) ((0%nat, b) :: bs)
| Closed_side ci b l bs : b <> [] -> Closed l bs -> Closed (emit (Side ci) b ++ l) ((S ci, b) :: bs).

Lemma Closed_app l1 bs1 : Closed l1 bs1 -> forall l2 bs2, Closed l2 bs2 -> Closed (l1 ++ l2) (bs1 ++ bs2).
Proof.
  induction 1; intros l2 bs2 H2; cbn [app]; auto.
  - constructor; auto.
  - constructor; auto.
  - rewrite <- app_assoc. constructor; auto.
  - rewrite <- app_assoc. constructor; auto.
Qed.

Lemma batches_emit (mk : bool -> Z -> event) :
  (forall f i, render1 (mk f i) = OYield f i) ->
  forall b cur rest, b <> [] ->
  batches_aux cur (render (emit mk b) ++ rest) =
  let '(bs, ok) := batches_aux [] rest in ((rev cur ++ b) :: bs, ok).
Proof.
  intros Hmk. induction b as [|i b IH]; intros cur rest Hne; [congruence|].
  destruct b as [|j b].
  - cbn [emit render map app]. rewrite Hmk. cbn [batches_aux].
    destruct (batches_aux [] rest) as [bs ok]. cbn [rev]. reflexivity.
  - rewrite emit_cons2. cbn [render map app]. rewrite Hmk. cbn [batches_aux].
    fold (render (emit mk (j :: b))). rewrite IH by discriminate.
    destruct (batches_aux [] rest) as [bs ok]. cbn [rev]. rewrite <- app_assoc. reflexivity.
Qed.

(* the batch sampler cuts a closed stream exactly into its batches and its final assertion holds *)
Lemma batches_closed l bs : Closed l bs -> batches (render l) = (map snd bs, true).
Proof.
  unfold batches. induction 1.
  - reflexivity.
  - cbn [render map batches_aux]. exact IHClosed.
  - cbn [render map batches_aux]. exact IHClosed.
  - unfold render. rewrite map_app. fold (render (emit Main b)). fold (render l).
    rewrite (batches_emit Main) by auto. rewrite IHClosed. reflexivity.
  - unfold render. rewrite map_app. fold (render (emit (Side ci) b)). fold (render l).
    rewrite (batches_emit (Side ci)) by auto. rewrite IHClosed. reflexivity.
Qed.

Lemma chunk_all_nonempty b l : (1 <= b)%nat -> Forall (fun x => x <> []) (chunk b l).
Proof.
  intros Hb. pattern l. apply (chunk_ind b); auto.
  - rewrite chunk_nil. constructor.
  - intros x l0 IH. rewrite chunk_cons by auto. constructor; auto.
    destruct b; [lia|]. discriminate.
Qed.

Lemma take_until_incl {A} (p : A -> bool) l : incl (fst (take_until p l)) l.
Proof.
  induction l as [|x l IH]; cbn [take_until]; [apply incl_refl|].
  destruct (p x); cbn [fst].
  - intros y [->|[]]. now left.
  - destruct (take_until p l) as [r f]. cbn [fst] in *.
    intros y [->|Hy]; [now left|right; auto].
Qed.

Section B.
  Variables (c : cfg) (mi : Z -> list Z).
  Hypothesis W : WF c mi.

  Lemma side_events_closed ci sc p : wf_side sc ->
    exists bs, Closed (side_events c ci sc p) bs /\ Forall (fun x => fst x = S ci) bs.
  Proof.
    intros Hw. unfold side_events.
    assert (1 <= Z.to_nat (or_default (sbs sc) (cB c)))%nat as Hb.
    { destruct Hw as (_ & _ & _ & Hb & _). pose proof (wf_B c mi W). unfold or_default.
      destruct (sbs sc) eqn:E; [specialize (Hb _ eq_refl)|]; lia. }
    pose proof (chunk_all_nonempty _ (map (Z.add (offset_of c ci)) (sidx sc p)) Hb) as Hne.
    induction Hne as [|b bs Hb0 _ IH].
    - exists []. split; constructor.
    - destruct IH as [tags [Hc Ht]]. exists ((S ci, b) :: tags). cbn [flat_map]. split.
      + constructor; auto.
      + constructor; auto.
  Qed.

  Lemma passes_closed k : forall l ci pn, Forall wf_side l ->
    exists bs, Closed (passes_from c ci l pn k) bs /\ Forall (fun x => (1 <= fst x)%nat) bs.
  Proof.
    induction l as [|sc l IH]; intros ci pn HF.
    - exists []. split; constructor.
    - destruct pn as [|p pn]; [exists []; split; constructor|].
      inversion HF as [|? ? Hsc HF']; subst. cbn [passes_from].
      destruct (IH (S ci) pn HF') as [bs2 [Hc2 Ht2]].
      destruct (due sc k).
      + destruct (side_events_closed ci sc p Hsc) as [bs1 [Hc1 Ht1]].
        exists (bs1 ++ bs2). split; [apply Closed_app; auto|].
        apply Forall_app. split; auto.
        eapply Forall_impl; [|exact Ht1]. intros a Ha. cbn in Ha. lia.
      + exists bs2. auto.
  Qed.

  Lemma update_closed e pn j : (j < length (epoch_batches c mi e))%nat ->
    exists bs, Closed (u_events (upd_at c e (epoch_batches c mi e) pn j)) bs.
  Proof.
    intros Hj. unfold upd_at. cbn [u_events].
    destruct (passes_closed (counters_at c e (epoch_batches c mi e) j) (sides c) 0%nat
                            (pn_at c pn e (epoch_batches c mi e) j) (wf_sides c mi W)) as [bs [Hc _]].
    exists ((0%nat, nth j (epoch_batches c mi e) []) :: bs). constructor; auto.
    pose proof (wf_B c mi W).
    assert (Forall (fun x => x <> []) (epoch_batches c mi e)) as HF by (apply chunk_all_nonempty; lia).
    rewrite Forall_forall in HF. apply HF. apply nth_In. exact Hj.
  Qed.

  Lemma updates_closed e pn us : incl us (epoch_updates c mi e pn) -> exists bs, Closed (flat_map u_events us) bs.
  Proof.
    induction us as [|u us IH]; intros Hin.
    - exists []. constructor.
    - destruct IH as [bs2 H2]; [intros x Hx; apply Hin; now right|].
      assert (In u (epoch_updates c mi e pn)) as Hu by (apply Hin; now left).
      unfold epoch_updates in Hu. apply in_map_iff in Hu. destruct Hu as [j [<- Hj]].
      apply in_seq in Hj. destruct (update_closed e pn j) as [bs1 H1]; [lia|].
      exists (bs1 ++ bs2). cbn [flat_map]. apply Closed_app; auto.
  Qed.

  Lemma epoch_events_closed e pn : exists bs, Closed (epoch_events c mi e pn) bs.
  Proof.
    unfold epoch_events.
    destruct (updates_closed e pn (fst (take_until (hit c) (epoch_updates c mi e pn)))) as [bs H];
      [apply take_until_incl|].
    exists bs. constructor. constructor. exact H.
  Qed.

  Lemma spec_run_closed : forall n e pn tr, spec_run c mi e pn n = Some tr -> exists bs, Closed tr bs.
  Proof.
    induction n as [|n IH]; intros e pn tr H; [discriminate|]. cbn [spec_run] in H.
    destruct (epoch_events_closed e pn) as [bs1 H1].
    destruct (epoch_hits c mi e).
    - injection H as <-. eauto.
    - destruct (spec_run c mi (e + 1) _ n) as [rest|] eqn:E; [|discriminate]. injection H as <-.
      destruct (IH _ _ _ E) as [bs2 H2]. exists (bs1 ++ bs2).
      change (Closed (epoch_events c mi e pn ++ rest) (bs1 ++ bs2)). apply Closed_app; auto.
  Qed.

  (* C04: the stream always ends on a batch boundary: the batch sampler's final
     assertion never fires, and its batches are exactly the stream's batches *)
  Theorem ends_on_batch_boundary n e pn tr : length pn = length (sides c) ->
    run c mi n (start_state c e pn) = Some tr -> snd (batches (render tr)) = true.
  Proof.
    intros Hpl. unfold start_state. rewrite (model_eq_spec c mi W) by exact Hpl. intros H.
    destruct (spec_run_closed n e pn tr H) as [bs Hc]. now rewrite (batches_closed tr bs Hc).
  Qed.
End B.

(* C05: no batch mixes datasets.  Every batch the batch sampler cuts out of a
   closed stream is one of the stream's own batches, i.e. comes from a single
   emit of one dataset. *)
Definition batch_indices_of (ev : event) : option (nat * Z) :=
  match ev with SetEpoch _ => None | IterStart _ => None | Main _ i => Some (0%nat, i) | Side ci _ i => Some (S ci, i) end.

Fixpoint stream_tags (l : list event) : list (nat * Z) :=
  match l with
  | [] => []
  | ev :: l' => match batch_indices_of ev with Some t => t :: stream_tags l' | None => stream_tags l' end
  end.

Lemma stream_tags_app a b : stream_tags (a ++ b) = stream_tags a ++ stream_tags b.
Proof. induction a as [|x a IH]; [reflexivity|]. cbn. destruct (batch_indices_of x); cbn; now rewrite IH. Qed.

Lemma stream_tags_emit_main b : stream_tags (emit Main b) = map (pair 0%nat) b.
Proof.
  induction b as [|i b IH]; [reflexivity|]. destruct b as [|j b]; [reflexivity|].
  rewrite emit_cons2. cbn [stream_tags batch_indices_of map]. now rewrite IH.
Qed.
Lemma stream_tags_emit_side ci b : stream_tags (emit (Side ci) b) = map (pair (S ci)) b.
Proof.
  induction b as [|i b IH]; [reflexivity|]. destruct b as [|j b]; [reflexivity|].
  rewrite emit_cons2. cbn [stream_tags batch_indices_of map]. now rewrite IH.
Qed.

(* the tagged batches of a closed stream, flattened, are the stream's own
   (dataset, index) sequence: every batch is single-dataset by construction and
   nothing is lost or reordered *)
Theorem closed_batches_unmixed l bs : Closed l bs ->
  flat_map (fun tb => map (pair (fst tb)) (snd tb)) bs = stream_tags l.
Proof.
  induction 1; cbn [flat_map stream_tags batch_indices_of fst snd]; auto.
  - rewrite stream_tags_app, stream_tags_emit_main. now f_equal.
  - rewrite stream_tags_app, stream_tags_emit_side. now f_equal.
Qed.

Theorem no_mixed_batch c mi : WF c mi -> forall n e pn tr, length pn = length (sides c) ->
  run c mi n (start_state c e pn) = Some tr ->
  exists tagged : list (nat * list Z),
    fst (batches (render tr)) = map snd tagged /\
    flat_map (fun tb => map (pair (fst tb)) (snd tb)) tagged = stream_tags tr.
Proof.
  intros W n e pn tr Hpl H. unfold start_state in H. rewrite (model_eq_spec c mi W) in H by exact Hpl.
  destruct (spec_run_closed c mi W n e pn tr H) as [bs Hc]. exists bs. split.
  - now rewrite (batches_closed tr bs Hc).
  - now apply closed_batches_unmixed.
Qed.
