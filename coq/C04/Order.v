(* the order of the calls the main sampler OBJECT receives: set_epoch(e) and
   iter() alternate, epoch after epoch, starting with the run's first epoch -
   so whatever epoch the object held before the iteration (a stale one from an
   earlier run, another scheduler sharing the object, a foreign set_epoch), at
   every start of its iteration it holds exactly the epoch the loop consumes.
   And: iterating an InterleavedSampler is a function of its constructed
   attributes (and of the side samplers' own iteration counts) only. *)
From Coq Require Import ZArith List Bool Lia.
Import ListNotations.
From KD Require Import C04.Model C04.Spec C04.Lists C04.Arith C04.Sides C04.Proofs C04.Corollaries C04.Batches C04.Bounds.
Open Scope Z_scope.

(* the calls received by the main sampler object, in order *)
Definition is_ctl (ev : event) : bool := negb (is_yield ev).
Definition ctl (tr : list event) : list event := filter is_ctl tr.

(* set_epoch(e), iter(), set_epoch(e+1), iter(), ... for k epochs *)
Fixpoint ctl_seq (e : Z) (k : nat) : list event :=
  match k with O => [] | S k' => SetEpoch e :: IterStart e :: ctl_seq (e + 1) k' end.
Fixpoint zseq (e : Z) (k : nat) : list Z :=
  match k with O => [] | S k' => e :: zseq (e + 1) k' end.

Lemma filter_length_le {A} (p : A -> bool) l : (length (filter p l) <= length l)%nat.
Proof. induction l as [|x l IH]; [auto|]. cbn [filter]. destruct (p x); cbn [length]; lia. Qed.

Lemma filter_id_forallb {A} (p : A -> bool) l : filter p l = l -> forallb p l = true.
Proof.
  induction l as [|x l IH]; intros H; [reflexivity|]. cbn [filter] in H. cbn [forallb].
  destruct (p x) eqn:E.
  - injection H as H. now rewrite IH.
  - exfalso. pose proof (filter_length_le p l) as Hl. rewrite H in Hl. cbn [length] in Hl. lia.
Qed.

Lemma ctl_yields l : forallb is_yield l = true -> ctl l = [].
Proof.
  induction l as [|x l IH]; intros H; [reflexivity|]. cbn [forallb] in H. apply andb_true_iff in H.
  destruct H as [H1 H2]. unfold ctl, is_ctl in *. cbn [filter]. rewrite H1. cbn [negb]. now apply IH.
Qed.

Lemma held_yields a r l : forallb is_yield l = true -> held a (l ++ r) = held a r.
Proof.
  induction l as [|x l IH]; intros H; [reflexivity|]. cbn [forallb] in H. apply andb_true_iff in H.
  destruct H as [H1 H2]. destruct x; cbn [is_yield] in H1; try discriminate; cbn [app held]; now apply IH.
Qed.

Lemma labels_yields r l : forallb is_yield l = true -> iter_labels (l ++ r) = iter_labels r.
Proof.
  induction l as [|x l IH]; intros H; [reflexivity|]. cbn [forallb] in H. apply andb_true_iff in H.
  destruct H as [H1 H2]. destruct x; cbn [is_yield] in H1; try discriminate; cbn [app iter_labels]; now apply IH.
Qed.

Section O.
  Variables (c : cfg) (mi : Z -> list Z).
  Hypothesis W : WF c mi.

  Lemma epoch_yields e pn :
    forallb is_yield (flat_map u_events (fst (take_until (hit c) (epoch_updates c mi e pn)))) = true.
  Proof. apply filter_id_forallb. exact (strip_epoch_prefix c mi e pn). Qed.

  Lemma order_spec : forall n e pn tr, spec_run c mi e pn n = Some tr ->
    exists k, ctl tr = ctl_seq e (S k) /\ iter_labels tr = zseq e (S k) /\
              forall ann, held ann tr = map Some (zseq e (S k)).
  Proof.
    induction n as [|n IH]; intros e pn tr H; [discriminate|]. cbn [spec_run] in H.
    pose proof (epoch_yields e pn) as HY.
    set (Y := flat_map u_events (fst (take_until (hit c) (epoch_updates c mi e pn)))) in *.
    destruct (epoch_hits c mi e).
    - injection H as <-. exists 0%nat. unfold epoch_events. fold Y. split; [|split].
      + unfold ctl. cbn [filter is_ctl is_yield negb]. fold (ctl Y). now rewrite ctl_yields.
      + cbn [iter_labels zseq]. rewrite <- (app_nil_r Y), labels_yields by exact HY. reflexivity.
      + intros ann. cbn [held zseq map]. rewrite <- (app_nil_r Y), held_yields by exact HY. reflexivity.
    - destruct (spec_run c mi (e + 1) (pn_next c mi e pn) n) as [rest|] eqn:E; [|discriminate].
      injection H as <-. destruct (IH _ _ _ E) as [k (H1 & H2 & H3)]. exists (S k).
      unfold epoch_events. fold Y. split; [|split].
      + unfold ctl. cbn [app filter is_ctl is_yield negb]. rewrite filter_app. fold (ctl Y). fold (ctl rest).
        rewrite ctl_yields by exact HY. cbn [app]. rewrite H1. reflexivity.
      + cbn [app iter_labels]. rewrite labels_yields by exact HY. rewrite H2. reflexivity.
      + intros ann. cbn [app held]. rewrite held_yields by exact HY. rewrite H3. reflexivity.
  Qed.

  (* C04: in the stream of a run started at epoch e0 (e0 = 0 or the checkpoint
     of a resume) the calls the main sampler receives are exactly
     set_epoch(e0), iter(), set_epoch(e0+1), iter(), ...: every epoch's
     announcement comes before the start of that epoch's iteration, the first
     one included, and the iterations consumed are those of e0, e0+1, ... *)
  Theorem set_epoch_precedes_iter_start n e0 pn tr : length pn = length (sides c) ->
    run c mi n (start_state c e0 pn) = Some tr ->
    exists k, ctl tr = ctl_seq e0 (S k) /\ iter_labels tr = zseq e0 (S k).
  Proof.
    intros Hpl. unfold start_state. rewrite (model_eq_spec c mi W) by exact Hpl. intros H.
    destruct (order_spec n e0 pn tr H) as [k (H1 & H2 & _)]. eauto.
  Qed.

  (* C06: the start epoch is announced at the START of every iteration, and so is
     every later epoch: whatever the main sampler object held before ([ann]
     arbitrary), at each call of its __iter__ it holds the epoch whose
     iteration the loop consumes *)
  Theorem held_at_iter_start n e0 pn tr : length pn = length (sides c) ->
    run c mi n (start_state c e0 pn) = Some tr ->
    forall ann, held ann tr = map Some (iter_labels tr).
  Proof.
    intros Hpl. unfold start_state. rewrite (model_eq_spec c mi W) by exact Hpl. intros H ann.
    destruct (order_spec n e0 pn tr H) as [k (_ & H2 & H3)]. now rewrite H2, H3.
  Qed.
End O.

(* C06: the stream of an iteration depends on the constructed attributes and on
   the side samplers' iteration counts only: not on what the main sampler object
   held before, and - the InterleavedSampler having no state that an iteration
   changes - not on earlier (complete or abandoned) iterations of the object *)
Theorem iteration_independent_of_history c mi e u s w1 w2 :
  w_pcs w1 = w_pcs w2 -> iterate c mi e u s w1 = iterate c mi e u s w2.
Proof. unfold iterate. now intros ->. Qed.

(* C05: the constructor takes the configs as they are given - the constructed
   sampler reads the very config values it was handed (no default is written
   back into a config: a config without a batch size of its own still has none
   afterwards and is batched by the batch size of whichever InterleavedSampler
   iterates it, Model.side_pass) *)
Theorem ctor_configs_unchanged a c e u s : ctor a = Ok c e u s ->
  sides c = a_sides a /\ forall ci sc p off, side_pass c ci off sc p
    = side_pass_aux ci (or_default (sbs sc) (lB c)) (slen sc) off 0 (sidx sc p).
Proof. intros H. destruct (ctor_ok _ _ _ _ _ H) as (-> & _). split; reflexivity. Qed.

(* C04, SIMULTANEOUSLY LIVE iterations (a mid-training `next(iter(loader))` peek, a
   second consumer of the same object): every iteration owns its counters
   ([run] threads epoch / update / sample through its own state, nothing is
   kept on the object), so the only thing another live iteration can change for
   this one is which iteration number the shared side sampler objects are at.
   Everything but the side indices - announcements, iteration starts, the main
   indices with their batch flags, hence also where the run stops - is the same
   whatever those numbers are. *)
Definition not_side (e : event) : bool := match e with Side _ _ _ => false | _ => true end.

Lemma filter_ns_emit_main b : filter not_side (emit Main b) = emit Main b.
Proof.
  induction b as [|i b IH]; [reflexivity|]. destruct b as [|j b]; [reflexivity|].
  rewrite emit_cons2. cbn [filter not_side]. now rewrite IH.
Qed.
Lemma filter_ns_emit_side ci b : filter not_side (emit (Side ci) b) = [].
Proof.
  induction b as [|i b IH]; [reflexivity|]. destruct b as [|j b]; [reflexivity|].
  rewrite emit_cons2. cbn [filter not_side]. exact IH.
Qed.
Lemma filter_ns_side_events c ci sc p : filter not_side (side_events c ci sc p) = [].
Proof.
  unfold side_events. induction (chunk _ _) as [|b bs IH]; [reflexivity|].
  cbn [flat_map]. rewrite filter_app, filter_ns_emit_side, IH. reflexivity.
Qed.
Lemma filter_ns_passes c k : forall l ci pn, filter not_side (passes_from c ci l pn k) = [].
Proof.
  induction l as [|sc l IH]; intros ci pn; [reflexivity|]. destruct pn as [|p pn]; [reflexivity|]. cbn [passes_from].
  rewrite filter_app, IH, app_nil_r. destruct (due sc k); [apply filter_ns_side_events|reflexivity].
Qed.
Lemma update_not_side c e bs pn j : filter not_side (u_events (upd_at c e bs pn j)) = emit Main (nth j bs []).
Proof.
  unfold upd_at. cbn [u_events]. rewrite filter_app, filter_ns_emit_main, filter_ns_passes. apply app_nil_r.
Qed.

Lemma take_until_rel c (l1 l2 : list upd) :
  Forall2 (fun a b => u_k a = u_k b /\ filter not_side (u_events a) = filter not_side (u_events b)) l1 l2 ->
  filter not_side (flat_map u_events (fst (take_until (hit c) l1)))
  = filter not_side (flat_map u_events (fst (take_until (hit c) l2))).
Proof.
  induction 1 as [|x y l1 l2 [Hk He] _ IH]; [reflexivity|].
  cbn [take_until]. assert (hit c x = hit c y) as -> by (unfold hit; now rewrite Hk).
  destruct (hit c y).
  - cbn [fst flat_map]. rewrite !app_nil_r. exact He.
  - destruct (take_until (hit c) l1) as [r1 f1], (take_until (hit c) l2) as [r2 f2].
    cbn [fst flat_map] in *. rewrite !filter_app, He, IH. reflexivity.
Qed.

Theorem spec_main_independent_of_passes c mi : forall n e pn pn',
  option_map (filter not_side) (spec_run c mi e pn n) = option_map (filter not_side) (spec_run c mi e pn' n).
Proof.
  assert (Hep : forall e pn pn', filter not_side (epoch_events c mi e pn) = filter not_side (epoch_events c mi e pn')).
  { intros e pn pn'. unfold epoch_events. cbn [filter not_side]. do 2 f_equal.
    apply take_until_rel. unfold epoch_updates. cbv zeta.
    generalize (seq 0 (length (epoch_batches c mi e))). intros l.
    induction l as [|j l IH]; cbn [map]; constructor; [|exact IH].
    split; [reflexivity|]. now rewrite !update_not_side. }
  induction n as [|n IH]; intros e pn pn'; [reflexivity|]. cbn [spec_run].
  destruct (epoch_hits c mi e).
  - cbn [option_map]. now rewrite (Hep e pn pn').
  - specialize (IH (e + 1) (pn_next c mi e pn) (pn_next c mi e pn')).
    destruct (spec_run c mi (e + 1) (pn_next c mi e pn) n), (spec_run c mi (e + 1) (pn_next c mi e pn') n);
      cbn [option_map] in *; try discriminate; [|reflexivity].
    injection IH as IH. now rewrite !filter_app, (Hep e pn pn'), IH.
Qed.

Theorem iterations_independent c mi (W : WF c mi) n e pn pn' :
  length pn = length (sides c) -> length pn' = length (sides c) ->
  option_map (filter not_side) (run c mi n (start_state c e pn))
  = option_map (filter not_side) (run c mi n (start_state c e pn')).
Proof.
  intros H1 H2. unfold start_state. rewrite !(model_eq_spec c mi W) by assumption.
  apply spec_main_independent_of_passes.
Qed.
