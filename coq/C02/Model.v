(* C02 — executable model of index resolution through stacked KDSubset /
   KDConcatDataset / KDWrapper layers (kappadata/datasets/kd_subset.py,
   kd_concat_dataset.py, kd_wrapper.py, kd_dataset.py, utils/getall_as_tensor.py).
   Mirrors the code that exists (with the C02 fixes applied): same branch order,
   same arithmetic.  No proofs in this file.

   A sample of a root dataset is identified by (root id, position).  Every
   raised exception (IndexError, ValueError, ZeroDivisionError, AssertionError)
   is the single error value None / GErr; a missing attribute is GMissing. *)
From Coq Require Import ZArith List Bool.
Import ListNotations.
Open Scope Z_scope.

Definition sample : Type := (Z * Z)%type.

(* what a root dataset's getall_x returns: nothing (method absent), a list, or an
   array-like (np.ndarray / torch tensor) *)
Inductive provider := PNone | PList | PArray.

Inductive stack : Type :=
| Root (id : Z) (n : nat) (pk : provider)          (* KDDataset with n samples *)
| Sub (tag : Z) (idxs : list Z) (s : stack)        (* KDSubset(s, idxs); tag = its class *)
| Cat (balanced : bool) (parts : list stack)       (* KDConcatDataset(parts, balanced_sampling) *)
| Wrap (tag : Z) (s : stack).                      (* KDWrapper(s); tag = its class *)

Definition zlen {A} (l : list A) : Z := Z.of_nat (length l).

(* Python sequence indexing: l[k] *)
Definition py_index (n k : Z) : option Z :=
  if k <? 0 then (if - k <=? n then Some (n + k) else None)
  else if k <? n then Some k else None.

Definition py_nth {A} (l : list A) (k : Z) : option A :=
  match py_index (zlen l) k with
  | Some j => nth_error l (Z.to_nat j)
  | None => None
  end.

Fixpoint sum_opt (l : list (option Z)) : option Z :=
  match l with
  | [] => Some 0
  | Some x :: l' => match sum_opt l' with Some y => Some (x + y) | None => None end
  | None :: _ => None
  end.

(* len(stack); None = raises (KDConcatDataset.__len__ asserts not balanced_sampling) *)
Fixpoint slen (s : stack) : option Z :=
  match s with
  | Root _ n _ => Some (Z.of_nat n)
  | Sub _ idxs _ => Some (zlen idxs)            (* torch Subset: len(self.indices) *)
  | Cat b parts => if b then None else sum_opt (map slen parts)   (* cumulative_sizes[-1] *)
  | Wrap _ s' => slen s'
  end.

(* can the stack be constructed?  torch ConcatDataset.__init__ asserts a non-empty
   list and calls len() on every part *)
Fixpoint ctor_ok (s : stack) : bool :=
  match s with
  | Root _ _ _ => true
  | Sub _ _ s' => ctor_ok s'
  | Cat _ parts =>
      negb (Nat.eqb (length parts) 0) && forallb ctor_ok parts
      && forallb (fun p => match slen p with Some _ => true | None => false end) parts
  | Wrap _ s' => ctor_ok s'
  end.

Definition size_of (s : stack) : Z := match slen s with Some n => n | None => 0 end.

(* ConcatDataset.cumsum *)
Fixpoint cumsum (acc : Z) (l : list Z) : list Z :=
  match l with
  | [] => []
  | x :: l' => (acc + x) :: cumsum (acc + x) l'
  end.

(* bisect.bisect_right on a non-decreasing list: the first position whose entry is > x *)
Fixpoint bisect_right (cum : list Z) (x : Z) : nat :=
  match cum with
  | [] => O
  | c :: cum' => if c <=? x then S (bisect_right cum' x) else O
  end.

(* KDConcatDataset._to_concat_idx; None = ValueError *)
Definition to_concat_idx (cum : list Z) (idx : Z) : option (nat * Z) :=
  let total := last cum 0 in
  let go := fun idx =>
    let d := bisect_right cum idx in
    Some (d, match d with O => idx | S d' => idx - nth d' cum 0 end) in
  if idx <? 0 then (if total <? - idx then None else go (total + idx)) else go idx.

(* balanced branch of KDConcatDataset._call_getitem: idx % P, int(idx / P) % len(part);
   None = ZeroDivisionError *)
Definition to_balanced_idx (sizes : list Z) (idx : Z) : option (nat * Z) :=
  let P := zlen sizes in
  let d := Z.to_nat (idx mod P) in
  let n := nth d sizes 0 in
  if n =? 0 then None else Some (d, (Z.quot idx P) mod n).

(* <stack>.getitem_x(k) *)
Fixpoint resolve (s : stack) (k : Z) {struct s} : option sample :=
  match s with
  | Root id n _ =>                                  (* self.x[idx] on a Python list *)
      match py_index (Z.of_nat n) k with Some j => Some (id, j) | None => None end
  | Sub _ idxs s' =>                                (* func(self.indices[idx]) *)
      match py_nth idxs k with Some i => resolve s' i | None => None end
  | Cat b parts =>
      let sizes := map size_of parts in
      match (if b then to_balanced_idx sizes k else to_concat_idx (cumsum 0 sizes) k) with
      | Some (d, j) => nth d (map (fun p => resolve p j) parts) None   (* IndexError beyond the last part *)
      | None => None
      end
  | Wrap _ s' => resolve s' k                       (* KDWrapper.__getattr__ delegates *)
  end.

(* <stack>.getall_x() *)
Inductive gres := GMissing | GErr | GOk (is_list : bool) (l : list sample).

Fixpoint all_some {A} (l : list (option A)) : option (list A) :=
  match l with
  | [] => Some []
  | Some x :: l' => match all_some l' with Some r => Some (x :: r) | None => None end
  | None :: _ => None
  end.

(* KDConcatDataset._call_getall: result += dataset_result, every part's result must be a list *)
Fixpoint cat_getall (rs : list gres) : gres :=
  match rs with
  | [] => GOk true []
  | GOk true l :: rs' => match cat_getall rs' with GOk _ r => GOk true (l ++ r) | e => e end
  | GOk false _ :: _ => GErr
  | e :: _ => e
  end.

(* is the attribute getall_x available (hasattr)?  With the fixes, KDSubset/KDConcatDataset
   look the attribute up on what they wrap before answering, and a balanced (endless)
   KDConcatDataset does not offer getall_* at all (AttributeError, checked first) *)
Fixpoint has_getall (s : stack) : bool :=
  match s with
  | Root _ _ pk => match pk with PNone => false | _ => true end
  | Sub _ _ s' => has_getall s'
  | Cat b parts => negb b && forallb has_getall parts
  | Wrap _ s' => has_getall s'
  end.

Fixpoint getall (s : stack) : gres :=
  match s with
  | Root id n pk =>
      match pk with
      | PNone => GMissing
      | PList => GOk true (map (fun k => (id, Z.of_nat k)) (seq 0 n))
      | PArray => GOk false (map (fun k => (id, Z.of_nat k)) (seq 0 n))
      end
  | Sub _ idxs s' =>                                 (* [result[i] for i in self.indices] *)
      match getall s' with
      | GOk _ r => match all_some (map (py_nth r) idxs) with Some l => GOk true l | None => GErr end
      | e => e
      end
  | Cat b parts => if b then GMissing
                   else if forallb has_getall parts then cat_getall (map getall parts) else GMissing
  | Wrap _ s' => getall s'
  end.

(* utils.getall(dataset, "x"): fast path when the attribute exists, else sample-wise *)
Definition util_getall (s : stack) : gres :=
  if has_getall s then getall s
  else match slen s with
       | Some n =>
           match all_some (map (fun k => resolve s (Z.of_nat k)) (seq 0 (Z.to_nat n))) with
           | Some l => GOk true l
           | None => GErr
           end
       | None => GErr
       end.

(* introspection *)
Fixpoint root (s : stack) : Z :=
  match s with
  | Root id _ _ => id
  | Sub _ _ s' => root s'
  | Cat _ parts => match parts with p :: _ => root p | [] => -1 end   (* self.datasets[0].root_dataset *)
  | Wrap _ s' => root s'
  end.

(* all_wrapper_types *)
Fixpoint wrappers (s : stack) : list Z :=
  match s with
  | Root _ _ _ => []
  | Sub t _ s' => t :: wrappers s'
  | Cat _ parts => match parts with p :: _ => wrappers p | [] => [] end
  | Wrap t s' => t :: wrappers s'
  end.

(* get_wrappers_of_type(T), reported as positions inside all_wrappers *)
Fixpoint wrappers_of_type (t : Z) (s : stack) : list nat :=
  match s with
  | Root _ _ _ => []
  | Sub t' _ s' => let ws := map S (wrappers_of_type t s') in if t' =? t then O :: ws else ws
  | Cat _ parts => match parts with p :: _ => wrappers_of_type t p | [] => [] end
  | Wrap t' s' => let ws := map S (wrappers_of_type t s') in if t' =? t then O :: ws else ws
  end.

(* has_wrapper_type(T) *)
Fixpoint has_wrapper_type (t : Z) (s : stack) : bool :=
  match s with
  | Root _ _ _ => false
  | Sub t' _ s' => if t' =? t then true else has_wrapper_type t s'
  | Cat _ parts => match parts with p :: _ => has_wrapper_type t p | [] => false end
  | Wrap t' s' => if t' =? t then true else has_wrapper_type t s'
  end.

(* dispose(): ids of the root datasets whose dispose() ran, in call order *)
Fixpoint dispose (s : stack) : list Z :=
  match s with
  | Root id _ _ => [id]
  | Sub _ _ s' => dispose s'                 (* not defined on KDSubset: __getattr__ delegates *)
  | Cat _ parts => flat_map dispose parts
  | Wrap _ s' => dispose s'
  end.

(* ---------- histories of accesses ---------- *)
(* One step of a history: a bulk or per-sample access on some stack -- the composed stack, one of its parts, or
   another stack built over the same part objects.  In the code every accessor builds its answer in containers it
   creates itself (KDConcatDataset._call_getall: result = []; result += part_result -- KDSubset._call_getall:
   [result[i] for i in self.indices]) and assigns no attribute; a root may hand out the container it keeps.  So no
   access changes what any object answers afterwards: the model of a history needs no state, every step is answered
   by the functions above.  (That the real objects behave like this -- no container kept by a root and no object
   handed out earlier is ever written to -- is checked on the real heap by the harness.) *)
Inductive hop := HGetall | HUtil | HLen | HItem (k : Z).
Inductive hres := HRAll (g : gres) | HRLen (n : option Z) | HRItem (r : option sample).

Definition eval_op (s : stack) (o : hop) : hres :=
  match o with
  | HGetall => HRAll (getall s)
  | HUtil => HRAll (util_getall s)
  | HLen => HRLen (slen s)
  | HItem k => HRItem (resolve s k)
  end.

Definition run_hist (h : list (stack * hop)) : list hres := map (fun so => eval_op (fst so) (snd so)) h.

(* KEPT ACCESSORS.  `f = stack.getitem_x` (or a ModeWrapper, which fetches its loaders once) may be obtained when the
   stack is `fetched` and called when a subset layer below has been given another index map, i.e. when the stack is `cur`:
   KDSubset's accessor is partial(self._call_getitem, func) -- it keeps the layer OBJECT and reads self.indices when it
   is called -- so the call is answered on the stack as it is NOW; the stack at fetch time is not an input. *)
Definition kept_eval (fetched cur : stack) (o : hop) : hres := eval_op cur o.
