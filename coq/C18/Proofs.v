From Coq Require Import ZArith List Bool Lia.
Import ListNotations.
From KD Require Import C18.Model C18.Spec.
Open Scope Z_scope.

Notation loop := (loop_gen true true).

Lemma emit_inv : forall o r t res, emit o r = (t, res) -> exists t', r = (t', res) /\ t = o ++ t'.
Proof. intros o [t' r'] t res H. unfold emit in H. simpl in H. inversion H; subst. eauto. Qed.

Ltac brk :=
  repeat (simpl in *; match goal with
  | H : context[match ?x with _ => _ end] |- _ =>
      match x with
      | loop_gen _ _ _ _ _ _ _ _ _ => fail 1
      | ctl _ _ _ _ _ => fail 1
      | _ => destruct x eqn:?; try discriminate
      end
  | H : (_, _) = (_, _) |- _ => inversion H; subst; clear H
  | H : inl _ = inl _ |- _ => inversion H; subst; clear H
  | H : inr _ = inr _ |- _ => inversion H; subst; clear H
  | H : Some _ = Some _ |- _ => inversion H; subst; clear H
  | H : inl _ = inr _ |- _ => discriminate H
  | H : inr _ = inl _ |- _ => discriminate H
  end).

(* every successful run of the data-carrying loop follows the control skeleton *)
Lemma loop_ok_ctl : forall rc ms k called removed b x t bo xo,
  loop rc k ms called removed b x = (t, Ok bo xo) ->
  ctl rc k (map mmode ms) called removed = (t, true).
Proof.
  induction ms as [|m ms IH]; intros k called removed b x t bo xo H; simpl in *.
  - inversion H; reflexivity.
  - unfold step_before, step_split in H.
    destruct (mmode m) eqn:Em; destruct called; destruct rc; destruct removed; simpl in *;
      try discriminate H; brk;
      try (match goal with H : emit _ _ = _ |- _ =>
             apply emit_inv in H; destruct H as [t' [H ->]]; apply IH in H; rewrite H; reflexivity end);
      try (exfalso; simpl in *; congruence).
Qed.

(* ---- the control skeleton in closed form ---- *)
Lemma calls_S : forall k n, calls k (S n) = Call k :: calls (S k) n.
Proof. reflexivity. Qed.

Lemma ctl_called : forall rc ms k removed,
  forallb is_before ms = true -> ctl rc k ms true removed = (calls k (length ms), true).
Proof.
  induction ms as [|m ms IH]; intros k removed H; simpl in *; [reflexivity|].
  apply andb_prop in H; destruct H as [Hm H]. destruct m; try discriminate Hm. simpl.
  rewrite ?orb_false_r. rewrite (IH (S k) removed H). reflexivity.
Qed.

Lemma ctl_called_bad : forall rc ms k removed,
  forallb is_before ms = false -> snd (ctl rc k ms true removed) = false.
Proof.
  induction ms as [|m ms IH]; intros k removed H; simpl in *; [discriminate|].
  destruct m; simpl in *; try reflexivity. rewrite ?orb_false_r. apply IH; assumption.
Qed.

Lemma ctl_uncollated : forall rc ms k removed,
  well_ordered ms = true -> rc && negb removed = false ->
  ctl rc k ms false removed = (spec_uncollated k ms, true).
Proof.
  induction ms as [|m ms IH]; intros k removed H Hc; simpl in *; [reflexivity|].
  destruct m; simpl.
  - rewrite Hc. simpl. rewrite orb_false_r. rewrite (IH (S k) removed H Hc). reflexivity.
  - rewrite Hc. simpl. rewrite (ctl_called rc ms (S k) (removed || false) H). reflexivity.
  - rewrite Hc. simpl. rewrite (ctl_called rc ms (S k) (removed || false) H). reflexivity.
Qed.

Lemma ctl_uncollated_bad : forall rc ms k removed,
  well_ordered ms = false -> snd (ctl rc k ms false removed) = false.
Proof.
  induction ms as [|m ms IH]; intros k removed H; simpl in *; [discriminate|].
  destruct m; simpl.
  - apply IH; assumption.
  - apply ctl_called_bad; assumption.
  - apply ctl_called_bad; assumption.
Qed.

Lemma ctl_closed_form : forall rc ms,
  well_ordered ms = true -> ctl rc 0 ms false false = (spec_trace rc ms, true).
Proof.
  intros rc ms H. destruct ms as [|m ms]; [reflexivity|].
  destruct rc.
  - destruct m; simpl in *.
    + rewrite (ctl_uncollated true ms 1 true H eq_refl). reflexivity.
    + rewrite (ctl_called true ms 1 false H). reflexivity.
    + rewrite (ctl_called true ms 1 true H). reflexivity.
  - rewrite (ctl_uncollated false (m :: ms) 0 false H eq_refl). destruct m; reflexivity.
Qed.

Lemma count_dc_app : forall a b, count_dc (a ++ b) = (count_dc a + count_dc b)%nat.
Proof. intros. unfold count_dc. rewrite filter_app, app_length. reflexivity. Qed.

Lemma count_dc_calls : forall n k, count_dc (calls k n) = 0%nat.
Proof. induction n; intros; [reflexivity|]. rewrite calls_S. unfold count_dc in *. simpl. apply IHn. Qed.

Lemma count_dc_cons : forall o t, count_dc (o :: t) = ((if is_dc o then 1 else 0) + count_dc t)%nat.
Proof. intros. unfold count_dc. simpl. destruct (is_dc o); reflexivity. Qed.

Lemma count_dc_uncollated : forall ms k,
  count_dc (spec_uncollated k ms) = if all_none ms then 0%nat else 1%nat.
Proof.
  induction ms as [|m ms IH]; intros k; [reflexivity|].
  destruct m; cbn [spec_uncollated all_none forallb is_none andb].
  - rewrite count_dc_cons. cbn [is_dc]. rewrite IH. reflexivity.
  - rewrite count_dc_cons, count_dc_calls. reflexivity.
  - rewrite !count_dc_cons, count_dc_calls. reflexivity.
Qed.

(* spec_trace collates exactly once iff some member asks for it *)
Lemma spec_trace_count : forall rc ms,
  count_dc (spec_trace rc ms) = if all_none ms then 0%nat else 1%nat.
Proof.
  intros rc ms. destruct ms as [|m ms]; [reflexivity|].
  destruct m; unfold spec_trace.
  - rewrite count_dc_app, count_dc_uncollated. destruct rc; reflexivity.
  - rewrite count_dc_cons, count_dc_app, count_dc_calls. destruct rc; reflexivity.
  - rewrite count_dc_app, count_dc_uncollated. destruct rc; reflexivity.
Qed.

(* T: successful call => members were well ordered and the trace is the specified one *)
Lemma ok_trace : forall rc ms b t bo xo,
  call_impl rc ms b = (t, Ok bo xo) ->
  well_ordered (map mmode ms) = true /\ t = spec_trace rc (map mmode ms).
Proof.
  intros rc ms b t bo xo H. unfold call_impl, call_impl_gen in H. apply loop_ok_ctl in H.
  destruct (well_ordered (map mmode ms)) eqn:W.
  - rewrite (ctl_closed_form rc _ W) in H. inversion H. auto.
  - pose proof (ctl_uncollated_bad rc _ 0%nat false W) as Hb. rewrite H in Hb. discriminate Hb.
Qed.

(* ---- at most one DefaultCollate in EVERY run, successful or not ---- *)
Lemma step_before_count : forall gx rc m called removed b x,
  count_dc (fst (step_before gx rc m called removed b x)) = (if is_before m && negb called then 1 else 0)%nat.
Proof.
  intros. unfold step_before. destruct (is_before m && negb called); [|reflexivity].
  destruct (default_collate b) as [b'|]; [|reflexivity].
  destruct (rc && (negb gx || negb removed)); [|reflexivity]. destruct b'; reflexivity.
Qed.

Lemma step_before_called : forall gx rc m called removed b x o c1 b1 x1,
  step_before gx rc m called removed b x = (o, inr (c1, b1, x1)) -> c1 = called || (is_before m && negb called).
Proof.
  intros until x1. unfold step_before. destruct (is_before m && negb called).
  - destruct (default_collate b) as [b'|]; [|discriminate].
    destruct (rc && (negb gx || negb removed)); [destruct b'|]; intros H; inversion H; subst; rewrite orb_true_r; reflexivity.
  - intros H; inversion H; subst. rewrite orb_false_r. reflexivity.
Qed.

Lemma step_split_count : forall rc called removed b x,
  count_dc (fst (step_split rc called removed b x)) = 0%nat.
Proof.
  intros. unfold step_split. destruct (negb called && rc && negb removed); [|reflexivity].
  destruct b; try reflexivity. destruct (collate_ctx (map snd l)); reflexivity.
Qed.

Lemma loop_count : forall rc ms k called removed b x,
  (count_dc (fst (loop rc k ms called removed b x)) <= if called then 0 else 1)%nat.
Proof.
  induction ms as [|m ms IH]; intros k called removed b x.
  - simpl. destruct called; unfold count_dc; simpl; lia.
  - simpl.
    destruct (is_none (mmode m) && called) eqn:En.
    { destruct called; unfold count_dc; simpl; lia. }
    pose proof (step_before_count true rc (mmode m) called removed b x) as Hb.
    destruct (step_before true rc (mmode m) called removed b x) as [o1 [e|[[c1 b1] x1]]] eqn:Es1.
    { simpl in *. rewrite Hb. destruct (mmode m); destruct called; simpl; lia. }
    apply step_before_called in Es1.
    pose proof (step_split_count rc c1 removed b1 x1) as Hs.
    destruct (step_split rc c1 removed b1 x1) as [o2 [e|[[r2 b2] x2]]].
    { simpl in *. rewrite count_dc_app, Hb, Hs. destruct (mmode m); destruct called; simpl; lia. }
    simpl in Hb, Hs.
    assert (Hcall : forall kk, count_dc [Call kk] = 0%nat) by reflexivity.
    assert (Hcalldc : forall kk, count_dc [Call kk; DefaultCollate] = 1%nat) by reflexivity.
    destruct (mcollate m b2 x2) as [[b3 x3]|].
    2:{ simpl. rewrite !count_dc_app, Hb, Hs, Hcall. destruct (mmode m); destruct called; simpl; lia. }
    destruct (is_after (mmode m)) eqn:Ea.
    + destruct c1 eqn:Ec1.
      { simpl. rewrite !count_dc_app, Hb, Hs, Hcall. destruct (mmode m); destruct called; simpl; try lia; discriminate. }
      destruct (default_collate b3) as [b4|].
      2:{ simpl. rewrite !count_dc_app, Hb, Hs, Hcalldc. destruct (mmode m); destruct called; simpl in *; try lia; discriminate. }
      unfold emit; cbn [fst snd]. rewrite !count_dc_app, Hb, Hs, Hcalldc.
      pose proof (IH (S k) true r2 b4 x3) as Hi. simpl in Hi.
      destruct (mmode m); destruct called; simpl in *; try lia; discriminate.
    + unfold emit; cbn [fst snd]. rewrite !count_dc_app, Hb, Hs, Hcall.
      pose proof (IH (S k) c1 r2 b3 x3) as Hi. subst c1.
      destruct (mmode m); destruct called; simpl in *; try lia; discriminate.
Qed.

Lemma at_most_once : forall rc ms b, (count_dc (fst (call_impl rc ms b)) <= 1)%nat.
Proof. intros. unfold call_impl, call_impl_gen. apply (loop_count rc ms 0%nat false false b []). Qed.

(* ---- (batch, ctx) iff configured ---- *)
Lemma loop_ok_ctx : forall rc ms k called removed b x t bo xo,
  loop rc k ms called removed b x = (t, Ok bo xo) -> exists x', xo = if rc then Some x' else None.
Proof.
  induction ms as [|m ms IH]; intros k called removed b x t bo xo H; simpl in H.
  - inversion H; subst. eauto.
  - unfold step_before, step_split in H.
    destruct (mmode m) eqn:Em; destruct called; destruct rc; destruct removed; simpl in *;
      try discriminate H; brk;
      try (match goal with H : emit _ _ = _ |- _ =>
             apply emit_inv in H; destruct H as [t' [H _]]; apply IH in H; exact H end);
      try (exfalso; simpl in *; congruence).
Qed.

(* ---- layout ---- *)
Lemma map_opt_length : forall A B (f : A -> option B) l r, map_opt f l = Some r -> length r = length l.
Proof.
  induction l as [|a l IH]; intros r H; simpl in H.
  - inversion H; reflexivity.
  - destruct (f a); [|discriminate]. destruct (map_opt f l) eqn:E; [|discriminate].
    inversion H; subst. simpl. f_equal. apply IH. reflexivity.
Qed.

Lemma map_opt_Forall : forall A B (f : A -> option B) (P : B -> Prop) l r,
  map_opt f l = Some r -> (forall a b, In a l -> f a = Some b -> P b) -> Forall P r.
Proof.
  induction l as [|a l IH]; intros r H HP; simpl in H.
  - inversion H; constructor.
  - destruct (f a) eqn:Ea; [|discriminate]. destruct (map_opt f l) eqn:E; [|discriminate].
    inversion H; subst. constructor.
    + apply (HP a); [left; reflexivity|assumption].
    + apply IH; [reflexivity|]. intros a' b' Hin. apply HP. right; assumption.
Qed.

Lemma collate_col_rows : forall col f, collate_col col = Some f -> rows_of f = length col.
Proof.
  intros col f H. unfold collate_col in H. destruct col as [|[z|s] col']; [discriminate| |].
  - destruct (map_opt get_scalar (FScalar z :: col')) eqn:E; [|discriminate]. inversion H; subst.
    simpl. apply map_opt_length in E. exact E.
  - destruct (map_opt get_seq (FSeq s :: col')) eqn:E; [|discriminate].
    destruct (same_len l); [|discriminate]. inversion H; subst. simpl. apply map_opt_length in E. exact E.
Qed.

Lemma collate_items_shape : forall n B l c,
  items_shape n B l -> collate_items l = Some c -> coll_shape n B c.
Proof.
  intros n B l c [HB Hn] H. unfold collate_items in H. destruct l as [|s0 l']; [discriminate|].
  destruct (forallb _ (s0 :: l')); [|discriminate].
  assert (Hs0 : length s0 = n) by (inversion Hn; assumption).
  split.
  - apply map_opt_length in H. rewrite seq_length in H. congruence.
  - eapply map_opt_Forall; [exact H|]. intros i f _ Hi. simpl in Hi.
    destruct (column i (s0 :: l')) as [col|] eqn:Ec; [|discriminate].
    apply collate_col_rows in Hi. rewrite Hi. unfold column in Ec. apply map_opt_length in Ec. congruence.
Qed.

Section Layout.
  Variables (n B : nat) (rc : bool).

  (* what `batch` is bound to, given the two flags *)
  Definition inv (called removed : bool) (b : batch) : Prop :=
    if called then has_layout n B true b
    else if rc && negb removed then exists l, b = BRaw l /\ items_shape n B (map fst l)
    else has_layout n B false b.

  Definition inv' (called removed : bool) (b : batch) : Prop :=
    has_layout n B called b /\ (called = false -> rc && negb removed = false).

  Lemma inv'_inv : forall c r b, inv' c r b -> inv c r b.
  Proof. intros c r b [H1 H2]. unfold inv. destruct c; [assumption|]. rewrite (H2 eq_refl). assumption. Qed.

  Lemma step_before_inv : forall m called removed b x o c1 b1 x1,
    inv called removed b ->
    step_before true rc m called removed b x = (o, inr (c1, b1, x1)) -> inv c1 removed b1.
  Proof.
    intros m called removed b x o c1 b1 x1 Hi H. unfold step_before in H.
    destruct (is_before m && negb called) eqn:Eb.
    2:{ inversion H; subst. assumption. }
    apply andb_prop in Eb. destruct Eb as [_ Ec]. destruct called; [discriminate|]. unfold inv in Hi.
    destruct (default_collate b) as [b'|] eqn:Ed; [|discriminate]. simpl in H.
    destruct (rc && negb removed) eqn:Er.
    - destruct Hi as [l [-> Hl]]. simpl in Ed.
      destruct (collate_items (map fst l)) eqn:Ec1; [|discriminate]. destruct (collate_ctx (map snd l)); [|discriminate].
      inversion Ed; subst. inversion H; subst. simpl. split; [reflexivity|]. eapply collate_items_shape; eauto.
    - inversion H; subst. destruct b; simpl in Hi; try contradiction. destruct Hi as [_ Hl]. simpl in Ed.
      destruct (collate_items l) eqn:Ec1; [|discriminate]. inversion Ed; subst. simpl. split; [reflexivity|].
      eapply collate_items_shape; eauto.
      destruct Hi as [Hf _]. discriminate Hf.
  Qed.

  Lemma step_split_inv : forall c1 removed b1 x1 o r2 b2 x2,
    inv c1 removed b1 ->
    step_split rc c1 removed b1 x1 = (o, inr (r2, b2, x2)) -> inv' c1 r2 b2.
  Proof.
    intros c1 removed b1 x1 o r2 b2 x2 Hi H. unfold step_split in H. unfold inv in Hi. unfold inv'.
    destruct c1; simpl in H.
    - inversion H; subst. split; [assumption|discriminate].
    - destruct (rc && negb removed) eqn:Er.
      + destruct Hi as [l [-> Hl]]. destruct (collate_ctx (map snd l)); [|discriminate]. inversion H; subst.
        split; [simpl; auto|]. intros _. rewrite andb_false_r. reflexivity.
      + inversion H; subst. auto.
  Qed.

  Lemma member_step : forall m ms k called removed b x t bo xo,
    inv called removed b -> keeps_layout n B m ->
    loop rc k (m :: ms) called removed b x = (t, Ok bo xo) ->
    exists k' c' r' b' x' t',
      loop rc k' ms c' r' b' x' = (t', Ok bo xo) /\ inv' c' r' b' /\
      c' = called || negb (is_none (mmode m)).
  Proof.
    intros m ms k called removed b x t bo xo Hi Hk H. simpl in H.
    destruct (is_none (mmode m) && called) eqn:En; [discriminate|].
    destruct (step_before true rc (mmode m) called removed b x) as [o1 [e|[[c1 b1] x1]]] eqn:Es1; [discriminate|].
    pose proof (step_before_called _ _ _ _ _ _ _ _ _ _ _ Es1) as Hc1.
    pose proof (step_before_inv _ _ _ _ _ _ _ _ _ Hi Es1) as Hi1.
    destruct (step_split rc c1 removed b1 x1) as [o2 [e|[[r2 b2] x2]]] eqn:Es2; [discriminate|].
    pose proof (step_split_inv _ _ _ _ _ _ _ _ Hi1 Es2) as [Hl2 Hr2].
    destruct (mcollate m b2 x2) as [[b3 x3]|] eqn:Em; [|discriminate].
    pose proof (Hk _ _ _ _ _ Em Hl2) as Hl3.
    destruct (is_after (mmode m)) eqn:Ea.
    - destruct c1; [discriminate|]. destruct (default_collate b3) as [b4|] eqn:Ed; [|discriminate].
      apply emit_inv in H. destruct H as [t' [H _]].
      exists (S k), true, r2, b4, x3, t'. split; [exact H|]. split.
      + split; [|discriminate]. destruct b3; simpl in Hl3; try contradiction.
        * simpl in Ed. destruct (collate_items l) eqn:Ec; [|discriminate]. inversion Ed; subst.
          simpl. split; [reflexivity|]. destruct Hl3 as [_ Hl3]. eapply collate_items_shape; eauto.
        * destruct Hl3 as [Hf _]; discriminate Hf.
      + destruct (mmode m); try discriminate Ea. simpl. rewrite orb_true_r. reflexivity.
    - apply emit_inv in H. destruct H as [t' [H _]].
      exists (S k), c1, r2, b3, x3, t'. split; [exact H|]. split; [split; assumption|].
      rewrite Hc1. destruct (mmode m); try discriminate Ea; destruct called; reflexivity.
  Qed.

  Lemma loop_layout : forall ms k called removed b x t bo xo,
    inv' called removed b -> Forall (keeps_layout n B) ms ->
    loop rc k ms called removed b x = (t, Ok bo xo) ->
    has_layout n B (called || negb (all_none (map mmode ms))) bo.
  Proof.
    induction ms as [|m ms IH]; intros k called removed b x t bo xo Hi Hk H.
    - simpl in H. inversion H; subst. simpl. rewrite orb_false_r. apply Hi.
    - pose proof (Forall_inv Hk) as Hk1. pose proof (Forall_inv_tail Hk) as Hk2.
      destruct (member_step _ _ _ _ _ _ _ _ _ _ (inv'_inv _ _ _ Hi) Hk1 H) as (k' & c' & r' & b' & x' & t' & Hl & Hi' & Hc).
      apply IH in Hl; try assumption. subst c'. simpl.
      destruct (is_none (mmode m)); simpl in *; [rewrite orb_false_r in Hl; exact Hl|].
      rewrite orb_true_r in *. exact Hl.
  Qed.

  Lemma call_layout : forall ms b t bo xo,
    ms <> [] -> raw_input n B rc b -> Forall (keeps_layout n B) ms ->
    call_impl rc ms b = (t, Ok bo xo) ->
    has_layout n B (negb (all_none (map mmode ms))) bo.
  Proof.
    intros ms b t bo xo Hne Hraw Hk H. destruct ms as [|m ms]; [congruence|].
    unfold call_impl, call_impl_gen in H.
    pose proof (Forall_inv Hk) as Hk1. pose proof (Forall_inv_tail Hk) as Hk2.
    assert (Hi : inv false false b).
    { unfold inv. unfold raw_input in Hraw. destruct b; try contradiction.
      - destruct Hraw as [-> Hs]. simpl. eauto.
      - destruct Hraw as [-> Hs]. simpl. auto. }
    destruct (member_step _ _ _ _ _ _ _ _ _ _ Hi Hk1 H) as (k' & c' & r' & b' & x' & t' & Hl & Hi' & Hc).
    apply loop_layout in Hl; try assumption. subst c'. simpl in *.
    destruct (is_none (mmode m)); simpl in *; exact Hl.
  Qed.
End Layout.

(* ---- the batched context ---- *)
Section Ctx.
  Variable R : bctx -> bctx -> Prop.
  Hypothesis R_refl : forall x, R x x.
  Hypothesis R_trans : forall x y z, R x y -> R y z -> R x z.
  Definition member_R (m : member) : Prop := forall b x b' x', mcollate m b x = Some (b', x') -> R x x'.

  (* once the contexts are out of the batch (collated with it or split off), the
     pipeline itself never touches the batched context again *)
  Lemma loop_ctx_settled : forall ms k called removed b x t bo xo,
    called || removed = true -> Forall member_R ms ->
    loop true k ms called removed b x = (t, Ok bo xo) -> exists x', xo = Some x' /\ R x x'.
  Proof.
    induction ms as [|m ms IH]; intros k called removed b x t bo xo Hcr Hk H; simpl in H.
    - inversion H; subst. eauto.
    - pose proof (Forall_inv Hk) as Hk1. pose proof (Forall_inv_tail Hk) as Hk2. unfold member_R in Hk1.
      unfold step_before, step_split in H.
      destruct (mmode m) eqn:Em; destruct called; destruct removed; simpl in *;
        try discriminate H; try discriminate Hcr; brk;
        try (match goal with
             | Hm : mcollate m _ _ = Some _, H : emit _ _ = _ |- _ =>
                 apply Hk1 in Hm; apply emit_inv in H; destruct H as [t' [H _]];
                 apply IH in H; [|reflexivity|assumption]; destruct H as [x' [-> Hx]]; eauto
             end);
        try (exfalso; simpl in *; congruence).
  Qed.

  Lemma call_ctx : forall m ms l t bo xo,
    Forall member_R (m :: ms) ->
    call_impl true (m :: ms) (BRaw l) = (t, Ok bo xo) ->
    exists x0 x', collate_ctx (map snd l) = Some x0 /\ xo = Some x' /\ R x0 x'.
  Proof.
    intros m ms l t bo xo Hk H. unfold call_impl, call_impl_gen in H. simpl in H.
    pose proof (Forall_inv Hk) as Hk1. pose proof (Forall_inv_tail Hk) as Hk2. unfold member_R in Hk1.
    unfold step_before, step_split in H.
    destruct (mmode m) eqn:Em; simpl in *; brk;
      try (match goal with
           | Hm : mcollate m _ _ = Some _, H : emit _ _ = _ |- _ =>
               apply Hk1 in Hm; apply emit_inv in H; destruct H as [t' [H _]];
               apply loop_ctx_settled in H; [|reflexivity|assumption]; destruct H as [x' [-> Hx]];
               eexists; eexists; split; [reflexivity|split; [reflexivity|eauto]]
           end);
      try (exfalso; simpl in *; congruence).
  Qed.
End Ctx.

Lemma ctx_exact : forall m ms l t bo xo,
  Forall keeps_ctx (m :: ms) ->
  call_impl true (m :: ms) (BRaw l) = (t, Ok bo xo) -> xo = collate_ctx (map snd l).
Proof.
  intros m ms l t bo xo Hk H.
  destruct (call_ctx (fun x y => y = x) (fun x => eq_refl) (fun x y z H1 H2 => eq_trans H2 H1) m ms l t bo xo) as (x0 & x' & E & -> & ->).
  - exact Hk.
  - exact H.
  - symmetry; exact E.
Qed.

Lemma ctx_keys_kept : forall m ms l t bo xo,
  Forall extends_ctx (m :: ms) ->
  call_impl true (m :: ms) (BRaw l) = (t, Ok bo xo) ->
  exists x0 x', collate_ctx (map snd l) = Some x0 /\ xo = Some x' /\ incl (keys x0) (keys x').
Proof.
  intros m ms l t bo xo Hk H.
  apply (call_ctx (fun x y => incl (keys x) (keys y)) (fun x => incl_refl _) (fun x y z => @incl_tran _ _ _ _) m ms l t bo xo Hk H).
Qed.

(* the keys of the batched context are exactly the keys of the (first) sample context *)
Lemma collate_ctx_keys_aux : forall (L : list sctx) (c : sctx) x,
  map_opt (fun kv => option_map (fun vs => (fst kv, vs)) (map_opt (lookup (fst kv)) L)) c = Some x ->
  map fst x = map fst c.
Proof.
  induction c as [|[k v] c IH]; intros x H; simpl in H.
  - inversion H; reflexivity.
  - destruct (map_opt (lookup k) L); simpl in H; [|discriminate].
    destruct (map_opt _ c) eqn:E; [|discriminate]. inversion H; subst. simpl. f_equal. apply IH. reflexivity.
Qed.

Lemma collate_ctx_keys : forall c0 l' x, collate_ctx (c0 :: l') = Some x -> keys x = map fst c0.
Proof. intros c0 l' x H. unfold collate_ctx in H. apply collate_ctx_keys_aux in H. exact H. Qed.

(* ---- padding ---- *)
Lemma max_len_ge : forall rows r, In r rows -> (length r <= max_len rows)%nat.
Proof.
  induction rows as [|r0 rows IH]; intros r H; [contradiction|]. simpl. destruct H as [->|H].
  - lia.
  - specialize (IH r H). lia.
Qed.

Lemma max_len_attained : forall rows, rows <> [] -> exists r, In r rows /\ length r = max_len rows.
Proof.
  induction rows as [|r0 rows IH]; intros H; [congruence|]. simpl.
  destruct rows as [|r1 rows'].
  - exists r0. split; [left; reflexivity|]. simpl. lia.
  - destruct IH as [r [Hin Hr]]; [discriminate|].
    destruct (Nat.le_ge_cases (length r0) (max_len (r1 :: rows'))) as [Hle|Hge].
    + exists r. split; [right; exact Hin|]. rewrite Hr. lia.
    + exists r0. split; [left; reflexivity|]. lia.
Qed.

Lemma pad_row_length : forall M r, (length r <= M)%nat -> length (pad_row M r) = M.
Proof. intros. unfold pad_row. rewrite app_length, repeat_length. lia. Qed.

Lemma pad_col_padded : forall col out, pad_col col = Some out -> padded_field col out.
Proof.
  intros col out H. unfold pad_col in H. destruct col as [|[z|s] col']; [discriminate| |].
  - exact H.
  - unfold padded_field. destruct (map_opt get_seq (FSeq s :: col')) as [rows|] eqn:E; [|discriminate].
    simpl in H. inversion H; subst. exists rows, (max_len rows).
    split; [reflexivity|]. split; [apply max_len_ge|]. split.
    + apply max_len_attained. intros ->. apply map_opt_length in E. discriminate E.
    + split; [reflexivity|]. intros p Hp. apply in_map_iff in Hp. destruct Hp as [r [<- Hr]].
      apply (pad_row_length (max_len rows) r). apply max_len_ge; assumption.
Qed.

Lemma map_opt_nth : forall A B (f : A -> option B) l r i a,
  map_opt f l = Some r -> nth_error l i = Some a -> exists b, nth_error r i = Some b /\ f a = Some b.
Proof.
  induction l as [|a0 l IH]; intros r i a H Hn.
  - destruct i; discriminate.
  - simpl in H. destruct (f a0) eqn:Ea; [|discriminate]. destruct (map_opt f l) eqn:E; [|discriminate].
    inversion H; subst. destruct i; simpl in *.
    + inversion Hn; subst. eauto.
    + eapply IH; eauto.
Qed.

Lemma nth_error_seq0 : forall n i, (i < n)%nat -> nth_error (seq 0 n) i = Some i.
Proof.
  intros n i H. rewrite (nth_error_nth' (seq 0 n) 0%nat) by (rewrite seq_length; exact H).
  rewrite seq_nth by exact H. reflexivity.
Qed.

(* every field of the padding collator's output, position by position *)
Lemma pad_items_fieldwise : forall s0 l cs,
  pad_items (s0 :: l) = Some cs ->
  length cs = length s0 /\
  forall i, (i < length s0)%nat ->
    exists col out, column i (s0 :: l) = Some col /\ nth_error cs i = Some out /\ padded_field col out.
Proof.
  intros s0 l cs H. unfold pad_items in H. split.
  - apply map_opt_length in H. rewrite seq_length in H. exact H.
  - intros i Hi. destruct (map_opt_nth _ _ _ _ _ i i H (nth_error_seq0 _ _ Hi)) as [out [Hn Hf]].
    destruct (column i (s0 :: l)) as [col|] eqn:Ec; [|discriminate].
    exists col, out. split; [reflexivity|]. split; [exact Hn|]. apply pad_col_padded; exact Hf.
Qed.

Lemma pad_pipeline_ctx : forall l t bo xo,
  call_impl true [pad_member] (BRaw l) = (t, Ok bo xo) ->
  exists c, pad_items (map fst l) = Some c /\ bo = BColl c /\ xo = collate_ctx (map snd l).
Proof.
  intros l t bo xo H. unfold call_impl, call_impl_gen in H. simpl in H. unfold step_split in H. simpl in H.
  destruct (collate_ctx (map snd l)) as [x|]; [|discriminate]. simpl in H.
  destruct (pad_items (map fst l)) as [c|]; [|discriminate]. simpl in H. inversion H; subst. eauto.
Qed.

Lemma pad_pipeline_noctx : forall l t bo xo,
  call_impl false [pad_member] (BItems l) = (t, Ok bo xo) ->
  exists c, pad_items l = Some c /\ bo = BColl c /\ xo = None.
Proof.
  intros l t bo xo H. unfold call_impl, call_impl_gen in H. simpl in H.
  destruct (pad_items l) as [c|]; [|discriminate]. simpl in H. inversion H; subst. eauto.
Qed.

(* the old code (before the two _call_impl patches) *)
Definition id_member (md : cmode) : member := {| mmode := md; mcollate := fun b x => Some (b, x) |}.

(* ---- the statements of Property.v ---- *)
Lemma exactly_once_where_asked :
  forall rc ms b t bo xo,
    call_impl rc ms b = (t, Ok bo xo) ->
    well_ordered (map mmode ms) = true /\
    t = spec_trace rc (map mmode ms) /\
    count_dc t = (if all_none (map mmode ms) then 0 else 1)%nat.
Proof.
  intros rc ms b t bo xo H. destruct (ok_trace rc ms b t bo xo H) as [W E].
  split; [exact W|]. split; [exact E|]. rewrite E. apply spec_trace_count.
Qed.

Lemma ctx_iff_configured :
  forall rc ms b t bo xo, call_impl rc ms b = (t, Ok bo xo) -> (xo <> None <-> rc = true).
Proof.
  intros rc ms b t bo xo H. unfold call_impl, call_impl_gen in H. apply loop_ok_ctx in H.
  destruct H as [x' ->]. destruct rc; split; intros; congruence.
Qed.

Lemma ctx_keys_exact :
  forall m ms c0 l t bo xo,
    Forall keeps_ctx (m :: ms) ->
    call_impl true (m :: ms) (BRaw (c0 :: l)) = (t, Ok bo xo) ->
    xo = collate_ctx (map snd (c0 :: l)) /\
    exists x, xo = Some x /\ keys x = map fst (snd c0).
Proof.
  intros m ms c0 l t bo xo Hk H. pose proof (ctx_exact m ms (c0 :: l) t bo xo Hk H) as E.
  split; [exact E|].
  destruct xo as [x|].
  - exists x. split; [reflexivity|]. simpl in E. symmetry in E. apply collate_ctx_keys in E. exact E.
  - pose proof (proj2 (ctx_iff_configured _ _ _ _ _ _ H) eq_refl) as Hc. congruence.
Qed.

Lemma pad_pipelines :
  (forall l t bo xo, call_impl true [pad_member] (BRaw l) = (t, Ok bo xo) ->
     exists c, pad_items (map fst l) = Some c /\ bo = BColl c /\ xo = collate_ctx (map snd l)) /\
  (forall l t bo xo, call_impl false [pad_member] (BItems l) = (t, Ok bo xo) ->
     exists c, pad_items l = Some c /\ bo = BColl c /\ xo = None).
Proof. split; [exact pad_pipeline_ctx|exact pad_pipeline_noctx]. Qed.

Lemma pad_scalar_as_default :
  forall z col out, pad_col (FScalar z :: col) = Some out -> collate_col (FScalar z :: col) = Some out.
Proof. intros z col out H. exact H. Qed.
