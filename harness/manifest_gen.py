"""Regenerates /verif/MANIFEST.json from the table below (kept in one place so
the manifest is always valid)."""
import json
import os

VERIF = os.path.dirname(os.path.dirname(os.path.abspath(__file__)))

CLAIMED = {
    "C01": dict(text="Coq theorems for arbitrary mode lists, fused groups, stacks and sizes: the constructor's fuse plan never fails, equals the "
                     "occurrence-counting spec plan and fills every position by its own loader or the winning joint load; __getitem__ equals the spec "
                     "sample position by position ('index' gives i, named items the loader's value alone or jointly, ctx.k what was recorded since a "
                     "fresh ctx), bare value for one item / tuple for several, ctx appended iff requested and holding only this call's keys, every "
                     "access history independent of earlier accesses; negative indices, slices (closed formulas = language reference), index lists, "
                     "iteration and len follow sequence semantics; has/get/set_item laws. Model tied to /repo by random stacks with token-returning "
                     "and ctx-stamping loaders on the real ModeWrapper every run.",
                ref="2 C01 / 7.18", note="Coq kernel+vm_compute; hand-written model coq/C01/Model.v; the stack below the wrapper is abstracted into what it "
                "answers (delegation cross-checked by the Python oracle); out-of-range ints and __getattr__ delegation outside the claim",
                technique="Coq proofs (list induction over the mode / fuse plan, Z arithmetic for slices) over a hand-written model + vm_compute correspondence with the real ModeWrapper"),
    "C02": dict(text="Coq theorems by induction over arbitrary nestings of subset / concat / balanced concat / wrapper layers: resolve s k = "
                     "nth k (map_of s) for -len <= k < len (map_of = composition of the layers' index maps), len = length of the map, "
                     "balanced concat round-robins, bisect lookup is the inverse of the cumulative sizes (also negative k), getall = map of "
                     "getitem (fast and slow path of utils.getall), root / wrapper list / wrapper lookup / dispose through every linear "
                     "chain, attribute delegation resolves to the nearest provider link by link (dispose / worker_init reach every root once); a balanced "
                     "concat no longer offers getall_* (repaired), so utils.getall over it loads sample-wise and agrees. "
                     "Model tied to /repo by resolving every index of random stacks on the real classes every run.",
                ref="2 C02", note="Coq kernel+vm_compute; hand-written model coq/C02/Model.v; torch Subset/ConcatDataset constructors and "
                "bisect trusted; arbitrary attribute delegation exercised for a few names only",
                technique="Coq proofs (structural induction over dataset stacks) over a hand-written model + vm_compute correspondence with the real dataset classes"),
    "C03": dict(text="Coq theorems for every class layout, size, parameter and draw sequence: class filter = filter of the ids in original "
                     "order; index/percent ranges are contiguous blocks and complementary ranges partition the dataset for every bound incl. "
                     "0 and 1; shuffle is a permutation; sort-by-class is THE stable sort (Permutation + sorted + ties in original order, unique); "
                     "intra-class shuffle keeps the class sequence; repeat = whole round-robin copies with (k-1)n < m <= kn; oversampling keeps all, "
                     "multiply reaches max/2 < count <= max, exact reaches max and terminates (absent classes included; without the guard no fuel "
                     "suffices); few-shot / class-wise subsets take min(shots,count) / the rank selection per class. Model tied to /repo by "
                     "constructing the real wrappers on generated layouts with recorded draws every run.",
                ref="2 C03 / 7.9", note="Coq kernel+vm_compute; hand-written model coq/C03/Model.v over an abstract percent-cut record, the binary64 "
                "instance (ModelFloat.v, PrimFloat) is used by the correspondence only and its contract is evaluated per case, not proved",
                technique="Coq proofs (list induction, Permutation/Sorted, fuel-bounded loops) over a hand-written model + vm_compute correspondence with the real wrappers"),
    "C04": dict(text="Coq theorems (all N, B, budgets, configs, epoch permutations): the model of _training_loop equals a "
                     "closed-form spec (epoch-wise concatenation cut by batch size, stop at the first update reaching "
                     "the budget, termination within the remaining budget); model tied to /repo by evaluating model, "
                     "spec and real InterleavedSampler on the same generated cases on every run.",
                ref="2 C04/C05/C06", note="Coq kernel+vm_compute; hand-written model coq/C04/Model.v; harness recording "
                "samplers; main sampler yields len(sampler) indices", technique="Coq proof by induction (model = closed-form spec) + vm_compute correspondence with the real sampler"),
    "C05": dict(text="Coq theorems: after every main update exactly the configs whose interval was reached or crossed are "
                     "iterated, whole, in config order, with their own batch size; offsets resolve back (concat lookup); "
                     "zero budget = one pass. Tied to /repo by correspondence on generated cases every run.",
                ref="2 C04/C05/C06", note="as C04; side samplers replay the same list every pass",
                technique="Coq proof by induction (side passes of the model = due-predicate spec) + vm_compute correspondence"),
    "C06": dict(text="Coq theorem: for every checkpoint on an epoch boundary before the budget the constructor's derived "
                     "state equals the state the uninterrupted run has there, hence the resumed run is the suffix; "
                     "correspondence compares resumed and fresh runs of the real code.",
                ref="2 C04/C05/C06", note="as C04", technique="Coq proof (resume = suffix, from model = spec) + differential run fresh vs resumed"),
    "C07": dict(text="Coq theorems: generic provenance theory of generator slots in object trees of any depth/width (closed_table_deterministic: "
                     "over a closed class table every draw of every call after set_rng(s) comes from the injected generator - no "
                     "process-global source, no construction-time generator, no earlier injection), plus table_closed discharged by "
                     "vm_compute on the class table REGENERATED from /repo's sources (Python ast translator) on every run; the "
                     "translator and the theorem are tied to the running code by building two independently constructed instances "
                     "of every shipped class and of random compositions under different global seeds/histories, injecting equal "
                     "seeds, comparing outputs/ctx bit for bit with a global-RNG tripwire, and comparing observed draw sources with the table.",
                ref="2 C07", note="Coq kernel+vm_compute; translator harness/translate_rng.py (fail-closed) trusted modulo the live-tree "
                "comparison; torchvision/PIL determinism for equal draws observed, not proved",
                technique="Coq proof (nested induction over object trees) over a table regenerated from source by an ast translator + finite exhaustive table check by vm_compute + live differential runs"),
    "C08": dict(text="Coq theorems over the shared provenance theory and the wrapper table REGENERATED from /repo's sources on every run: for a "
                     "closed table and any well-formed seeded wrapper, after EVERY history of earlier getitems the draws for item i come from "
                     "Inj(seed+i) only (seeded_wrapper_pure, access_sequence_pure, any_two_copies_agree, stack_pure for several seeded layers), "
                     "seed+i is injective and no generator serves two indices; wrapper_table_closed by vm_compute on the regenerated table. Tied "
                     "to the running code by real seeded wrappers (transform wrappers, multi-view, MUGS/BYOL/minaug, mix, semseg) in stacks, "
                     "random access orders with repeats, two instances under different global states with tripwire; thorough: DataLoader with 0-3 workers.",
                ref="2 C08 / 7.16", note="Coq kernel+vm_compute; translator harness/translate_rng.py (fail-closed); object graphs are trees; pixel determinism observed",
                technique="Coq proof (induction over access histories and object trees) over a table regenerated from source + finite table check by vm_compute + live differential runs"),
    "C09": dict(text="Coq theorems over the shared provenance theory and the wrapper / collator / dataset-class tables regenerated from source: for "
                     "closed tables and ANY dataset stack and transform tree, after worker_init every drawable generator slot is Wrk j (seeded from "
                     "the j-th draw of the worker's own global RNG), none is still the copy inherited from the parent; the result is a function "
                     "of the stack's shape and the worker seed; no worker seed lands in two units; table closedness by vm_compute. Tied to the "
                     "running code by simulated workers (deepcopy, np.random.seed(ws), worker_init_fn) recording generator identity and the "
                     "first 64 draws of every member generator; thorough: real DataLoader with 2/3 workers.",
                ref="2 C09 / 7.16", note="Coq kernel+vm_compute; translator trusted modulo the live comparison; that differently seeded NumPy generators "
                "give unrelated streams is NumPy's property (observed on 64 draws)",
                technique="Coq proof (induction over dataset stacks and object trees) over tables regenerated from source + finite table check by vm_compute + live worker simulation"),
    "C10": dict(text="Coq theorems for every batch size, image size, mode combination, probability split and draw sequence within the "
                     "generator contract: image and label of sample i share partner and weight (retained pixel fraction counted "
                     "pixel by pixel = label weight = ctx lambda), boxes in bounds, adjusted lambda = area fraction, lambda in [0,1], "
                     "mixed label rows are distributions, partner follows the shuffle mode, other items untouched; model tied to "
                     "/repo by decoding id-encoded real batches with recorded draws on every run.",
                ref="2 C10", note="Coq kernel+vm_compute; hand-written model coq/C10/Model.v; float32 pixel arithmetic not "
                "modelled (descriptors decoded with stated tolerance); half-box sizes compared with the exact integer square root per case",
                technique="Coq proofs (QArith, induction over the batch) over a hand-written model + vm_compute correspondence with the real collator"),
    "C11": dict(text="Coq theorems for all sizes, shapes (arbitrary equal rank), class counts, weights in [0,1] over Q and draw sequences within "
                     "the contract: returned labels are distributions; data and label are mixed with the one drawn partner and weight or both "
                     "untouched (plain one-hot); total_p >= 1 mixes every sample; every duplicate-free request over {x, class, index} in any order "
                     "is a projection of the one sample drawn from seed+idx (through ModeWrapper's fuse plan); shape unification = first sample's "
                     "shape, common box preserved, rest zero; partner in range. Model tied to /repo by id-encoded datasets with spy/scripted "
                     "generators every run.",
                ref="2 C11 / 7.10", note="Coq kernel+vm_compute; hand-written model coq/C11/Model.v, exact over Q (float32 output compared with "
                "tolerance 2e-3 / 1e-5); datasets must hand out fresh x tensors (measured, stated)",
                technique="Coq proofs (QArith, induction over tensor shapes) over a hand-written model + vm_compute correspondence with the real wrapper"),
    "C12": dict(text="Coq theorems for all n, world sizes, ranks, repeats, epochs and all global draws: every rank's stream has exactly "
                     "len(sampler) entries, the round-robin merge of the rank streams is the global draw with only trailing entries "
                     "dropped or wrapped, the draw's seed argument is seed+epoch and has no rank argument, repeated augmentation "
                     "occupies consecutive slots; weighted and class-balanced rank splits likewise; model tied to /repo by running all "
                     "ranks of the real samplers with spies on the torch draw functions every run.",
                ref="2 C12", note="Coq kernel+vm_compute; hand-written model coq/C12/Model.v; that a different seed gives a different "
                "torch draw is observed, not proved",
                technique="Coq proofs (list induction, div/mod arithmetic) over a hand-written model + vm_compute correspondence with the real samplers on all ranks"),
    "C17": dict(text="Coq theorems for every grid, budget, ratio bound, batch size, step counter and contract-satisfying draw sequence: DINO - "
                     "B*V masks of the grid size, at most floor(B*V*p) non-empty, popcount = num_masked <= target <= floor(ratio_max*P) as loop "
                     "invariant, generation terminates within the fuel; I-JEPA - rows strictly increasing within [0,H*W), predictor rows full "
                     "rectangles of the step's size, encoder rows disjoint from the same sample's predictor rows inside the property's premise "
                     "(and no retry there), common lengths, block sizes a function of the step counter only, batch passed through. Model tied to "
                     "/repo by running the real collators with spies on both generators every run.",
                ref="2 C17 / 7.12", note="Coq kernel+vm_compute; hand-written model coq/C17/Model.v; float32 linspace / int(round(sqrt)) block sizes "
                "are recorded oracle values; outside the premise the I-JEPA loop may not terminate (not claimed, recorded)",
                technique="Coq proofs (loop invariants, fuel-bounded loops, sorted/NoDup lists) over a hand-written model + vm_compute correspondence with the real collators"),
    "C18": dict(text="Coq theorems for every list of member collators (any modes, any collate functions): default collation at most once and "
                     "exactly once where asked, (batch, ctx) returned iff configured, ctx keys neither lost nor invented, layout preserved, "
                     "padding = original ++ zeros up to the batch maximum and other fields as default collation, with and without "
                     "per-sample contexts; model (state machine of _call_impl + PadSequencesCollator) tied to /repo by running real "
                     "collator pipelines with observed operations on generated member lists every run.",
                ref="2 C18", note="Coq kernel+vm_compute; hand-written model coq/C18/Model.v; torch default_collate / pad_sequence "
                "semantics trusted (operations observed by wrapping them)",
                technique="Coq proofs (induction over the member list / fields) over a hand-written state-machine model + vm_compute correspondence with the real collators"),
    "C13": dict(text="Coq theorems for all label layouts, sizes, world sizes, spc, L/U and contract-satisfying draws: class-balanced epoch has "
                     "exactly spc indices of every class, reuse is even (floor/ceil of spc/k), the pool loop terminates iff the pool is non-empty, "
                     "rank streams interleave into a prefix of the global draw; semi-supervised stream alternates L labeled / U unlabeled by "
                     "position, every aligned block of |pool| picks is a permutation of the pool, ranks are equally long, length modes; weighted "
                     "sampler never repeats an index within an epoch across ranks; executable spec functions are sound w.r.t. the Prop spec. "
                     "Model tied to /repo by running all ranks of the real samplers with torch draw spies every run.",
                ref="2 C13 / 7.11", note="Coq kernel+vm_compute; reuses coq/C12/Model.v for class-balanced/weighted, coq/C13/Model.v for the semi "
                "sampler; distinct per-rank seeds of the semi sampler observed, not proved",
                technique="Coq proofs (list induction, Permutation, fuel-bounded loops) over hand-written models + vm_compute correspondence with the real samplers on all ranks"),
    "C19": dict(text="Coq theorems for every wrapped dataset, transform, draw sequence, number of processes, program and UNBOUNDED schedule: "
                     "the log of any sequential history equals the spec (every access returns transform(base i) or the base's exception, a load "
                     "happens exactly when i was not fetched since the last clear, reload after clear); concurrent small-step semantics over "
                     "arbitrary interleavings: dict is a subset of graph(base), no process observes another value, no KeyError escapes "
                     "(conc_no_error - true of the repaired reader; the pre-fix reader is refuted by a 6-step schedule), one transform call per "
                     "access, progress. Model tied to /repo by sequential histories on the real Manager dict and by replaying model schedules on "
                     "the real class through a scheduling dict proxy every run (thorough: real processes).",
                ref="2 C19 / 7.13", note="Coq kernel+vm_compute; hand-written model coq/C19/Model.v; Manager proxy operations assumed atomic and by value, "
                "pickling faithful",
                technique="Coq proofs (invariant over a small-step interleaving semantics, induction over schedules) + vm_compute correspondence incl. deterministic schedule replay on the real class"),
    "C14": dict(text="Coq theorems for every input size, target, padding, parameter and contract-satisfying draw: crop / simple crop / two-crop "
                     "windows in bounds with the requested size (overlap recorded truthfully), resized crop in bounds on both branches (guard alone "
                     "sufficient), erasing rectangles and spec-augment masks in bounds and shorter than the parameter, semseg pipelines apply one "
                     "geometry to image and mask with every pad/crop in bounds, patchify/unpatchify and shuffle/unshuffle (argsort of the recorded "
                     "permutation) are mutual inverses by div/mod arithmetic with no size bound, norm/denorm inverse over Q. Model tied to /repo by "
                     "recomputing every recorded parameter from the recorded draws and re-applying torchvision ops by hand on the real outputs.",
                ref="2 C14 / 7.14", note="Coq kernel+vm_compute; hand-written model coq/C14/Model.v; float candidates (sqrt/exp/round) are oracle values whose "
                "contract is checked per case; interpolation numerics not modelled",
                technique="Coq proofs (Z div/mod arithmetic, lia/lra, list induction) over a hand-written model + vm_compute correspondence with the real transforms"),
    "C15": dict(text="Coq theorems re-checked on every run against a model GENERATED from /repo's _scale_strength bodies by an ast translator: for "
                     "every scaling class and every compose tree scale 1 restores the constructed ranges (also after any history), scale 0 gives the "
                     "weakest setting, every bound is monotone in the factor, only the last factor matters (Leibniz equality); scheduled transform: "
                     "round-robin arithmetic (the s-th sample of worker r of W is in global batch (s/B)*W+r, bijection, order kept) and the value "
                     "applied and reported is the schedule's value at that global batch for all W, B, N. Tied to the running code by scaling real "
                     "instances with random factor sequences and simulated / real DataLoader workers.",
                ref="2 C15 / 7.15", note="Coq kernel+vm_compute; translator harness/translate_strength.py (fail-closed) validated by the correspondence; binary64 "
                "vs Q compared at 1e-12 relative; transforms that do not forward scale_strength are opaque",
                technique="Coq proofs (lra/ring over Q, induction over compose trees, div/mod) over a translator-generated model + vm_compute correspondence"),
    "C16": dict(text="Coq theorems for all label layouts / parameters / draw sequences: bulk accessor = map of the per-sample "
                     "accessor for each of the eight label-rewriting wrappers, labels within the announced class shape (or -1 where "
                     "allowed), all-gather permutation shape, smoothing/one-hot vectors over Q are distributions with the original "
                     "class as argmax. Models (per-sample and bulk functions mirrored separately) tied to /repo by running the real "
                     "wrappers with recorded draws on generated layouts every run.",
                ref="2 C16 / 7.3", note="Coq kernel+vm_compute; hand-written model coq/C16/Model.v; torch argmax/topk/softmax, einops "
                "rearrange and np.argsort semantics trusted (decisions shipped by the harness); 'other data untouched' checked on "
                "the real objects only",
                technique="Coq proofs (list induction, QArith) over a hand-written model + vm_compute correspondence with the real wrappers"),
    "C20": dict(text="Coq theorems for ALL histories (any number of killed invocations at arbitrary primitive-operation boundaries, arbitrary "
                     "deletion orders, arbitrary source trees: plain folder, zip, folder of zips): whenever a call returns the local folder is a "
                     "complete copy or a pre-existing manual folder left unchanged (crash_safe), via the invariant 'dst exists => start marker "
                     "present, end marker only on a complete copy'; a completed copy is never redone (no system call), the result is truthful, other "
                     "files untouched; the pre-fix plans are refuted with both crash windows. Model tied to /repo by running the real functions with "
                     "simulated kills after every primitive operation and comparing trace, tree and result; thorough: real SIGKILL at system-call "
                     "granularity via strace injection.",
                ref="2 C20 / 7.17", note="Coq kernel+vm_compute; hand-written model coq/C20/Model.v; process death not power loss; rename(2) atomic; honest directory listings",
                technique="Coq proofs (invariant over crash histories, induction over operation prefixes) over a hand-written file-system model + vm_compute correspondence with fault injection on the real code"),
}

ALL = ["C%02d" % i for i in range(1, 21)]


def main():
    checks = []
    for pid in ALL:
        if pid not in CLAIMED:
            continue
        c = CLAIMED[pid]
        checks.append({
            "property_id": pid,
            "quick_cmd": f"./check {pid} --tier quick",
            "thorough_cmd": f"./check {pid} --tier thorough",
            "evidence_file": f"/verif/evidence/{pid}.json",
            "replay_cmd_template": f"./check {pid} --replay {{path}}",
            "engine": "coq-harness",
            "level_claimed": {"category": "proof", "text": c["text"], "design_ref": c["ref"]},
            "level_note": c["note"],
            "technique": c["technique"],
        })
    man = {
        "version": 1,
        "setup_cmd": "cd /verif && ./check setup",
        "hooks": {
            "guard": "BENEDIKTALKIN_KAPPADATA_VERIF",
            "enable": "no source hooks: the harness observes through public setters and recording samplers; "
                      "the variable is exported by ./check for completeness",
            "baseline_off_cmd": "cd /repo && /venv/bin/python -m pytest -ra -q -p no:cacheprovider --timeout=900 "
                                "--continue-on-collection-errors",
            "source_commits": [],
            "add_only": True,
        },
        "engines": [{"name": "coq-harness", "path": "/verif/check", "serves_properties": sorted(CLAIMED),
                     "kind_free_text": "Coq 8.16 theorems over hand-written/generated models + correspondence runs "
                                       "(vm_compute in coqc) against the real code"}],
        "checks": checks,
        "not_applicable": [{"property_id": p, "reason": "machinery for this property is not built yet (work in progress, see DESIGN.md 5)"}
                           for p in ALL if p not in CLAIMED],
        "notes": "see DESIGN.md; known_findings.json lists repaired defects (fixed: entries) and recorded findings",
    }
    with open(os.path.join(VERIF, "MANIFEST.json"), "w") as f:
        json.dump(man, f, indent=1)


if __name__ == "__main__":
    main()
