"""C09 - every dataloader worker gets its own reproducible augmentation stream.

Proof side: coq/C07 (RngGraph.v + ModelC09.v + ProofsC09.v over the tables regenerated from the sources on every
run; PropertyC09.v).  Dynamic side (this module): workers are simulated exactly as the property's observe_at says -
copy.deepcopy of the dataset (what fork / pickle hands a worker), np.random.seed(worker seed),
dataset.worker_init_fn(rank) - for two different worker seeds and once more for the first seed; for every generator
slot reachable from the dataset (transforms at any depth inside the sample wrappers, per-view transforms, registered
collators) the identity of the generator object and the first 64 draws of a copy of it are recorded before and after.
A fourth copy is instrumented (inherited generators wrapped into spies, np.random.default_rng patched so that the k-th
generator created by the hook is tagged Wrk k) and then asked for samples: that is the case handed to the Coq model.
Thorough tier: a real DataLoader(num_workers=2/3, worker_init_fn=dataset.worker_init_fn) whose dataset returns the
member draws.
"""
import copy
import traceback

from . import rnglive as L
from . import rngstack as K
from . import translate_rng as T
from .common import coq, Nat, Raw

ID = "C09"
COQ_FILES = ["C07/RngGraph.v", "C07/gen/RngTable.v", "C07/Check.v", "C07/Proofs.v", "C07/TableProofs.v",
             "C07/ModelC08.v", "C07/ProofsC08.v", "C07/ModelC09.v", "C07/CheckC09.v", "C07/ProofsC09.v",
             "C07/TableProofsC09.v", "C07/PropertyC09.v"]
COQ_PRELUDE = """From Coq Require Import ZArith List Bool String.
Import ListNotations.
From KD Require Import C07.RngGraph C07.gen.RngTable C07.Check C07.ModelC08 C07.ModelC09 C07.CheckC09.
Open Scope string_scope.
"""
COQ_CHECK = "CheckC09.check"
COQ_CASE_TYPE = "CheckC09.case_t"
SHARD = 60
TRUSTED = L.TRUSTED_COMMON + [
    "harness/rngstack.py: live extraction of the dataset stack (class that defines worker_init_fn, wrapper transform "
    "fields through vars(), registered collators), patched np.random.default_rng (k-th generator created during "
    "worker_init_fn = Wrk k)",
    "copy.deepcopy stands for what a worker process receives (fork copy / pickle round trip); np.random.seed(s) stands "
    "for the DataLoader's per-worker seeding of the global NumPy RNG (the thorough tier runs the real DataLoader)",
    "differently seeded NumPy generators give unrelated streams, and np.random.randint after np.random.seed(s) is a "
    "function of s: NumPy's properties (observed on the first 64 draws of every member generator, not proved)",
]
ASSUMPTIONS = [
    "unseeded wrappers (seed=None); collators registered on the root dataset; a collator handed directly to "
    "InterleavedSampler / DataLoader is not reachable from the dataset and outside the claim (TODO.md of the repo "
    "says the same)",
    "dataset stacks are trees: no transform / collator instance is shared between two places",
    "the wrappers' own draws from the process-global NumPy RNG (MUGSMultiViewWrapper without seed uses GlobalRng) "
    "are worker-derived by construction (the DataLoader seeds that RNG per worker) and are not slots",
    "KDMixWrapper(seed=None) draws from np.random.default_rng(None) (OS entropy) for every sample: workers never "
    "replay each other, but nothing reproduces it; it has no generator slot and is not in the property's list of "
    "components (transforms, per-view transforms, registered collators) - excluded, reported as an observation",
]
ALLOWED_AXIOMS = []
RULE = ("stacks: root (tensor or PIL data, 0-2 registered collators) under 1-4 layers of unseeded X/Y/Target/Source "
        "transform wrappers over random transform trees, KDMultiViewWrapper (1-3 per-view trees), BYOL / minaug / MUGS "
        "multi-view wrappers, SemsegTransformWrapper, subset / shuffle / repeat / label-smoothing wrappers, KDConcatDataset "
        "of sub-stacks, under ModeWrapper or _InterleavedConcatDataset of ModeWrappers; parent history, 2 worker seeds + "
        "repeat, random rank; non-trivial = at least one generator slot was re-seeded and a re-seeded generator drew; "
        "distinct by (stack signature, number of slots)")
N_STREAM = 64


def pre_build():
    T.regenerate()


# ---------------------------------------------------------------------------
# case generation
# ---------------------------------------------------------------------------
def has_class(spec, name):
    return spec["c"] == name or any(has_class(k, name) for k in spec.get("k", []))


def tree(rng, S, no_sched=False):
    for _ in range(50):
        t = L.gen_tree(rng, rng.choice([1, 2, 2, 3]), S)
        if t["c"] == L.FOREIGN:
            t = {"c": "KDComposeTransform", "k": [t]}
        if no_sched and has_class(t, "KDScheduledTransform"):
            continue
        return t
    return {"c": "KDRandomHorizontalFlip", "a": 0}


def gen_inner(rng, depth=0, no_sched=False):
    S = rng.choice([16, 16, 8])
    N = rng.choice([4, 6, 8])
    fam = rng.choice(["x", "x", "x", "mv", "mv", "pil", "semseg", "plain"])
    cols = []
    for _ in range(rng.choice([0, 0, 1, 1, 2])):
        cols.append({"c": rng.choice(["KDMixCollator", "KDMixCollator", "KDDinoMaskCollator", "KDIjepaMaskCollator",
                                      "PadSequencesCollator"])})
    layers = []
    kind = "img"
    n = N

    def maybe_index(p=0.4):
        nonlocal n
        if rng.random() < p:
            k = rng.choice(["SubsetWrapper", "ShuffleWrapper", "RepeatWrapper", "KDSubset"])
            if k in ("SubsetWrapper", "KDSubset"):
                m = rng.randrange(2, n + 2)
                layers.append({"w": k, "idx": [rng.randrange(n) for _ in range(m)]})
                n = m
            elif k == "ShuffleWrapper":
                layers.append({"w": k, "seed": rng.randrange(100)})
            else:
                layers.append({"w": k, "r": 2})
                n *= 2

    mode = "x"
    maybe_index()
    if fam == "pil":
        kind, S = "pil", 32
        w = rng.choice(["ByolMultiViewWrapper", "ImagenetMinaugMultiViewWrapper", "MUGSMultiViewWrapper",
                        "ImagenetMinaugXTransformWrapper", "KDMultiViewWrapper"])
        if w == "KDMultiViewWrapper":
            cfg = [[rng.choice([1, 2]), {"c": rng.choice(["BYOLTransform0", "BYOLTransform1", "MUGSStrongLocalTransform",
                                                         "ImagenetMinaugTransform"]), "a": 0}]
                   for _ in range(rng.choice([1, 2, 3]))]
            layers.append({"w": w, "cfg": cfg})
        else:
            layers.append({"w": w, "n": rng.choice([1, 2]), "nloc": rng.choice([1, 2])})
        mode = rng.choice(["x", "x class"])
    elif fam == "semseg":
        ts = []
        for _ in range(rng.choice([1, 2, 3])):
            if rng.random() < 0.65:
                c = rng.choice(["KDSemsegRandomHorizontalFlip", "KDSemsegRandomResize", "KDSemsegRandomCrop"])
                ts.append({"c": c, "a": rng.randrange(len(L.REG[c]))})
            else:
                c = rng.choice(["KDAdditiveGaussianNoise", "KDRandomColorJitter", "KDRandomGrayscale", "KDRandomSolarize"])
                opts = [i for i, (k_, _) in enumerate(L.REG[c]) if k_ == "img"]
                t = {"c": c, "a": rng.choice(opts)}
                if rng.random() < 0.4:
                    t = {"c": rng.choice(["KDComposeTransform", "KDRandomApply"]), "a": 1, "k": [t]}
                ts.append(t)
        layers.append({"w": "SemsegTransformWrapper", "ts": ts})
        mode = rng.choice(["x semseg", "x"])
    elif fam == "mv":
        cfg = [[rng.choice([1, 1, 2]), tree(rng, S, no_sched)] for _ in range(rng.choice([1, 2, 3]))]
        layers.append({"w": "KDMultiViewWrapper", "cfg": cfg})
        maybe_index(0.3)
        mode = rng.choice(["x", "x class"])
    elif fam == "x":
        for _ in range(rng.choice([1, 1, 2, 3])):
            w = rng.choice(["XTransformWrapper"] * 3 + ["YTransformWrapper", "TargetTransformWrapper", "SourceTransformWrapper"])
            layers.append({"w": w, "t": tree(rng, S, no_sched)})
            if rng.random() < 0.25 and not any(l["w"] == "LabelSmoothingWrapper" for l in layers):
                layers.append({"w": "LabelSmoothingWrapper"})
            maybe_index(0.3)
        items = [K.X_WRAPPERS[l["w"]] for l in layers if l["w"] in K.X_WRAPPERS]
        mode = " ".join(dict.fromkeys(items + (["class"] if rng.random() < 0.5 else [])))
    else:
        if rng.random() < 0.5:
            layers.append({"w": "LabelSmoothingWrapper"})
        mode = rng.choice(["x", "x class"])
    spec = {"root": {"kind": kind, "N": N, "S": S, "col": cols}, "layers": layers, "mode": mode}
    if depth == 0 and fam not in ("semseg",) and rng.random() < 0.2:
        # KDConcatDataset of this stack and one or two more with the same item kinds
        others = []
        for _ in range(rng.choice([1, 2])):
            o = gen_inner(rng, depth + 1, no_sched)
            while "semseg" in o["mode"]:
                o = gen_inner(rng, depth + 1, no_sched)
            others.append(o)
        spec["layers"] = layers + [{"w": "concat", "others": others}]
        spec["mode"] = "x"
    return spec


def gen_spec(rng, no_sched=False):
    if rng.random() < 0.15:
        return {"interleaved": [gen_inner(rng, 0, no_sched) for _ in range(rng.choice([1, 2, 3]))]}
    return gen_inner(rng, 0, no_sched)


def total_len(spec):
    if "interleaved" in spec:
        return sum(K.stack_len(s) for s in spec["interleaved"])
    return K.stack_len(spec)


def spec_has_sched(spec):
    import json
    return "KDScheduledTransform" in json.dumps(spec)


def mk_case(rng, spec):
    n = total_len(spec)
    return {"kind": "sim", "spec": spec, "ga": rng.randrange(10 ** 6), "ws1": rng.randrange(2 ** 31 - 1),
            "ws2": rng.randrange(2 ** 31 - 1), "rank": rng.randrange(4), "warm": [rng.randrange(n) for _ in range(rng.choice([0, 1, 3]))],
            "probe": sorted({0, n - 1} | {rng.randrange(n) for _ in range(4)})}


def directed_cases(rng, info):
    out = []
    root = lambda kind="img", col=(): {"kind": kind, "N": 6, "S": 32 if kind == "pil" else 16, "col": [dict(c=c) for c in col]}  # noqa
    leaf = lambda: {"c": "KDRandomCrop", "a": 0}  # noqa
    # every wrapper class with transform fields, alone, with every container as the direct transform
    for cont in L.CONTAINERS:
        t = {"c": cont, "a": 1, "k": [leaf()] if cont not in ("KDComposeTransform", "KDTransformChoice") else [leaf(), {"c": "KDRandomHorizontalFlip", "a": 0}]}
        for w in K.X_WRAPPERS:
            out.append(mk_case(rng, {"root": root(), "layers": [{"w": w, "t": t}], "mode": K.X_WRAPPERS[w]}))
        out.append(mk_case(rng, {"root": root(), "layers": [{"w": "KDMultiViewWrapper", "cfg": [[2, t], [1, leaf()]]}], "mode": "x"}))
        t2 = {"c": cont, "a": 1, "k": [{"c": "KDAdditiveGaussianNoise", "a": 0}] * (2 if cont in ("KDComposeTransform", "KDTransformChoice") else 1)}
        if cont != "PatchwiseTransform":
            out.append(mk_case(rng, {"root": root(), "layers": [{"w": "SemsegTransformWrapper",
                                                                 "ts": [{"c": "KDSemsegRandomHorizontalFlip", "a": 0}, t2,
                                                                        {"c": "KDSemsegRandomCrop", "a": 0}]}], "mode": "x semseg"}))
    for w in ("ByolMultiViewWrapper", "ImagenetMinaugMultiViewWrapper", "MUGSMultiViewWrapper", "ImagenetMinaugXTransformWrapper"):
        out.append(mk_case(rng, {"root": root("pil"), "layers": [{"w": w, "n": 2, "nloc": 2}], "mode": "x"}))
    # every forwarding dataset class between the top and a stochastic wrapper; collators on the root
    x = {"w": "XTransformWrapper", "t": leaf()}
    for idxl in ({"w": "KDSubset", "idx": [2, 1, 1]}, {"w": "SubsetWrapper", "idx": [1, 0]}, {"w": "ShuffleWrapper", "seed": 3},
                 {"w": "RepeatWrapper", "r": 2}, {"w": "LabelSmoothingWrapper"}):
        out.append(mk_case(rng, {"root": root(col=("KDMixCollator",)), "layers": [x, idxl], "mode": "x"}))
        out.append(mk_case(rng, {"root": root(col=("KDMixCollator", "KDDinoMaskCollator")), "layers": [idxl, x, idxl], "mode": "x"}))
    sub = {"root": root(col=("KDIjepaMaskCollator",)), "layers": [x], "mode": "x"}
    out.append(mk_case(rng, {"root": root(), "layers": [x, {"w": "concat", "others": [sub, sub]}], "mode": "x"}))
    out.append(mk_case(rng, {"interleaved": [sub, {"root": root(col=("KDMixCollator", "PadSequencesCollator")), "layers": [x, x], "mode": "x"}]}))
    for c in ("KDMixCollator", "KDDinoMaskCollator", "KDIjepaMaskCollator", "PadSequencesCollator"):
        out.append(mk_case(rng, {"root": root(col=(c,)), "layers": [], "mode": "x class"}))
    return out


def loader_case(rng):
    spec = gen_spec(rng, no_sched=True)
    return {"kind": "loader", "spec": spec, "ga": rng.randrange(10 ** 6), "nw": rng.choice([2, 3]),
            "ts1": rng.randrange(10 ** 6), "ts2": rng.randrange(10 ** 6)}


def gen_cases(rng, tier):
    info = T.regenerate()
    out = []
    if info["errors"]:
        out.append({"kind": "translator", "errors": info["errors"]})
    out += directed_cases(rng, info)
    out += [mk_case(rng, gen_spec(rng)) for _ in range(250 if tier == "quick" else 2500)]
    out += [loader_case(rng) for _ in range(0 if tier == "quick" else 40)]
    return out


def search_cases(rng, tier):
    info = T.regenerate()
    for _ in range(2):
        for c in directed_cases(rng, info):
            yield c
    for _ in range(1500):
        yield mk_case(rng, gen_spec(rng))


def shrink(case):
    if case.get("kind") != "sim":
        return
    spec = case["spec"]
    if "interleaved" in spec:
        for s in spec["interleaved"]:
            yield mk_like(case, s)
        return
    layers = spec["layers"]
    for i, l in enumerate(layers):
        if l["w"] == "concat":
            yield mk_like(case, {**spec, "layers": layers[:i]})
            for o in l["others"]:
                yield mk_like(case, o)
    for i, l in enumerate(layers):
        if l["w"] in ("SubsetWrapper", "KDSubset", "RepeatWrapper", "concat"):
            continue
        rest = layers[:i] + layers[i + 1:]
        items = set(spec["mode"].split(" "))
        if l["w"] in K.X_WRAPPERS or l["w"] in ("LabelSmoothingWrapper", "ShuffleWrapper"):
            yield mk_like(case, {**spec, "layers": rest})
    for i, l in enumerate(layers):
        if "t" in l:
            for s in L.shrink_spec(l["t"]):
                if s["c"] != L.FOREIGN:
                    yield mk_like(case, {**spec, "layers": layers[:i] + [{**l, "t": s}] + layers[i + 1:]})
        if "cfg" in l and len(l["cfg"]) > 1:
            for j in range(len(l["cfg"])):
                yield mk_like(case, {**spec, "layers": layers[:i] + [{**l, "cfg": l["cfg"][:j] + l["cfg"][j + 1:]}] + layers[i + 1:]})
        if "ts" in l and len(l["ts"]) > 1:
            for j in range(len(l["ts"])):
                yield mk_like(case, {**spec, "layers": layers[:i] + [{**l, "ts": l["ts"][:j] + l["ts"][j + 1:]}] + layers[i + 1:]})
    if spec["root"].get("col"):
        cols = spec["root"]["col"]
        for j in range(len(cols)):
            yield mk_like(case, {**spec, "root": {**spec["root"], "col": cols[:j] + cols[j + 1:]}})
    if case["warm"]:
        yield {**case, "warm": []}


def mk_like(case, spec):
    n = total_len(spec)
    return {**case, "spec": spec, "warm": [i for i in case["warm"] if i < n][:1], "probe": sorted({0, n - 1})}


# ---------------------------------------------------------------------------
# running the real code
# ---------------------------------------------------------------------------
def _stream(g):
    """first N_STREAM draws of a COPY of the generator (the generator itself is not advanced)"""
    if isinstance(g, L.Spy):
        g = g._gen
    c = copy.deepcopy(g)
    return [float(v).hex() for v in c.random(N_STREAM)]


def _wi_kwargs(spec):
    return dict(batch_size=2, updates=500) if spec_has_sched(spec) else {}


def _get(ds, i):
    try:
        return L.canon(ds[i])
    except Exception as e:  # noqa
        return K.exc_info(e)


def _call_collators(ds):
    """run the registered mix collators on a synthetic batch (the other collators are observed through their slots)"""
    import torch
    out = []
    for root in K.root_datasets(ds):
        for c in root.collators:
            if type(c).__name__ == "KDMixCollator":
                g = torch.Generator().manual_seed(5)
                batch = [(torch.rand(3, 8, 8, generator=g), torch.eye(4)[i % 4].clone()) for i in range(4)]
                try:
                    c.collate(list(torch.utils.data.default_collate(batch)), "x class", {})
                    out.append("ok")
                except Exception as e:  # noqa
                    out.append(f"{type(e).__name__}: {str(e)[:100]}")
    return out


def run_sim_case(case):
    import numpy as np
    spec = case["spec"]
    kw = _wi_kwargs(spec)
    obs = {}
    try:
        L.seed_globals(case["ga"])
        D = K.build_stack(spec)
    except Exception as e:  # noqa
        return {"construct_error": f"{type(e).__name__}: {e}", "tb": traceback.format_exc()[-800:]}
    for i in case["warm"]:
        _get(D, i)
    paths = [p for p, _ in K.slot_objects(D)]
    obs["paths"] = paths
    obs["parent"] = [_stream(o.rng) for _, o in K.slot_objects(D)]
    obs["workers"] = []
    for ws in (case["ws1"], case["ws2"], case["ws1"]):
        W = K.worker_copy(D)
        objs = [o for _, o in K.slot_objects(W)]
        before_ids = [id(o.rng) for o in objs]
        before = [_stream(o.rng) for o in objs]
        rec = {"ws": ws, "before": before}
        try:
            np.random.seed(ws)
            W.worker_init_fn(case["rank"], **kw)
        except Exception as e:  # noqa
            rec["error"] = f"{type(e).__name__}: {str(e)[:300]}"
            obs["workers"].append(rec)
            continue
        rec["same_object"] = [id(o.rng) == b for o, b in zip(objs, before_ids)]
        rec["after"] = [_stream(o.rng) for o in objs]
        rec["gen_ids"] = [before_ids.index(id(o.rng)) if id(o.rng) in before_ids else -1 for o in objs]
        groups = {}
        for k, o in enumerate(objs):
            groups.setdefault(id(o.rng), []).append(k)
        rec["shared"] = sorted(groups.values())
        obs["workers"].append(rec)
    # the instrumented worker (case for the Coq model)
    W = K.worker_copy(D)
    spies = K.tag_stack_slots(W, "ctor")
    obs["stack"] = K.live_stack(W)
    try:
        with K.PatchedDefaultRng("wrk") as P:
            np.random.seed(case["ws1"])
            W.worker_init_fn(case["rank"], **kw)
        obs["created"] = P.count
    except Exception as e:  # noqa
        obs["spied_error"] = f"{type(e).__name__}: {str(e)[:300]}"
        return obs
    obs["after"] = K.stack_slots(K.live_stack(W))
    srcs = []

    def on_draw(spy):
        t = list(spy.tag)
        if t not in srcs:
            srcs.append(t)

    L.DRAW_HOOK[0] = on_draw
    try:
        with K.PatchedDefaultRng("inj"):
            obs["samples"] = [[i, _get(W, i)] for i in case["probe"]]
            obs["collated"] = _call_collators(W)
    finally:
        L.DRAW_HOOK[0] = None
    obs["sources"] = srcs
    return obs


def run_loader_case(case):
    import gc
    import torch
    from functools import partial
    from torch.utils.data import DataLoader, Dataset, get_worker_info
    spec = case["spec"]
    L.seed_globals(case["ga"])
    D = K.build_stack(spec)
    obs = {"paths": [p for p, _ in K.slot_objects(D)], "parent": [_stream(o.rng)[:8] for _, o in K.slot_objects(D)], "runs": []}
    nw = case["nw"]

    class Probe(Dataset):
        def __init__(self, ds):
            self.ds = ds

        def __len__(self):
            return 4 * nw

        def __getitem__(self, i):
            info = get_worker_info()
            objs = [o for _, o in K.slot_objects(self.ds)]
            vals = [[float.fromhex(h) for h in _stream(o.rng)[:8]] for o in objs]
            return (info.id if info is not None else -1), torch.tensor(vals, dtype=torch.float64).reshape(len(objs), 8)

    for ts in (case["ts1"], case["ts2"], case["ts1"]):
        torch.manual_seed(ts)
        per_worker = {}
        it = None
        try:
            it = iter(DataLoader(Probe(D), batch_size=1, num_workers=nw, worker_init_fn=D.worker_init_fn))
            for wid, vals in it:
                per_worker.setdefault(int(wid[0]), []).append([[float(v).hex() for v in row] for row in vals[0]])
        except Exception as e:  # noqa
            obs["runs"].append({"ts": ts, "error": f"{type(e).__name__}: {str(e)[:300]}"})
            continue
        finally:
            del it      # shut the workers down now, not in some later forked child
            gc.collect()
        obs["runs"].append({"ts": ts, "workers": {str(k): v for k, v in sorted(per_worker.items())}})
    return obs


def run_impl(case):
    if case.get("kind") == "translator":
        return {"skipped": "translator"}
    if case.get("kind") == "loader":
        return run_loader_case(case)
    return run_sim_case(case)


# ---------------------------------------------------------------------------
# independent Python statement of the property
# ---------------------------------------------------------------------------
def _unit_of(path):
    """the top-level transform of a wrapper field (it shares ONE generator with everything nested in it), or the
    collators of one root dataset (they share the root's generator)"""
    u = path.split("/")[0]
    if "root.collators[" in u:
        u = u.split("root.collators[")[0] + "root.collators"
    return u


def oracle(case, obs):
    if "harness_exception" in obs:
        return "harness exception: " + obs["harness_exception"] + obs.get("tb", "")
    if case.get("kind") == "translator":
        return None
    sig = K.spec_sig(case["spec"])
    if "construct_error" in obs:
        return f"{sig}: construction failed: {obs['construct_error']}"
    paths = obs["paths"]
    if case.get("kind") == "loader":
        runs = obs["runs"]
        for r in runs:
            if "error" in r:
                return f"{sig}: DataLoader(num_workers={case['nw']}) raised {r['error']}"
            if len(r["workers"]) != case["nw"]:
                return None if not paths else f"{sig}: only workers {list(r['workers'])} produced items"
            for wid, items in r["workers"].items():
                if any(it != items[0] for it in items):
                    return f"{sig}: harness: probe changed between items of worker {wid}"
                for s, p in enumerate(paths):
                    if items[0][s] == obs["parent"][s]:
                        return (f"{sig}: real DataLoader worker {wid}: generator of {p} is still the copy inherited from the "
                                f"parent process after worker_init_fn")
            ws = sorted(r["workers"])
            for a in range(len(ws)):
                for b in range(a + 1, len(ws)):
                    for s, p in enumerate(paths):
                        if r["workers"][ws[a]][0][s] == r["workers"][ws[b]][0][s]:
                            return f"{sig}: real DataLoader workers {ws[a]} and {ws[b]} replay the same stream in {p}"
        if paths and runs[0]["workers"] != runs[2]["workers"]:
            return f"{sig}: the same torch seed {case['ts1']} (same worker seeds) does not reproduce the workers' streams"
        if paths and case["ts1"] != case["ts2"]:
            for wid in runs[0]["workers"]:
                for s, p in enumerate(paths):
                    if runs[0]["workers"][wid][0][s] == runs[1]["workers"].get(wid, [[None] * len(paths)])[0][s]:
                        return f"{sig}: different base seeds give worker {wid} the same stream in {p}"
        return None
    for w in obs["workers"]:
        if "error" in w:
            return f"{sig}: worker_init_fn(rank={case['rank']}) raised {w['error']}"
    if "spied_error" in obs:
        return f"{sig}: worker_init_fn on the instrumented copy raised {obs['spied_error']}"
    w1, w2, w1b = obs["workers"]
    for w in (w1, w2):
        for s, p in enumerate(paths):
            if w["same_object"][s] or w["after"][s] == w["before"][s]:
                return (f"{sig}: worker seed {w['ws']}: after deepcopy + np.random.seed + worker_init_fn(rank={case['rank']}) "
                        f"the generator of {p} is still the one inherited from the parent (same object: {w['same_object'][s]}, "
                        f"first draws {w['after'][s][:2]})")
            if w["after"][s] == obs["parent"][s]:
                return f"{sig}: worker seed {w['ws']}: {p} replays the parent's stream"
    if case["ws1"] != case["ws2"]:
        vals2 = {}
        for s, p in enumerate(paths):
            for v in w2["after"][s]:
                vals2.setdefault(v, p)
        for s, p in enumerate(paths):
            if w1["after"][s] == w2["after"][s]:
                return (f"{sig}: workers with different seeds {case['ws1']} / {case['ws2']} (same rank {case['rank']}) replay "
                        f"the same stream in {p}: {w1['after'][s][:2]}")
            hit = [v for v in w1["after"][s] if v in vals2]
            if hit:
                return (f"{sig}: workers with different seeds {case['ws1']} / {case['ws2']} share part of a stream: "
                        f"{p} of the first and {vals2[hit[0]]} of the second both produce {hit[0]}")
    for s, p in enumerate(paths):
        if w1["after"][s] != w1b["after"][s]:
            return f"{sig}: the same worker seed {case['ws1']} does not reproduce the stream of {p}"
    # distinct units, distinct generators
    for a in range(len(paths)):
        for b in range(a + 1, len(paths)):
            if _unit_of(paths[a]) != _unit_of(paths[b]) and w1["after"][a] == w1["after"][b]:
                return (f"{sig}: worker seed {case['ws1']}: {paths[a]} and {paths[b]} (different transforms) draw from the "
                        f"same stream")
    for i, v in obs.get("samples", []):
        # (a transform composition that raises on some draws - in-place op on an expanded view - is not this property's
        # business; the wrapper / dataset code must not raise)
        if isinstance(v, list) and v and v[0] == "EXC" and "transforms" not in v[3]:
            return f"{sig}: sample {i} after worker_init_fn raised {v[1]}: {v[2]} (in {v[3] or 'library code'})"
    bad = [s for s in obs.get("sources", []) if s[0] != "wrk"]
    if bad:
        where = [paths[s[1]] for s in bad if s[0] == "ctor" and s[1] < len(paths)]
        return (f"{sig}: after worker_init_fn samples still draw from generators that are not worker-derived: {bad[:4]} "
                f"({where[:4] or 'created afterwards / entropy'})")
    return None


# ---------------------------------------------------------------------------
# Coq side
# ---------------------------------------------------------------------------
def coq_applicable(case, obs):
    return case.get("kind") == "sim" and "after" in obs and "sources" in obs


def coq_case(case, obs):
    after = [L.coq_slot(p) for p in obs["after"]]
    srcs = [L.coq_prov(p) for p in obs["sources"]]
    return coq((K.coq_dstack(obs["stack"]), Nat(obs["created"]), after, srcs))


def features(case, obs):
    if case.get("kind") != "sim":
        yield "kind=" + str(case.get("kind"))
        return
    spec = case["spec"]
    yield "top=" + ("interleaved" if "interleaved" in spec else "ModeWrapper")
    specs = spec["interleaved"] if "interleaved" in spec else [spec]
    for sp in specs:
        yield "root=" + sp["root"]["kind"]
        yield "collators=%d" % len(sp["root"].get("col", []))
        for l in sp["layers"]:
            yield "layer=" + l["w"]
    yield "slots=%d" % min(len(obs.get("paths", [])), 12)
    yield "created=%s" % min(obs.get("created", -1), 8)
    yield "drew=%s" % bool(obs.get("sources"))
    yield "warm=%d" % len(case["warm"])


def nontrivial_key(case, obs):
    if case.get("kind") == "loader":
        if not obs.get("paths") or any("error" in r for r in obs.get("runs", [])):
            return None
        return ("loader", K.spec_sig(case["spec"]), case["nw"])
    if case.get("kind") != "sim" or "sources" not in obs:
        return None
    if not obs["paths"] or not any(s[0] == "wrk" for s in obs["sources"]):
        return None
    return (K.spec_sig(case["spec"]), len(obs["paths"]))
