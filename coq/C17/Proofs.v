From Coq Require Import ZArith List Bool Lia.
From KD Require Import C17.Model C17.Spec.
