(* Proofs about the attribute resolution of the cache layer (Attr.v). *)
From Coq Require Import String ZArith List Bool Arith Lia.
Import ListNotations.
From KD Require Import C19.Model C19.Attr C19.Spec C19.Proofs.
Local Open Scope string_scope.

Lemma smem_In : forall n l, smem n l = true <-> In n l.
Proof.
  intros n l. unfold smem. rewrite existsb_exists. split.
  - intros [x [Hin He]]. apply String.eqb_eq in He. subst. exact Hin.
  - intros H. exists n. split; [exact H | apply String.eqb_refl].
Qed.

Lemma smem_false : forall n l, ~ In n l -> smem n l = false.
Proof.
  intros n l H. destruct (smem n l) eqn:E; [|reflexivity]. apply smem_In in E. contradiction.
Qed.

Lemma cache_names_own_l :
  forall gf inh bh n, In n (inst_shared ++ cls_shared gf)%list -> resolve (shared_layer gf) inh bh n = Own.
Proof.
  intros gf inh bh n H. unfold resolve. apply in_app_or in H. destruct H as [H|H].
  - apply smem_In in H. simpl l_inst. rewrite H. reflexivity.
  - apply smem_In in H. simpl l_cls. rewrite H. rewrite orb_true_r. reflexivity.
Qed.

Lemma transform_is_post_cache_l :
  forall gf inh bh, getitem_transform (shared_layer gf) inh bh = TPost.
Proof.
  intros. unfold getitem_transform. rewrite cache_names_own_l; [reflexivity|].
  apply in_or_app. left. simpl. tauto.
Qed.

(* ... and the instance slot is needed: a cache layer that does not define `transform` itself uses the wrapped
   dataset's as soon as the wrapped dataset has one *)
Lemma transform_slot_needed_l :
  forall L inh bh,
    ~ In "transform" (l_inst L) -> ~ In "transform" (l_cls L) -> ~ In "transform" inh ->
    In "dataset" (l_inst L) -> bh "transform" = true ->
    getitem_transform L inh bh = TWrapped.
Proof.
  intros L inh bh H1 H2 H3 H4 H5. unfold getitem_transform, resolve.
  rewrite (smem_false _ _ H1), (smem_false _ _ H2), (smem_false _ _ H3).
  apply smem_In in H4. rewrite H4. simpl. rewrite H5. reflexivity.
Qed.

Lemma loader_via_cache_l : forall inh bh, fetch_route (shared_layer true) inh bh = ViaCache.
Proof.
  intros. unfold fetch_route. rewrite cache_names_own_l; [reflexivity|].
  apply in_or_app. right. simpl. tauto.
Qed.

Lemma loader_bypass_prefix_l :
  forall inh bh, ~ In "__getitems__" inh -> bh "__getitems__" = true ->
                 fetch_route (shared_layer false) inh bh = Bypass.
Proof.
  intros inh bh H1 H2. unfold fetch_route, resolve. rewrite (smem_false _ _ H1). simpl. rewrite H2. reflexivity.
Qed.

Lemma delegation_kept_l :
  forall gf inh bh n,
    ~ In n (inst_shared ++ cls_shared gf)%list -> ~ In n inh ->
    resolve (shared_layer gf) inh bh n = if bh n then Fwd else Missing.
Proof.
  intros gf inh bh n H1 H2. unfold resolve.
  assert (Hi : ~ In n (l_inst (shared_layer gf))) by (intro; apply H1; apply in_or_app; left; assumption).
  assert (Hc : ~ In n (l_cls (shared_layer gf))) by (intro; apply H1; apply in_or_app; right; assumption).
  rewrite (smem_false _ _ Hi), (smem_false _ _ Hc), (smem_false _ _ H2). simpl orb.
  destruct (n =? "dataset") eqn:E.
  - apply String.eqb_eq in E. subst. exfalso. apply Hi. simpl. tauto.
  - simpl. reflexivity.
Qed.

Lemma blank_never_forwards_l :
  forall gf inh bh n, ~ In "dataset" inh -> resolve (blank_layer gf) inh bh n <> Fwd.
Proof.
  intros gf inh bh n H. unfold resolve.
  destruct (smem n (l_inst (blank_layer gf)) || smem n (l_cls (blank_layer gf)) || smem n inh); [discriminate|].
  destruct (n =? "dataset"); [discriminate|].
  rewrite (smem_false _ _ H). destruct gf; simpl; discriminate.
Qed.

Lemma pids_below_loader : forall p n batches, (p < n)%nat -> pids_below n (loader_hist p batches).
Proof.
  intros p n batches H. unfold pids_below, loader_hist. apply Forall_forall. intros x Hx.
  apply in_map_iff in Hx. destruct Hx as [i [Hi _]]. subst. simpl. exact H.
Qed.

Lemma loader_transparent_l :
  forall inh bh fixed byref inplace base blen tf draws n p batches,
    (p < n)%nat ->
    fetch_route (shared_layer true) inh bh = ViaCache /\
    log (seq_exec fixed true byref inplace base blen tf draws n (loader_hist p batches))
    = spec_seq base blen tf draws [] (fun _ => O) (loader_hist p batches).
Proof.
  intros. split; [apply loader_via_cache_l|]. apply seq_transparent_l. apply pids_below_loader. assumption.
Qed.
