(* stateful side samplers: the passes over one config, in stream order, are the
   consecutive iterations of its sampler - the k-th pass of the run shows what
   the (p0 + k)-th iteration of that sampler yields, whole and in order *)
From Coq Require Import ZArith List Bool Lia.
Import ListNotations.
From KD Require Import C04.Model C04.Spec C04.Lists C04.Arith C04.Sides C04.Proofs C04.Corollaries C04.Bounds.
Open Scope Z_scope.

Definition is_side (ci : nat) (ev : event) : bool :=
  match ev with Side ci' _ _ => Nat.eqb ci ci' | _ => false end.

Lemma filter_side_emit_main ci b : filter (is_side ci) (emit Main b) = [].
Proof.
  induction b as [|i b IH]; [reflexivity|]. destruct b as [|j b]; [reflexivity|].
  rewrite emit_cons2. cbn [filter is_side]. exact IH.
Qed.
Lemma filter_side_emit_side ci ci' b :
  filter (is_side ci) (emit (Side ci') b) = if Nat.eqb ci ci' then emit (Side ci') b else [].
Proof.
  induction b as [|i b IH]; [destruct (Nat.eqb ci ci'); reflexivity|]. destruct b as [|j b].
  - cbn. destruct (Nat.eqb ci ci'); reflexivity.
  - rewrite emit_cons2. cbn [filter is_side]. rewrite IH. destruct (Nat.eqb ci ci'); reflexivity.
Qed.
Lemma filter_side_events c ci ci' sc p :
  filter (is_side ci) (side_events c ci' sc p) = if Nat.eqb ci ci' then side_events c ci' sc p else [].
Proof.
  unfold side_events. induction (chunk _ _) as [|b bs IH]; [destruct (Nat.eqb ci ci'); reflexivity|].
  cbn [flat_map]. rewrite filter_app, IH, filter_side_emit_side. destruct (Nat.eqb ci ci'); reflexivity.
Qed.

Lemma filter_side_passes c ci k : forall l ci0 pn,
  filter (is_side ci) (passes_from c ci0 l pn k) =
  if (ci0 <=? ci)%nat
  then match nth_error l (ci - ci0), nth_error pn (ci - ci0) with
       | Some sc, Some p => if due sc k then side_events c ci sc p else []
       | _, _ => []
       end
  else [].
Proof.
  induction l as [|sc l IH]; intros ci0 pn.
  - cbn [passes_from filter]. destruct (ci0 <=? ci)%nat; [|reflexivity]. destruct (ci - ci0)%nat; reflexivity.
  - destruct pn as [|p pn].
    + cbn [passes_from filter]. destruct (ci0 <=? ci)%nat; [|reflexivity].
      destruct (nth_error (sc :: l) (ci - ci0)); [|reflexivity]. destruct (ci - ci0)%nat; reflexivity.
    + cbn [passes_from]. rewrite filter_app, IH.
      destruct (lt_eq_lt_dec ci0 ci) as [[Hlt|Heq]|Hgt].
      * rewrite (proj2 (Nat.leb_le ci0 ci)) by lia. rewrite (proj2 (Nat.leb_le (S ci0) ci)) by lia.
        replace (ci - ci0)%nat with (S (ci - S ci0)) by lia. cbn [nth_error].
        assert (filter (is_side ci) (if due sc k then side_events c ci0 sc p else []) = []) as ->.
        { destruct (due sc k); [|reflexivity]. rewrite filter_side_events.
          rewrite (proj2 (Nat.eqb_neq ci ci0)) by lia. reflexivity. }
        reflexivity.
      * subst ci0. rewrite Nat.leb_refl, Nat.sub_diag. cbn [nth_error].
        rewrite (proj2 (Nat.leb_gt (S ci) ci)) by lia. rewrite app_nil_r.
        destruct (due sc k); [|reflexivity]. now rewrite filter_side_events, Nat.eqb_refl.
      * rewrite (proj2 (Nat.leb_gt ci0 ci)) by lia. rewrite (proj2 (Nat.leb_gt (S ci0) ci)) by lia.
        rewrite app_nil_r. destruct (due sc k); [|reflexivity]. rewrite filter_side_events.
        rewrite (proj2 (Nat.eqb_neq ci ci0)) by lia. reflexivity.
Qed.

Section P.
  Variables (c : cfg) (mi : Z -> list Z).
  Hypothesis W : WF c mi.
  Variables (ci : nat) (sc : side_cfg).
  Hypothesis Hsc : nth_error (sides c) ci = Some sc.

  Lemma pn_at_nth e bs j : forall l pn i s p, nth_error l i = Some s -> nth_error pn i = Some p ->
    nth_error (pn_at_from c l pn e bs j) i = Some (p + due_count c s e bs j)%nat.
  Proof.
    induction l as [|s0 l IH]; intros pn i s p Hl Hp; [destruct i; discriminate|].
    destruct pn as [|p0 pn]; [destruct i; discriminate|]. destruct i as [|i]; cbn [nth_error pn_at_from] in *.
    - injection Hl as <-. injection Hp as <-. reflexivity.
    - now apply IH.
  Qed.

  (* one update shows the config's pass iff it is due, and then the iteration
     number (start of epoch) + (earlier updates of the epoch at which it was due) *)
  Lemma update_side e bs pn j p : nth_error pn ci = Some p ->
    filter (is_side ci) (u_events (upd_at c e bs pn j)) =
    if due sc (counters_at c e bs j) then side_events c ci sc (p + due_count c sc e bs j) else [].
  Proof.
    intros Hp. unfold upd_at. cbn [u_events]. rewrite filter_app, filter_side_emit_main. cbn [app].
    rewrite filter_side_passes. cbn [Nat.leb]. rewrite Nat.sub_0_r, Hsc.
    unfold pn_at. rewrite (pn_at_nth e bs j (sides c) pn ci sc p Hsc Hp). reflexivity.
  Qed.

  Lemma prefix_side e bs pn p : nth_error pn ci = Some p -> forall t,
    filter (is_side ci) (flat_map u_events (map (upd_at c e bs pn) (seq 0 t))) =
    concat (map (side_events c ci sc) (seq p (due_count c sc e bs t))).
  Proof.
    intros Hp. induction t as [|t IH]; [reflexivity|].
    rewrite seq_S, map_app, flat_map_app, filter_app, IH. cbn [plus map flat_map]. rewrite app_nil_r.
    rewrite (update_side e bs pn t p Hp), (due_count_S c).
    destruct (due sc (counters_at c e bs t)).
    - rewrite seq_app, map_app, concat_app. cbn [seq map concat]. now rewrite app_nil_r.
    - rewrite Nat.add_0_r, app_nil_r. reflexivity.
  Qed.

  (* C05 with stateful side samplers: whatever the order a side sampler yields on
     its k-th iteration, the passes over a config that a run shows are - in
     stream order, whole, nothing in between from that config - its sampler's
     iterations number p0, p0+1, p0+2, ... *)
  Lemma spec_passes_consecutive : forall n e pn tr p, length pn = length (sides c) ->
    nth_error pn ci = Some p -> spec_run c mi e pn n = Some tr ->
    exists m, filter (is_side ci) tr = concat (map (side_events c ci sc) (seq p m)).
  Proof.
    induction n as [|n IH]; intros e pn tr p Hpl Hp H; [discriminate|]. cbn [spec_run] in H.
    set (bs := epoch_batches c mi e) in *.
    destruct (take_until_map_seq (upd_at c e bs pn) (hit c) (length bs) 0) as [t (Ht & Hf & _ & _ & Hnot)].
    change (map (upd_at c e bs pn) (seq 0 (length bs))) with (epoch_updates c mi e pn) in Hf, Hnot.
    rewrite (epoch_hits_eq c mi e pn) in Hnot.
    assert (Hep : filter (is_side ci) (epoch_events c mi e pn)
                  = concat (map (side_events c ci sc) (seq p (due_count c sc e bs t)))).
    { unfold epoch_events. cbn [filter is_side]. rewrite Hf. now apply prefix_side. }
    destruct (epoch_hits c mi e) eqn:Hh.
    - injection H as <-. eexists. exact Hep.
    - destruct (spec_run c mi (e + 1) (pn_next c mi e pn) n) as [rest|] eqn:E; [|discriminate].
      injection H as <-. destruct (Hnot eq_refl) as [-> _].
      destruct (IH (e + 1) (pn_next c mi e pn) rest (p + due_count c sc e bs (length bs))%nat) as [m2 Hm2].
      + now apply (pn_next_length c mi).
      + unfold pn_next, pn_at. fold bs. now apply pn_at_nth.
      + exact E.
      + exists (due_count c sc e bs (length bs) + m2)%nat.
        change (filter (is_side ci) (epoch_events c mi e pn ++ rest)
                = concat (map (side_events c ci sc) (seq p (due_count c sc e bs (length bs) + m2)))).
        rewrite filter_app, Hep, Hm2, seq_app, map_app, concat_app. reflexivity.
  Qed.

  Theorem passes_consecutive n e pn tr p : length pn = length (sides c) -> nth_error pn ci = Some p ->
    run c mi n (start_state c e pn) = Some tr ->
    exists m, filter (is_side ci) tr = concat (map (side_events c ci sc) (seq p m)).
  Proof.
    intros Hpl Hp. unfold start_state. rewrite (model_eq_spec c mi W) by exact Hpl.
    now apply spec_passes_consecutive.
  Qed.
End P.
