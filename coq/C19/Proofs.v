(* C19 — proofs.  Invariants of the interleaving semantics (any number of processes, any
   schedule) and the big-step characterisation of sequential histories. *)
From Coq Require Import ZArith List Bool Arith Lia.
Import ListNotations.
From KD Require Import C19.Model C19.Spec.
Open Scope Z_scope.

(* ------------------------------------------------------------------ lists *)
Lemma nth_error_set_nth_eq : forall A (l : list A) n a x,
  nth_error l n = Some x -> nth_error (set_nth n a l) n = Some a.
Proof. induction l; destruct n; simpl; intros; try discriminate; eauto. Qed.

Lemma nth_error_set_nth_neq : forall A (l : list A) n m a,
  n <> m -> nth_error (set_nth n a l) m = nth_error l m.
Proof. induction l; destruct n, m; simpl; intros; try congruence; eauto. Qed.

Lemma nth_error_set_nth_none : forall A (l : list A) n m a,
  nth_error l m = None -> nth_error (set_nth n a l) m = None.
Proof. induction l; destruct n, m; simpl; intros; try congruence; eauto. Qed.

Lemma set_nth_set_nth : forall A (l : list A) n a b, set_nth n a (set_nth n b l) = set_nth n a l.
Proof. induction l; destruct n; simpl; intros; f_equal; eauto. Qed.

Lemma length_set_nth : forall A (l : list A) n a, length (set_nth n a l) = length l.
Proof. induction l; destruct n; simpl; intros; f_equal; eauto. Qed.

Lemma Forall_set_nth : forall A (P : A -> Prop) (l : list A) n a,
  Forall P l -> P a -> Forall P (set_nth n a l).
Proof.
  induction l; destruct n; simpl; intros; auto; inversion H; subst; constructor; auto.
Qed.

Lemma Forall_nth_error : forall A (P : A -> Prop) (l : list A) n x,
  Forall P l -> nth_error l n = Some x -> P x.
Proof. intros. rewrite Forall_forall in H. eapply H, nth_error_In; eauto. Qed.

Lemma nth_error_repeat : forall A (a : A) n p, (p < n)%nat -> nth_error (repeat a n) p = Some a.
Proof. induction n; destruct p; simpl; intros; try lia; auto. apply IHn; lia. Qed.

Lemma mem_true_iff : forall i l, mem i l = true <-> In i l.
Proof.
  unfold mem; intros; rewrite existsb_exists; split.
  - intros [x [Hin He]]. apply Z.eqb_eq in He. subst; auto.
  - intros; exists i; split; auto. apply Z.eqb_refl.
Qed.

Lemma mem_cons : forall i j l, mem i (j :: l) = (i =? j) || mem i l.
Proof. reflexivity. Qed.

Section P.
  Variable fixed : bool.
  Variable base : Z -> option Z.
  Variable blen : Z.
  Variable tf : Z -> Z -> Z.
  Variable draws : nat -> nat -> Z.

  Notation pstep := (pstep fixed base blen tf draws).
  Notation step := (step fixed base blen tf draws).
  Notation run := (run fixed base blen tf draws).
  Notation do_cmd := (do_cmd fixed base blen tf draws).
  Notation seq_exec := (seq_exec fixed base blen tf draws).
  Notation spec_seq := (spec_seq base blen tf draws).

  (* -------------------------------------------------------- concurrent invariants *)
  Definition proc_ok (pr : proc) : Prop :=
    match pc pr with PSet i v => base i = Some v | _ => True end.

  Definition ret_good (e : ev) : Prop :=
    match e with
    | ERet p i k r => r = expected base tf (draws p k) i \/ (fixed = false /\ r = RKeyError)
    | _ => True
    end.

  Lemma dict_ok_dget : forall d i v, dict_ok base d -> dget i d = Some v -> base i = Some v.
  Proof.
    induction d as [|[k w] d IH]; simpl; intros i v Hok Hg; try discriminate.
    inversion Hok; subst. destruct (i =? k) eqn:E.
    - apply Z.eqb_eq in E. subst. inversion Hg; subst. assumption.
    - eauto.
  Qed.

  Lemma pstep_inv : forall p d pr d' pr' evs,
    pstep p d pr = (d', pr', evs) -> dict_ok base d -> proc_ok pr ->
    dict_ok base d' /\ proc_ok pr' /\ Forall ret_good evs.
  Proof.
    intros p d pr d' pr' evs H Hd Hp. unfold Model.pstep in H. unfold proc_ok in Hp.
    destruct (pc pr) eqn:Epc.
    - (* PStart *)
      destruct (todo pr) as [|[i| |] r] eqn:Et.
      + inversion H; subst. unfold proc_ok. rewrite Epc. auto.
      + destruct (dget i d); inversion H; subst; unfold proc_ok; simpl; auto.
      + inversion H; subst. unfold proc_ok, dict_ok; simpl; auto 6.
      + inversion H; subst. unfold proc_ok; simpl; auto 6.
    - (* PMiss *)
      destruct (base i) eqn:Eb; inversion H; subst; unfold proc_ok; simpl.
      + auto 6.
      + repeat split; auto. repeat apply Forall_cons; try apply Forall_nil; simpl; auto. left. unfold expected. rewrite Eb. reflexivity.
    - (* PSet *)
      inversion H; subst. unfold proc_ok; simpl. repeat split; auto.
      + constructor; auto.
      + repeat apply Forall_cons; try apply Forall_nil; simpl; auto. left. unfold expected. rewrite Hp. reflexivity.
    - (* PHit *)
      destruct (dget i d) eqn:Eg.
      + inversion H; subst. unfold proc_ok; simpl. repeat split; auto.
        repeat apply Forall_cons; try apply Forall_nil; simpl; auto. left. unfold expected. rewrite (dict_ok_dget _ _ _ Hd Eg). reflexivity.
      + destruct fixed eqn:Ef; inversion H; subst; unfold proc_ok; simpl; repeat split; auto.
        repeat apply Forall_cons; try apply Forall_nil; simpl; auto.
  Qed.

  Definition inv (s : state) : Prop :=
    dict_ok base (sd s) /\ Forall proc_ok (procs s) /\ Forall ret_good (log s).

  Lemma step_inv : forall s p, inv s -> inv (step s p).
  Proof.
    intros s p (Hd & Hp & Hl). unfold Model.step.
    destruct (nth_error (procs s) p) as [pr|] eqn:E; [|repeat split; auto].
    destruct (pstep p (sd s) pr) as [[d' pr'] evs] eqn:Es.
    destruct (pstep_inv _ _ _ _ _ _ Es Hd (Forall_nth_error _ _ _ _ _ Hp E)) as (A & B & C).
    repeat split; simpl; auto.
    - apply Forall_set_nth; auto.
    - apply Forall_app; auto.
  Qed.

  Lemma run_inv : forall sched s, inv s -> inv (run sched s).
  Proof. induction sched; simpl; intros; auto. apply IHsched, step_inv; auto. Qed.

  Lemma init_inv : forall d0 progs, dict_ok base d0 -> inv (init d0 progs).
  Proof.
    intros. repeat split; simpl; auto. rewrite Forall_map. rewrite Forall_forall. intros; exact I.
  Qed.

  Lemma conc_inv : forall d0 progs sched, dict_ok base d0 -> inv (run sched (init d0 progs)).
  Proof. intros. apply run_inv, init_inv; auto. Qed.

  Lemma conc_dict_subset_base_l : forall d0 progs sched,
    dict_ok base d0 -> dict_ok base (sd (run sched (init d0 progs))).
  Proof. intros. apply conc_inv; auto. Qed.

  Lemma conc_values_equal_base_l : forall d0 progs sched,
    dict_ok base d0 -> values_equal_base base tf draws (log (run sched (init d0 progs))).
  Proof.
    intros d0 progs sched H p i k r Hin.
    destruct (conc_inv d0 progs sched H) as (_ & _ & Hl).
    rewrite Forall_forall in Hl. specialize (Hl _ Hin). simpl in Hl. tauto.
  Qed.

  (* ---------------------------------------------- transform applied on every access *)
  Lemma calls_of_app : forall p a b, calls_of p (a ++ b) = calls_of p a ++ calls_of p b.
  Proof. intros. unfold calls_of. apply flat_map_app. Qed.

  Lemma pstep_calls : forall p d pr d' pr' evs,
    pstep p d pr = (d', pr', evs) ->
    (forall q, q <> p -> calls_of q evs = []) /\
    ((calls_of p evs = [] /\ nacc pr' = nacc pr) \/ (calls_of p evs = [nacc pr] /\ nacc pr' = S (nacc pr))).
  Proof.
    intros p d pr d' pr' evs H. unfold Model.pstep in H.
    assert (Hne : forall q, q <> p -> Nat.eqb p q = false) by (intros; apply Nat.eqb_neq; auto).
    destruct (pc pr); [destruct (todo pr) as [|[i| |] r]; [| destruct (dget i d) | |]
                      | destruct (base i) | | destruct (dget i d); [|destruct fixed]];
      inversion H; subst; simpl; rewrite ?Nat.eqb_refl; (split; [intros q Hq; rewrite ?(Hne q Hq); reflexivity | auto]).
  Qed.

  Definition nacc_of (s : state) (p : nat) : nat :=
    match nth_error (procs s) p with Some pr => nacc pr | None => O end.

  Definition cinv (s : state) : Prop := forall p, calls_of p (log s) = seq 0 (nacc_of s p).

  Lemma step_cinv : forall s q, cinv s -> cinv (step s q).
  Proof.
    intros s q H p. unfold Model.step.
    destruct (nth_error (procs s) q) as [pr|] eqn:E; [|apply H].
    destruct (pstep q (sd s) pr) as [[d' pr'] evs] eqn:Es.
    destruct (pstep_calls _ _ _ _ _ _ Es) as (Hoth & Hown).
    unfold nacc_of; simpl. rewrite calls_of_app, H. unfold nacc_of.
    destruct (Nat.eq_dec q p) as [->|Hne].
    - rewrite (nth_error_set_nth_eq _ _ _ _ _ E), E.
      destruct Hown as [(A & B) | (A & B)]; rewrite A, B.
      + apply app_nil_r.
      + rewrite seq_S. reflexivity.
    - rewrite nth_error_set_nth_neq by auto. rewrite Hoth by auto. apply app_nil_r.
  Qed.

  Lemma run_cinv : forall sched s, cinv s -> cinv (run sched s).
  Proof. induction sched; simpl; intros; auto. apply IHsched, step_cinv; auto. Qed.

  Lemma init_cinv : forall d0 progs, cinv (init d0 progs).
  Proof.
    intros d0 progs p. unfold nacc_of; simpl. rewrite nth_error_map.
    destruct (nth_error progs p); reflexivity.
  Qed.

  Lemma conc_transform_every_access_l : forall d0 progs sched,
    transform_every_access (log (run sched (init d0 progs))).
  Proof.
    intros d0 progs sched p.
    rewrite (run_cinv sched _ (init_cinv d0 progs) p). rewrite seq_length. reflexivity.
  Qed.

  (* ------------------------------------------------------------ sequential histories *)
  Definition idle (k : nat) : proc := {| pc := PStart; todo := []; nacc := k |}.

  (* what one command does when run to completion *)
  Definition big (p k : nat) (d : dict) (c : cmd) : dict * nat * list ev :=
    match c with
    | CClear => ([], k, [EClear p])
    | CLen => (d, k, [ELen p blen])
    | CGet i =>
        match dget i d with
        | Some v => (d, S k, [ERet p i k (RVal (tf (draws p k) v))])
        | None =>
            match base i with
            | Some v => (dset i v d, S k, [ELoad p i; ERet p i k (RVal (tf (draws p k) v))])
            | None => (d, k, [ELoad p i; ERet p i k RBaseError])
            end
        end
    end.

  Lemma do_cmd_big : forall s p c k,
    nth_error (procs s) p = Some (idle k) ->
    do_cmd s (p, c) =
    let '(d', k', evs) := big p k (sd s) c in
    {| sd := d'; procs := set_nth p (idle k') (procs s); log := log s ++ evs |}.
  Proof.
    intros s p c k E.
    assert (HX : forall a, nth_error (set_nth p a (procs s)) p = Some a)
      by (intro a; eapply nth_error_set_nth_eq; eauto).
    unfold Model.do_cmd, Model.push; simpl fst; simpl snd. rewrite E.
    unfold Model.finish, Model.at_start, Model.step, Model.pstep, big, idle. simpl.
    destruct c as [i| |]; simpl; rewrite ?HX; simpl; rewrite ?set_nth_set_nth, ?HX; simpl; auto.
    destruct (dget i (sd s)) eqn:Eg; simpl;
      repeat progress (rewrite ?Eg, ?set_nth_set_nth, ?HX, ?app_nil_r; simpl); auto.
    destruct (base i) eqn:Eb; simpl;
      repeat progress (rewrite ?Eg, ?set_nth_set_nth, ?HX, ?app_nil_r, <- ?app_assoc; simpl); auto.
  Qed.

  (* all n processes idle, p having made [cnt p] transform calls *)
  Definition all_idle (n : nat) (cnt : nat -> nat) (s : state) : Prop :=
    forall p, (p < n)%nat -> nth_error (procs s) p = Some (idle (cnt p)).

  (* the dict holds exactly the samples of [seen] *)
  Definition cache_rel (seen : list Z) (d : dict) : Prop :=
    forall i, dget i d = if mem i seen then base i else None.
  Definition seen_ok (seen : list Z) : Prop := forall i, mem i seen = true -> has base i = true.

  Lemma all_idle_set : forall n cnt s p k d l,
    all_idle n cnt s -> (p < n)%nat ->
    all_idle n (fun q => if Nat.eqb q p then k else cnt q)
             {| sd := d; procs := set_nth p (idle k) (procs s); log := l |}.
  Proof.
    intros n cnt s p k d l H Hp q Hq. simpl.
    destruct (Nat.eqb q p) eqn:E.
    - apply Nat.eqb_eq in E. subst. eapply nth_error_set_nth_eq. apply H; auto.
    - apply Nat.eqb_neq in E. rewrite nth_error_set_nth_neq by auto. apply H; auto.
  Qed.

  Lemma all_idle_ext : forall n c1 c2 s, (forall q, c1 q = c2 q) -> all_idle n c1 s -> all_idle n c2 s.
  Proof. intros n c1 c2 s He H p Hp. rewrite <- He. apply H; auto. Qed.

  Lemma spec_seq_ext : forall hist seen c1 c2, (forall q, c1 q = c2 q) -> spec_seq seen c1 hist = spec_seq seen c2 hist.
  Proof.
    induction hist as [|[p [i| |]] r IH]; simpl; intros seen c1 c2 He; auto.
    - rewrite He. f_equal. f_equal. destruct (has base i); apply IH; auto.
      intro q. unfold bump. rewrite He. reflexivity.
    - f_equal. apply IH; auto.
    - f_equal. apply IH; auto.
  Qed.

  Lemma idle_after : forall n cnt cnt' s p k d l,
    all_idle n cnt s -> (p < n)%nat -> (forall q, cnt' q = if Nat.eqb q p then k else cnt q) ->
    all_idle n cnt' {| sd := d; procs := set_nth p (idle k) (procs s); log := l |}.
  Proof.
    intros. eapply all_idle_ext; [|apply all_idle_set; eauto]. intro q; simpl. symmetry. auto.
  Qed.

  Ltac idle_tac :=
    let q := fresh "q" in let E := fresh "E" in
    eapply idle_after; eauto; intro q; unfold bump;
    destruct (Nat.eqb q _) eqn:E; auto; apply Nat.eqb_eq in E; subst; auto.

  Lemma seq_main : forall hist n s seen cnt,
    all_idle n cnt s -> cache_rel seen (sd s) -> seen_ok seen -> pids_below n hist ->
    log (fold_left do_cmd hist s) = log s ++ spec_seq seen cnt hist.
  Proof.
    induction hist as [|[p c] r IH]; simpl; intros n s seen cnt Hi Hc Hs Hb.
    - rewrite app_nil_r. reflexivity.
    - inversion Hb as [|x y Hp Hb']; subst. simpl in Hp.
      rewrite (do_cmd_big s p c (cnt p) (Hi p Hp)).
      destruct c as [i| |]; simpl.
      + (* CGet *)
        rewrite (Hc i). destruct (mem i seen) eqn:Em.
        * (* seen: hit *)
          pose proof (Hs i Em) as Hh. unfold has in Hh. destruct (base i) as [v|] eqn:Eb; try discriminate.
          rewrite (IH n _ (i :: seen) (bump cnt p)); [ | idle_tac | | | assumption].
          -- simpl. rewrite <- app_assoc. simpl. unfold has, expected. rewrite Eb. reflexivity.
          -- intro j. simpl sd. rewrite mem_cons. rewrite (Hc j). destruct (j =? i) eqn:E; simpl; auto.
             apply Z.eqb_eq in E. subst. rewrite Em. reflexivity.
          -- intro j. rewrite mem_cons. destruct (j =? i) eqn:E; simpl; auto.
             apply Z.eqb_eq in E. subst. intros _. unfold has. rewrite Eb. reflexivity.
        * destruct (base i) as [v|] eqn:Eb.
          -- (* miss, loaded and stored *)
             rewrite (IH n _ (i :: seen) (bump cnt p)); [ | idle_tac | | | assumption].
             ++ simpl. rewrite <- app_assoc. simpl. unfold has, expected. rewrite Eb. reflexivity.
             ++ intro j. simpl sd. rewrite mem_cons. simpl. destruct (j =? i) eqn:E; simpl.
                ** apply Z.eqb_eq in E. subst. auto.
                ** apply Hc.
             ++ intro j. rewrite mem_cons. destruct (j =? i) eqn:E; simpl; auto.
                apply Z.eqb_eq in E. subst. intros _. unfold has. rewrite Eb. reflexivity.
          -- (* the wrapped dataset raises: nothing cached *)
             rewrite (IH n _ seen cnt); [ | idle_tac | assumption | assumption | assumption].
             simpl. rewrite <- app_assoc. simpl. unfold has, expected. rewrite Eb. reflexivity.
      + (* CClear *)
        rewrite (IH n _ [] cnt); [ | idle_tac | | | assumption].
        * simpl. rewrite <- app_assoc. reflexivity.
        * intro j. reflexivity.
        * intros j Hj. discriminate.
      + (* CLen *)
        rewrite (IH n _ seen cnt); [ | idle_tac | assumption | assumption | assumption].
        simpl. rewrite <- app_assoc. reflexivity.
  Qed.

  Lemma seq_transparent_l : forall n hist,
    pids_below n hist ->
    log (seq_exec n hist) = spec_seq [] (fun _ => O) hist.
  Proof.
    intros n hist H. unfold Model.seq_exec.
    erewrite seq_main with (seen := []) (cnt := fun _ => O) (n := n); auto.
    - intros p Hp. simpl. rewrite nth_error_map. rewrite nth_error_repeat by auto. reflexivity.
    - intro i. reflexivity.
    - intros i Hi. discriminate.
  Qed.

  (* ------------------------------------------ at most one load between clears *)
  Lemma loads_once_spec : forall hist S seen cnt,
    (forall j, In j S -> has base j = true -> mem j seen = true) ->
    loads_once base S (spec_seq seen cnt hist).
  Proof.
    induction hist as [|[p [i| |]] r IH]; simpl; intros S seen cnt HS; auto.
    - destruct (mem i seen) eqn:Em; simpl.
      + apply IH. intros j Hj Hh. specialize (HS j Hj Hh).
        destruct (has base i); auto. rewrite mem_cons, HS. apply orb_true_r.
      + split.
        * intro Hin. destruct (base i) eqn:Eb; auto.
          assert (mem i seen = true) by (apply HS; auto; unfold has; rewrite Eb; auto). congruence.
        * apply IH. intros j [<-|Hj] Hh.
          -- rewrite Hh. rewrite mem_cons, Z.eqb_refl. reflexivity.
          -- specialize (HS j Hj Hh). destruct (has base i); auto. rewrite mem_cons, HS. apply orb_true_r.
  Qed.

  Lemma seq_at_most_one_load_l : forall n hist,
    pids_below n hist -> loads_once base [] (log (seq_exec n hist)).
  Proof. intros. rewrite seq_transparent_l by auto. apply loads_once_spec. intros j []. Qed.

  (* ----------------------------------------------------- reload after a clear *)
  Fixpoint spec_state (seen : list Z) (cnt : nat -> nat) (hist : list (nat * cmd)) : list Z * (nat -> nat) :=
    match hist with
    | [] => (seen, cnt)
    | (p, CClear) :: r => spec_state [] cnt r
    | (p, CLen) :: r => spec_state seen cnt r
    | (p, CGet i) :: r => spec_state (if has base i then i :: seen else seen) (if has base i then bump cnt p else cnt) r
    end.

  Lemma spec_seq_app : forall h1 h2 seen cnt,
    spec_seq seen cnt (h1 ++ h2) =
    spec_seq seen cnt h1 ++ spec_seq (fst (spec_state seen cnt h1)) (snd (spec_state seen cnt h1)) h2.
  Proof.
    induction h1 as [|[p [i| |]] r IH]; simpl; intros; auto.
    - rewrite IH. rewrite <- app_assoc. reflexivity.
    - rewrite IH. reflexivity.
    - rewrite IH. reflexivity.
  Qed.

  Lemma spec_state_app : forall h1 h2 seen cnt,
    spec_state seen cnt (h1 ++ h2) = spec_state (fst (spec_state seen cnt h1)) (snd (spec_state seen cnt h1)) h2.
  Proof. induction h1 as [|[p [i| |]] r IH]; simpl; intros; auto. Qed.

  Lemma no_get_not_seen : forall h i seen cnt,
    no_get i h -> mem i seen = false -> mem i (fst (spec_state seen cnt h)) = false.
  Proof.
    induction h as [|[p [j| |]] r IH]; simpl; intros i seen cnt Hn Hm; auto.
    - apply IH.
      + intros q Hq. apply (Hn q). right; auto.
      + destruct (has base j); auto. rewrite mem_cons, Hm.
        destruct (i =? j) eqn:E; auto. apply Z.eqb_eq in E. subst. exfalso. apply (Hn p). left; auto.
    - apply IH; auto. intros q Hq. apply (Hn q). right; auto.
    - apply IH; auto. intros q Hq. apply (Hn q). right; auto.
  Qed.

  Lemma pids_below_app : forall n h1 h2, pids_below n (h1 ++ h2) -> pids_below n h1.
  Proof. unfold pids_below. intros n h1 h2 H. apply Forall_app in H. tauto. Qed.

  Lemma reload_after_clear_l : forall n h1 p h2 q i,
    pids_below n (h1 ++ (p, CClear) :: h2 ++ [(q, CGet i)]) ->
    no_get i h2 ->
    exists k,
      log (seq_exec n (h1 ++ (p, CClear) :: h2 ++ [(q, CGet i)])) =
      log (seq_exec n (h1 ++ (p, CClear) :: h2))
      ++ [ELoad q i; ERet q i k (expected base tf (draws q k) i)].
  Proof.
    intros n h1 p h2 q i Hb Hn.
    assert (Hb' : pids_below n (h1 ++ (p, CClear) :: h2)).
    { replace (h1 ++ (p, CClear) :: h2 ++ [(q, CGet i)]) with ((h1 ++ (p, CClear) :: h2) ++ [(q, CGet i)]) in Hb
        by (rewrite <- app_assoc; reflexivity).
      eapply pids_below_app; eauto. }
    replace (h1 ++ (p, CClear) :: h2 ++ [(q, CGet i)]) with ((h1 ++ (p, CClear) :: h2) ++ [(q, CGet i)]) in *
      by (rewrite <- app_assoc; reflexivity).
    rewrite !seq_transparent_l by auto.
    rewrite spec_seq_app. simpl.
    rewrite spec_state_app. simpl.
    rewrite no_get_not_seen by auto. simpl.
    eexists. reflexivity.
  Qed.
End P.

(* ------------------------------------------------------------------ progress *)
Section Progress.
  Variable fixed : bool.
  Variable base : Z -> option Z.
  Variable blen : Z.
  Variable tf : Z -> Z -> Z.
  Variable draws : nat -> nat -> Z.
  Notation pstep := (pstep fixed base blen tf draws).
  Notation step := (step fixed base blen tf draws).
  Notation run := (run fixed base blen tf draws).

  (* atomic steps process needs at most to finish its program *)
  Definition work (pr : proc) : nat :=
    match pc pr with
    | PStart => 4 * length (todo pr)
    | PHit _ => 4 * pred (length (todo pr)) + 3
    | PMiss _ => 4 * pred (length (todo pr)) + 2
    | PSet _ _ => 4 * pred (length (todo pr)) + 1
    end.

  Lemma pstep_work : forall p d pr d' pr' evs,
    pstep p d pr = (d', pr', evs) -> (work pr' < work pr \/ (work pr = 0 /\ pr' = pr))%nat.
  Proof.
    intros p d pr d' pr' evs H. unfold Model.pstep in H. unfold work.
    destruct (pc pr) eqn:Epc; [destruct (todo pr) as [|[i| |] r] eqn:Et; [| destruct (dget i d) | |]
                      | destruct (base i) | | destruct (dget i d); [|destruct fixed]];
      inversion H; subst; simpl; rewrite ?Epc, ?Et; simpl;
      try (destruct (todo pr) as [|c r]; simpl; lia); try lia.
    right. auto.
  Qed.

  Definition work_of (s : state) (p : nat) : nat :=
    match nth_error (procs s) p with Some pr => work pr | None => O end.

  Lemma step_work : forall s q p,
    (q <> p -> work_of (step s q) p = work_of s p) /\
    (q = p -> (work_of (step s q) p <= pred (work_of s p))%nat).
  Proof.
    intros s q p. unfold work_of, Model.step.
    destruct (nth_error (procs s) q) as [pr|] eqn:E.
    - destruct (pstep q (sd s) pr) as [[d' pr'] evs] eqn:Es. simpl. split.
      + intro Hne. rewrite nth_error_set_nth_neq by auto. reflexivity.
      + intros ->. rewrite (nth_error_set_nth_eq _ _ _ _ _ E), E.
        destruct (pstep_work _ _ _ _ _ _ Es) as [Hlt | [Hz ->]]; lia.
    - split; auto. intros ->. rewrite E. lia.
  Qed.

  Lemma run_work : forall sched s p,
    (work_of (run sched s) p <= work_of s p - count_occ Nat.eq_dec sched p)%nat.
  Proof.
    induction sched as [|q r IH]; simpl; intros s p; [lia|].
    specialize (IH (step s q) p). destruct (step_work s q p) as [Hne Heq].
    destruct (Nat.eq_dec q p) as [->|Hn].
    - specialize (Heq eq_refl). lia.
    - rewrite (Hne Hn) in IH. lia.
  Qed.

  Lemma work_zero : forall pr, work pr = O -> pc pr = PStart /\ todo pr = [].
  Proof.
    intros pr. unfold work. destruct (pc pr); try lia. destruct (todo pr); simpl; try lia. auto.
  Qed.

  Lemma run_length : forall sched s, length (procs (run sched s)) = length (procs s).
  Proof.
    induction sched as [|q r IH]; simpl; intros; auto. rewrite IH. unfold Model.step.
    destruct (nth_error (procs s) q) as [pr|]; auto. destruct (pstep q (sd s) pr) as [[a b] c]. simpl.
    apply length_set_nth.
  Qed.

  (* every process finishes its program after at most 4 own steps per command, whatever
     the other processes do in between (the KeyError fallback cannot loop) *)
  Lemma conc_progress_l : forall d0 progs sched p prog,
    nth_error progs p = Some prog ->
    (4 * length prog <= count_occ Nat.eq_dec sched p)%nat ->
    exists pr, nth_error (procs (run sched (init d0 progs))) p = Some pr /\ pc pr = PStart /\ todo pr = [].
  Proof.
    intros d0 progs sched p prog Hp Hc.
    pose proof (run_work sched (init d0 progs) p) as Hw.
    assert (Hi : work_of (init d0 progs) p = (4 * length prog)%nat).
    { unfold work_of; simpl. rewrite nth_error_map, Hp. reflexivity. }
    rewrite Hi in Hw.
    unfold work_of in Hw.
    destruct (nth_error (procs (run sched (init d0 progs))) p) as [pr|] eqn:E.
    - exists pr. split; auto. apply work_zero. lia.
    - exfalso. apply nth_error_None in E. rewrite run_length in E. simpl in E. rewrite map_length in E.
      assert (p < length progs)%nat by (apply nth_error_Some; congruence). lia.
  Qed.
End Progress.

(* ------------------------------------------------------------- the repaired reader *)
Lemma conc_transparent_l : forall base blen tf draws d0 progs sched,
  dict_ok base d0 -> transparent base tf draws (log (run true base blen tf draws sched (init d0 progs))).
Proof.
  intros base blen tf draws d0 progs sched H p i k r Hin.
  destruct (conc_inv true base blen tf draws d0 progs sched H) as (_ & _ & Hl).
  rewrite Forall_forall in Hl. specialize (Hl _ Hin). simpl in Hl.
  destruct Hl as [Hl | [Hf _]]; [assumption | discriminate].
Qed.

Lemma expected_not_keyerror : forall base tf d i, expected base tf d i <> RKeyError.
Proof. intros. unfold expected. destruct (base i); discriminate. Qed.

Lemma conc_no_error_l : forall base blen tf draws d0 progs sched,
  dict_ok base d0 -> no_error (log (run true base blen tf draws sched (init d0 progs))).
Proof.
  intros base blen tf draws d0 progs sched H p i k Hin.
  apply (conc_transparent_l base blen tf draws d0 progs sched H) in Hin.
  symmetry in Hin. eapply expected_not_keyerror; eauto.
Qed.

(* ------------------------------- the reader BEFORE the fix: the race is reachable *)
(* process 0 reads index 3 twice, process 1 disposes: the second read's membership test
   succeeds, the dispose runs, the lookup raises KeyError *)
Lemma conc_no_error_prefix_refuted_l :
  exists (progs : list (list cmd)) (sched : list nat),
    In (ERet 0 3 1 RKeyError)
       (log (run false (fun i => Some (10 * i)) 5 (fun d v => d + v) (fun _ _ => 0) sched (init [] progs))).
Proof.
  exists [[CGet 3; CGet 3]; [CClear]], [0; 0; 0; 0; 1; 0]%nat. vm_compute. auto 10.
Qed.
