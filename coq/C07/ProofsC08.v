(* Proofs for C08 (seeded sample wrappers) over the generic theory RngGraph.v / ModelC08.v. *)
From Coq Require Import ZArith List Bool String Lia.
Import ListNotations.
From KD Require Import C07.RngGraph C07.Proofs C07.ModelC08.
Open Scope Z_scope.

Lemma wlookup_In : forall wt c d, wlookup wt c = Some d -> In d wt /\ w_name d = c.
Proof.
  unfold wlookup. intros wt c d H. apply find_some in H. destruct H as [Hin He].
  apply String.eqb_eq in He. split; [exact Hin | symmetry; exact He].
Qed.

(* re-injection into the admitted members of the fields listed in fwd, written with inject_members *)
Lemma inject_kids_entry : forall tbl fwd p (fk : string * list tree),
    match assoc (fst fk) fwd with
    | None => fk
    | Some g => (fst fk, map (fun k => if admits tbl g (cls_of k) then set_rng tbl p k else k) (snd fk))
    end = (fst fk, inject_members tbl (assoc (fst fk) fwd) p (snd fk)).
Proof.
  intros tbl fwd p fk. unfold inject_members. destruct (assoc (fst fk) fwd); [reflexivity|]. destruct fk; reflexivity.
Qed.

(* ---------------------------------------------------------------- *)
(* serving an item keeps the wrapper an instance of the tables        *)
(* ---------------------------------------------------------------- *)
Lemma members_wf_inject : forall tbl cs og p ts,
    forallb (fun k => (is_nil cs || mem (cls_of k) cs) && wf tbl k) ts = true ->
    forallb (fun k => (is_nil cs || mem (cls_of k) cs) && wf tbl k) (inject_members tbl og p ts) = true.
Proof.
  intros tbl cs og p ts H. destruct og as [g|]; [|exact H]. simpl.
  rewrite forallb_forall in *. intros k' Hk'. apply in_map_iff in Hk'. destruct Hk' as [k [Ek Hk]].
  specialize (H k Hk). apply andb_prop in H. destruct H as [Hc Hw]. subst k'.
  destruct (admits tbl g (cls_of k)).
  - rewrite cls_of_set_rng. rewrite Hc. simpl. apply wf_set_rng. exact Hw.
  - rewrite Hc. exact Hw.
Qed.

Lemma kids_wf_inject : forall tbl fields fwd p kids,
    kids_wf tbl fields kids = true -> kids_wf tbl fields (inject_kids tbl fwd p kids) = true.
Proof.
  intros tbl fields fwd p kids H. unfold kids_wf, inject_kids in *.
  rewrite forallb_forall in *. intros fk' Hfk'. apply in_map_iff in Hfk'. destruct Hfk' as [fk [Efk Hfk]].
  specialize (H fk Hfk). rewrite inject_kids_entry in Efk. subst fk'. cbn [fst snd].
  destruct (assoc (fst fk) fields) as [cs|]; [|discriminate].
  apply members_wf_inject. exact H.
Qed.

Lemma wwf_getitem_state : forall tbl wt seed i w, wwf tbl wt w = true -> wwf tbl wt (getitem_state tbl wt seed i w) = true.
Proof.
  intros tbl wt seed i [c kids] H. unfold getitem_state. unfold wwf in H.
  destruct (wlookup wt c) as [d|] eqn:El; [|discriminate].
  unfold wwf. rewrite El. apply kids_wf_inject. exact H.
Qed.

Lemma wwf_run_history : forall tbl wt seed hist w, wwf tbl wt w = true -> wwf tbl wt (run_history tbl wt seed hist w) = true.
Proof.
  intros tbl wt seed hist. unfold run_history. induction hist as [|i hist IH]; intros w H; simpl; [exact H|].
  apply IH. apply wwf_getitem_state. exact H.
Qed.

(* ---------------------------------------------------------------- *)
(* one request: every draw comes from the per-item generator           *)
(* ---------------------------------------------------------------- *)
Lemma getitem_draws_pure : forall tbl wt,
    forallb (closed tbl) tbl = true ->
    forallb (wclosed tbl) wt = true ->
    forall w, wwf tbl wt w = true ->
    forall seed i q, In q (getitem_draws tbl wt seed i w) -> q = Inj (seed + i).
Proof.
  intros tbl wt Hc Hwc [c kids] Hwf seed i q Hq.
  unfold getitem_draws, getitem_state in Hq. unfold wwf in Hwf.
  destruct (wlookup wt c) as [d|] eqn:El; [|discriminate].
  rewrite El in Hq.
  destruct (wlookup_In _ _ _ El) as [Hd _].
  rewrite forallb_forall in Hwc. specialize (Hwc d Hd). unfold wclosed in Hwc.
  apply andb_prop in Hwc. destruct Hwc as [Hloc Hfields].
  apply in_app_or in Hq. destruct Hq as [Hq|Hq].
  - apply in_map_iff in Hq. destruct Hq as [l [El' Hl]].
    rewrite forallb_forall in Hloc. specialize (Hloc l Hl). destruct l; [symmetry; exact El'|discriminate].
  - unfold called_draws in Hq. apply in_flat_map in Hq. destruct Hq as [fk' [Hfk' Hq]].
    unfold inject_kids in Hfk'. apply in_map_iff in Hfk'. destruct Hfk' as [fk [Efk Hfk]].
    rewrite inject_kids_entry in Efk. subst fk'. cbn [fst snd] in Hq.
    destruct (mem (fst fk) (w_calls d)) eqn:Ecall; [|destruct Hq].
    apply mem_In in Ecall. rewrite forallb_forall in Hfields. specialize (Hfields _ Ecall).
    unfold wfield_ok in Hfields.
    unfold kids_wf in Hwf. rewrite forallb_forall in Hwf. specialize (Hwf fk Hfk).
    destruct (assoc (fst fk) (w_fields d)) as [cs|] eqn:Efld; [|discriminate].
    eapply (injected_members_draws tbl (Inj (seed + i)) cs (assoc (fst fk) (w_inject d)) (snd fk)); eauto.
    apply Forall_forall. intros k _ Hwk p q0 Hq0.
    eapply closed_table_deterministic_proof; eauto.
Qed.

(* the theorem of DESIGN.md: for EVERY history of earlier requests *)
Theorem seeded_wrapper_pure_proof : forall tbl wt,
    forallb (closed tbl) tbl = true ->
    forallb (wclosed tbl) wt = true ->
    forall w, wwf tbl wt w = true ->
    forall seed hist i q,
      In q (getitem_draws tbl wt seed i (run_history tbl wt seed hist w)) -> q = Inj (seed + i).
Proof.
  intros tbl wt Hc Hwc w Hwf seed hist i q Hq.
  eapply (getitem_draws_pure tbl wt Hc Hwc (run_history tbl wt seed hist w)); eauto.
  apply wwf_run_history. exact Hwf.
Qed.

(* whole access sequences: every draw made while serving index i (wherever i occurs in the sequence, however often)
   comes from the generator seeded with seed+i *)
Theorem access_sequence_pure_proof : forall tbl wt,
    forallb (closed tbl) tbl = true ->
    forallb (wclosed tbl) wt = true ->
    forall seed idxs w, wwf tbl wt w = true ->
    forall i q, In (i, q) (seq_draws tbl wt seed idxs w) -> q = Inj (seed + i).
Proof.
  intros tbl wt Hc Hwc seed idxs. induction idxs as [|j rest IH]; intros w Hwf i q Hin; simpl in Hin; [destruct Hin|].
  apply in_app_or in Hin. destruct Hin as [Hin|Hin].
  - apply in_map_iff in Hin. destruct Hin as [q' [E Hq']]. inversion E; subst.
    eapply getitem_draws_pure; eauto.
  - eapply IH; [|exact Hin]. apply wwf_getitem_state. exact Hwf.
Qed.

(* two copies of the wrapper with arbitrary slots (two independently constructed instances, the copies held by two
   dataloader workers) served in arbitrary, different orders draw item i from the same single stream *)
Theorem any_two_copies_agree_proof : forall tbl wt,
    forallb (closed tbl) tbl = true ->
    forallb (wclosed tbl) wt = true ->
    forall w1 w2, wwf tbl wt w1 = true -> wwf tbl wt w2 = true ->
    forall seed h1 h2 i q1 q2,
      In q1 (getitem_draws tbl wt seed i (run_history tbl wt seed h1 w1)) ->
      In q2 (getitem_draws tbl wt seed i (run_history tbl wt seed h2 w2)) ->
      q1 = q2.
Proof.
  intros tbl wt Hc Hwc w1 w2 H1 H2 seed h1 h2 i q1 q2 Hq1 Hq2.
  rewrite (seeded_wrapper_pure_proof tbl wt Hc Hwc w1 H1 seed h1 i q1 Hq1).
  rewrite (seeded_wrapper_pure_proof tbl wt Hc Hwc w2 H2 seed h2 i q2 Hq2). reflexivity.
Qed.

(* stacks of seeded layers *)
Theorem stack_pure_proof : forall tbl wt,
    forallb (closed tbl) tbl = true ->
    forallb (wclosed tbl) wt = true ->
    forall ls, layers_wf tbl wt ls = true ->
    forall seed i q, In (seed, i, q) (stack_seq_draws tbl wt ls) -> q = Inj (seed + i).
Proof.
  intros tbl wt Hc Hwc ls Hwf seed i q Hin. unfold stack_seq_draws in Hin.
  apply in_flat_map in Hin. destruct Hin as [[[s w] idxs] [Hl Hin]].
  unfold layers_wf in Hwf. rewrite forallb_forall in Hwf. specialize (Hwf _ Hl). cbn [fst snd] in Hwf.
  unfold layer_draws in Hin. apply in_map_iff in Hin. destruct Hin as [[i' q'] [E Hin]].
  cbn [fst snd] in E. inversion E; subst.
  eapply access_sequence_pure_proof; eauto.
Qed.

(* ---------------------------------------------------------------- *)
(* different indices, different streams                               *)
(* ---------------------------------------------------------------- *)
Theorem streams_distinct_proof : forall seed i j : Z, seed + i = seed + j -> i = j.
Proof. intros. lia. Qed.

Theorem no_stream_shared_between_indices_proof : forall tbl wt,
    forallb (closed tbl) tbl = true ->
    forallb (wclosed tbl) wt = true ->
    forall w1 w2, wwf tbl wt w1 = true -> wwf tbl wt w2 = true ->
    forall seed h1 h2 i j q,
      In q (getitem_draws tbl wt seed i (run_history tbl wt seed h1 w1)) ->
      In q (getitem_draws tbl wt seed j (run_history tbl wt seed h2 w2)) ->
      i = j.
Proof.
  intros tbl wt Hc Hwc w1 w2 H1 H2 seed h1 h2 i j q Hq1 Hq2.
  pose proof (seeded_wrapper_pure_proof tbl wt Hc Hwc w1 H1 seed h1 i q Hq1) as E1.
  pose proof (seeded_wrapper_pure_proof tbl wt Hc Hwc w2 H2 seed h2 j q Hq2) as E2.
  rewrite E1 in E2. inversion E2. lia.
Qed.

(* ---------------------------------------------------------------- *)
(* from "no open wrapper class" (vm_compute on the generated table) to closedness *)
(* ---------------------------------------------------------------- *)
Lemma wopen_nil_closed : forall tbl wt, wopen_classes tbl wt = [] -> forallb (wclosed tbl) wt = true.
Proof.
  unfold wopen_classes. intros tbl wt H. apply filter_negb_nil_forallb.
  destruct (filter (fun d => negb (wclosed tbl d)) wt); [reflexivity|discriminate].
Qed.
