"""C20 — copy_folder_from_global_to_local / copy_imagefolder_from_global_to_local are crash-safe and idempotent.

The REAL functions run in a throw-away sandbox directory.  The file-system-modifying primitives they reach
(os.mkdir / os.rmdir / os.unlink / os.rename / open(.., "w"|"wb") / file.write / os.sendfile, including the
ones inside pathlib, shutil.copytree, shutil.rmtree and ZipFile.extractall) are wrapped: every call that
succeeds on a path below the sandbox is recorded, and right after the k-th one a BaseException is raised --
the process "dies" between two operations -- or, `torn` cases, in the middle of the k-th one when it is a write
(half of its bytes are out).  A case is a history: some killed invocations, then two uninterrupted ones.  After
every invocation the sandbox is snapshotted.  The recorded operation sequences, snapshots and results are compared
with the Coq model (plan / run / crash prefix / torn write) and the independent Python oracle below states the
property on the snapshots alone.

Folder of zips with num_workers >= 2: joblib.Parallel.__call__ is wrapped to record the tasks it is handed (compared
with Model.unzip_jobs); the worker processes (loky, the default backend) are not traced, the final tree must be the
complete copy.  1..9 archives x num_workers 0..4 (zips_workers_matrix).

Thorough tier adds real SIGKILLs at system-call granularity: a child interpreter running the real function
under `strace -e inject=<syscall>:signal=SIGKILL:when=<n>` is killed on entry to its n-th mkdir / openat /
write / sendfile / unlink / rmdir / rename below the destination; a fresh process then runs the function
to completion.  The strace log of the child (-y -xx) is turned into the same event format as the tracer's
(strace_events) and goes through the same Coq comparison: system calls observed vs. the model's plan.

Measurement-only cases (measure_cases; nothing is claimed, results appear as `measure=...` keys of the evidence
histogram): sources with marker-named entries, links that cannot be followed, two concurrent copiers."""
import json
import os
import random
import shutil
import subprocess
import sys
import tempfile
import zipfile

from .common import C, Nat, Opt, Raw, Rec, coq

ID = "C20"
COQ_FILES = ["C20/Model.v", "C20/Spec.v", "C20/Check.v", "C20/Proofs.v", "C20/CrossFs.v", "C20/Property.v"]
COQ_PRELUDE = ("From Coq Require Import ZArith List String Bool.\nImport ListNotations.\n"
               "From KD Require Import C20.Model C20.Spec C20.Check.\nOpen Scope Z_scope.\n")
COQ_CHECK = "check"
COQ_CASE_TYPE = "case_t"
SHARD = 60
TRUSTED = [
    "hand-written model coq/C20/Model.v of copy_folder_from_global_to_local, copy_imagefolder_from_global_to_local, "
    "create_folder_with_file, delete_folder_content, folder_contains_mostly_zips, run_unzip_jobs (the partition of the "
    "zips into joblib tasks: unzip_jobs; their concurrent execution: interleave with a schedule oracle) with both C20 "
    "patches applied; tied to KD_REPO by this run's comparison of operation traces, joblib task lists, trees and results",
    "cited behaviour of the primitives the code calls: Path.mkdir(parents, exist_ok), shutil.copytree(dirs_exist_ok) "
    "(pre-order, copy2 = create + one write, nothing written for an empty file, symbolic links are followed), "
    "shutil.rmtree (post-order), ZipFile.extractall (makedirs of missing parents, then the member), os.rename of a "
    "directory is atomic -- the Python-level sequence is exercised against the real stdlib on every case, in the thorough "
    "tier also at system-call level (strace log -> events -> Coq comparison); atomicity of rename(2) is assumed",
    "process death only: what a completed system call wrote is there afterwards (no power loss / fsync reasoning); "
    "a kill inside a write is modelled as 'the first n bytes are out' for arbitrary n (attempt.a_torn, Model.tear; "
    "exercised by the in-process tracer, which lets half of the bytes of a write through before the simulated death -- "
    "strace cannot tear a write); other system calls are atomic; a kill of the calling process is assumed to kill joblib's worker processes with it (orphaned loky workers "
    "that go on extracting after the parent died are a case of concurrent writers, outside the model)",
    "path arithmetic (relative_path, zip_path_of = '<src_path>.zip', stripping of a '.zip' relative_path in image_folder.py) "
    "is done by the harness (the archive is written to <global>/<relative_path>.zip, the model receives its members and "
    "dst_path); that the code reads THAT archive is checked by the comparison of the destination with it (decoy archives)",
    "num_workers >= 2 (joblib/loky worker processes): the calling process's operations, the list of tasks handed to "
    "joblib.Parallel (recorded by wrapping Parallel.__call__, compared with Model.unzip_jobs), the final tree and the "
    "result are checked; the operations inside the worker processes are not traced -- the model runs them under the "
    "schedule [] and the comparison of the final tree relies on extraction_order_irrelevant / "
    "parallel_extraction_is_a_permutation (any schedule yields the same tree).  The schedule oracle interleaves whole "
    "member extractions of different tasks in any order (not limited by num_workers, a superset of what joblib does); "
    "system-call-level interleavings inside two member extractions are not modelled: members of different tasks "
    "write different paths, they can only meet in a shared parent directory, where ZipFile's check-then-makedirs race "
    "makes a call RAISE FileExistsError (not return) -- the generated archives of one folder have disjoint directories",
    "harness/c20.py: Tracer (operation wrappers), sandbox construction, snapshotting; thorough tier: strace 6.1 fault "
    "injection delivers SIGKILL on syscall entry (checked on every run: the call is absent afterwards); there the "
    "kappadata package __init__ is bypassed (only kappadata.copying.* and kappadata.utils.logging are loaded from the "
    "real files) to keep one kill below a second; strace_events (log -> events: one event per completed mkdir / "
    "openat(O_CREAT) / write / sendfile / unlink(at) / rmdir / rename below the sandbox)",
    "Check.complete_copyb is proved sound (complete_copyb_sound); Check.spec_step is the executable reading of the "
    "theorems on the implementation's observations; Check.split3 cuts the model's plan into calling process / workers / "
    "end marker by operation counts",
    "measurement-only cases (feature keys `measure=...`: marker-named entries in the source, links that cannot be "
    "followed, two concurrent copiers) are outside the domain: they are run and "
    "recorded, the oracle claims nothing",
    "cross-format agreement: the plain / zip / zips sources of one logical tree are written by the harness (sources_of); the "
    "oracle first checks that each describes exactly that tree (expected_content == flatten_tree(logical)) and then compares "
    "the destination with it, so the three formats are compared with one another through the tree",
]
ASSUMPTIONS = [
    "before the first call the destination either does not exist (and the sibling name <dst>.autocopy_tmp is unused) "
    "or is a user-provided folder without autocopy_start.txt; the same arguments are used by every call of a history",
    "the source does not change during a history; sibling names / zip member names are distinct, no zip member is "
    "both a file and a directory prefix (src_ok)",
    "EXCLUDED: sources with an entry named autocopy_start.txt / autocopy_end.txt directly inside (Spec.src_ok requires "
    "src_lookup [sname] = src_lookup [ename] = None).  Measured on every run (histogram keys "
    "`measure=marker_named_source`): with such a source the real code DOES return over an incomplete copy for some "
    "kill points (the source's own autocopy_end.txt is copied before the rest; see fixes/C20_marker_named_source.txt)",
    "directory listings (hypothesis attempts_ok of crash_safe / start_marker_invariant / completed_copy_never_redone / "
    "other_files_untouched, and order_in_dst / order_covers for the call that returns): every directory scan of "
    "delete_folder_content / rmtree returns only entries below the destination; a call that gets as far as creating the "
    "end marker -- in particular the one that returns -- has seen EVERY entry that was in the destination when it "
    "started.  Calls killed earlier may have seen any part of the listing (killed_before_end_marker_needs_no_honest_"
    "listing); the stronger 'every call sees an honest listing' implies it (honest_listings_suffice)",
    "file systems: the model's Rename is ATOMIC - an assumption that holds for rename(2) between two names in ONE directory "
    "(siblings are on one file system).  Across file systems a rename / shutil.move is copy + delete and NOT atomic "
    "(coq/C20/CrossFs.v, theorem move_across_file_systems_is_not_atomic: killed after the first operation of the fallback, "
    "any state without dst has become one where dst exists without its start marker); the "
    "code is therefore required to rename only between siblings: the oracle rejects every recorded rename whose source and "
    "destination are not in the same directory (or one of them outside the sandbox), and the crash-point histories are also "
    "run with local_path and the default temporary directory ($TMPDIR / tempfile.gettempdir()) on DIFFERENT file systems "
    "(case key xfs: `local` = sandbox on the second file system found among /dev/shm, /run/user/<uid>, /var/tmp, /run, $HOME, "
    "cwd, temporary directory on the default one; `tmpdir` = the reverse; `sim` = one file system, os.rename / os.replace "
    "between different directories fail with EXDEV - also the fallback when the machine has no second writable file system)",
    "one process at a time works on a destination.  NOT covered: two concurrent copiers -- the model itself refutes the "
    "property there (theorem concurrent_copiers_are_not_covered: A returns was_copied=True with a file missing that B "
    "deleted) and the real code is measured on every run (histogram keys `measure=concurrent_copiers`: with a start "
    "offset of a few ms one process returns normally over an incomplete destination that stays sealed by the end marker)",
    "num_workers >= 2: a kill of the calling process is assumed to end its joblib workers at the same instant (a kill of "
    "the whole job / process group / cgroup); an OSError inside a worker makes the call raise.  NOT covered: SIGKILL of "
    "the calling process alone -- measured once by hand (2 zips x 6000 files, 2 workers): the orphaned loky workers "
    "finish their current unzip task (401 -> 12001 files within 1 s after the parent's death) before they exit; a call "
    "started meanwhile works concurrently with them (same bytes are written, but see the concurrent-copiers item)",
    "names: any string without '/' and NUL other than '.' and '..', at most 255 bytes, valid UTF-8 (zipfile cannot store other "
    "names).  EXCLUDED: names ending in '.zip' inside a plain source / as member of an archive at top level are only generated in "
    "the directed 'stray.zip' form (the source format is decided by that suffix: folder_contains_mostly_zips); case-insensitive "
    "or normalising file systems (the sandbox is on the local Linux file system).  The single-zip form of a source is "
    "<src_path>.zip - also when the last component of relative_path contains dots (fixes/C20_dotted_relative_path.patch; "
    "generated: 'ds.v2', 'a.b/ds.v1.5', 'v.1/my ds..x', with and without an unrelated archive under the name with_suffix('.zip') "
    "would have produced)",
    "symbolic links in a plain source are followed (shutil.copytree default) for EVERY num_workers: the copy holds the "
    "content the link points to - links to files and to directories, to targets inside the source tree and outside of it, "
    "written as relative or absolute paths, at the top level and nested (generated without loops: a linked-to directory "
    "holds no link that leads back); links that cannot be followed (dangling, loops) make every call raise shutil.Error (measured: "
    "`measure=dangling_symlink`, `measure=symlink_loop`) -- the call never returns normally, nothing is claimed",
    "a folder of zips yields the union of the archives' members; other files in it (README) are not copied (by design "
    "of folder_contains_mostly_zips)",
]
ALLOWED_AXIOMS = []
RULE = ("names: 40% of the random trees and all cross-format trees draw file / directory names from a rich alphabet (harness "
        "NAME_CLASSES + random strings: consecutive / leading / trailing dots, spaces / tab / newline, non-ASCII (UTF-8, NFD, RTL "
        "mark), 255-byte names, siblings equal up to case, names containing 'autocopy', marker names below the top level, quotes / "
        "backslash / shell metacharacters), nesting up to 6, empty directories; cross-format: one logical tree (2 directed + 6 random, "
        "thorough 40) as plain folder, single zip and folder of zips for both functions, each judged against the SAME tree "
        "(uninterrupted and with 1-2 killed calls before), relative_path also with spaces and dots (dotted last component with a "
        "single-zip source: with / without a decoy archive named like the relative_path cut at its last dot); "
        "cross-file-system crash points (xfs_cases): the directed configurations (both functions x plain / zip / zips) with "
        "local_path and the default temporary directory on different file systems (local on /dev/shm | TMPDIR on /dev/shm | "
        "simulated EXDEV; quick: one mode per configuration, thorough: all three): every kill point of the first call and kill "
        "points of a call over an interrupted copy; 3 corpus cases pin the window of create_folder_with_file; every recorded "
        "rename must be between siblings.  plain_links_matrix: plain sources with symbolic links to directories / files, inside / "
        "outside the tree, relative / absolute, top level / nested (directed tree with all kinds + random ones) x num_workers "
        "0..4 x both functions; random plain sources draw num_workers from 0..4 too and hold such links in 35% of the cases; "
        "sources: random trees (depth <= 3, empty files, empty directories, now and then a symbolic link to a sibling) as "
        "plain folder / single zip / folder of zips (+ README), for both functions, relative_path none / 'ds' / 'a/ds' "
        "(image: also 'ds.zip'), local root present or absent, destination fresh or a manual folder; histories: EVERY kill "
        "point k of the first call for directed and sampled configurations (this includes the kill between creating and "
        "writing the end marker), kills INSIDE every write of >= 2 bytes (half of the bytes are out: data files, start "
        "marker, end marker), every kill point of a second call over an interrupted first one (the wipe), random 2-3 "
        "successive kills; always followed by two uninterrupted calls.  Folder of zips x num_workers: 1..9 archives x "
        "num_workers 0..4 -- all 45 combinations for both functions in the thorough tier, all archive counts x "
        "num_workers {0, 1, two of 2..4} in the quick tier -- uninterrupted and with killed calls before.  "
        "zips_ratio_matrix: directory sources with k archives and m other files for every (k, m), k in 1..3 (thorough 0..5), m in "
        "0..k+3, i.e. on both sides of the 'mostly zips' boundary (archives >= 1 and >= floor(n/2) of the n entries <=> m <= k+1), "
        "both functions; the oracle classifies the source by that documented rule on its own (rule_mostly_zips) and wants every "
        "archive extracted and source_format 'zips' / was_zip_classwise, or the directory copied verbatim and 'raw'.  Thorough: "
        "every file-system system call of a fresh copy / of a copy over an interrupted one SIGKILLed on entry under "
        "strace, and the uninterrupted call under strace, the system-call log compared with the model's plan in Coq.  "
        "Non-trivial = at least one killed invocation that had performed an operation, or a multi-worker extraction; "
        "distinct by (function, format, rel, init, kill points, workers, state class at each kill)")

SNAME = "autocopy_start.txt"
ENAME = "autocopy_end.txt"
START_TEXT = b"this file indicates that an attempt to copy the dataset automatically was started"
END_TEXT = b"this file indicates that copying the dataset automatically was successful"


# ---------------------------------------------------------------------------
# the operation tracer
# ---------------------------------------------------------------------------
class Kill(BaseException):
    """the simulated death of the process"""


class Tracer:
    """wraps the file-system-modifying primitives; records every successful one on a path below root; raises Kill
    right after the kill_at-th recorded operation"""
    P1 = [("mkdir", "mkdir"), ("rmdir", "rmdir"), ("unlink", "unlink"), ("remove", "unlink"), ("truncate", "truncate")]
    P2 = [("rename", "rename"), ("replace", "rename"), ("symlink", "symlink"), ("link", "link")]

    def __init__(self, root, kill_at=None, torn=False, exdev=False):
        self.root = os.path.realpath(root)
        # exdev: SIMULATED second file system (for sandboxes without one): os.rename / os.replace between two different
        # directories fail with EXDEV like rename(2) across file systems does; renames between siblings work
        self.exdev = exdev
        self.kill_at = kill_at
        self.torn = torn         # the kill_at-th operation, if it is a write of >= 2 bytes, only gets half of them out
        self.torn_n = None       # ... the number of bytes that were written in that case
        self.ops = []
        self.dead = False
        self.zombie = []
        self.pools = []          # one entry per joblib.Parallel call: {"n_jobs": .., "jobs": [[function name, [zip names]]]}
        self._saved = {}

    def _rel(self, p, dir_fd=None):
        p = os.fspath(p)
        if isinstance(p, bytes):
            p = os.fsdecode(p)
        if dir_fd is not None and not os.path.isabs(p):
            p = os.path.join(os.readlink(f"/proc/self/fd/{dir_fd}"), p)
        p = os.path.abspath(p)
        if p == self.root:
            return []
        if p.startswith(self.root + os.sep):
            return p[len(self.root) + 1:].split(os.sep)
        return None

    def _pre(self, what):
        if self.dead:
            self.zombie.append(what)
            raise Kill("operation after death: %r" % (what,))

    def _post(self, op):
        self.ops.append(op)
        if self.kill_at is not None and len(self.ops) >= self.kill_at:
            self.dead = True
            raise Kill(f"killed after operation {len(self.ops)}")

    def _wrap1(self, name, tag):
        real = self._saved[name]

        def w(path, *a, dir_fd=None, **kw):
            rel = self._rel(path, dir_fd)
            if dir_fd is not None:
                kw["dir_fd"] = dir_fd
            if rel is None:
                return real(path, *a, **kw)
            self._pre([tag, rel])
            r = real(path, *a, **kw)
            self._post([tag, rel])
            return r
        return w

    def _wrap2(self, name, tag):
        real = self._saved[name]

        def w(src, dst, *a, **kw):
            r1, r2 = self._rel(src), self._rel(dst)
            if self.exdev and tag == "rename" and (os.path.dirname(os.path.abspath(os.fsdecode(os.fspath(src))))
                                                   != os.path.dirname(os.path.abspath(os.fsdecode(os.fspath(dst))))):
                import errno
                raise OSError(errno.EXDEV, "Invalid cross-device link (simulated)", os.fspath(src), None, os.fspath(dst))
            if r1 is None and r2 is None:
                return real(src, dst, *a, **kw)
            self._pre([tag, r1, r2])
            r = real(src, dst, *a, **kw)
            self._post([tag, r1, r2])
            return r
        return w

    def _open(self, file, mode="r", *a, **kw):
        real = self._saved["open"]
        if isinstance(file, int) or not any(ch in mode for ch in "wax+"):
            return real(file, mode, *a, **kw)
        rel = self._rel(file)
        if rel is None:
            return real(file, mode, *a, **kw)
        self._pre(["create", rel])
        f = real(file, mode, *a, **kw)
        try:
            self._post(["create", rel])
        except Kill:
            f.close()
            raise
        return _FileProxy(self, f, rel)

    def _sendfile(self, out_fd, in_fd, offset, count, *a, **kw):
        real = self._saved["sendfile"]
        rel = self._rel(os.readlink(f"/proc/self/fd/{out_fd}"))
        if rel is None:
            return real(out_fd, in_fd, offset, count, *a, **kw)
        self._pre(["write", rel])
        if self.tearing():
            size = os.fstat(in_fd).st_size - (offset or 0)
            if size >= 2:
                count = self.torn_n = size // 2
        n = real(out_fd, in_fd, offset, count, *a, **kw)
        if n > 0:
            self._post(["write", rel, list(os.pread(in_fd, n, offset))])
        return n

    def tearing(self):
        return self.torn and self.kill_at is not None and len(self.ops) + 1 == self.kill_at

    def __enter__(self):
        import builtins
        import io
        for n, _ in self.P1 + self.P2:
            self._saved[n] = getattr(os, n)
        self._saved["sendfile"] = os.sendfile
        self._saved["open"] = builtins.open
        for n, tag in self.P1:
            setattr(os, n, self._wrap1(n, tag))
        for n, tag in self.P2:
            setattr(os, n, self._wrap2(n, tag))
        os.sendfile = self._sendfile
        builtins.open = self._open
        io.open = self._open
        import joblib
        self._saved["parallel_call"] = joblib.Parallel.__call__
        tracer = self

        def parallel_call(pool, iterable):
            jobs = list(iterable)
            tracer.pools.append({"n_jobs": pool.n_jobs, "jobs": [[getattr(j[0], "__name__", "?"), _zip_names(j[1:])]
                                                                  for j in jobs]})
            return tracer._saved["parallel_call"](pool, jobs)
        joblib.Parallel.__call__ = parallel_call
        return self

    def __exit__(self, *exc):
        import builtins
        import io
        for n, f in self._saved.items():
            if n == "open":
                builtins.open = f
                io.open = f
            elif n == "parallel_call":
                import joblib
                joblib.Parallel.__call__ = f
            else:
                setattr(os, n, f)
        return False


def _zip_names(x):
    """the names of the *.zip files mentioned anywhere in the arguments of a joblib task, in order"""
    out = []
    if isinstance(x, (str, os.PathLike)):
        nm = os.path.basename(os.fspath(x))
        if nm.endswith(".zip"):
            out.append(nm)
    elif isinstance(x, dict):
        for v in x.values():
            out += _zip_names(v)
    elif isinstance(x, (list, tuple)):
        for v in x:
            out += _zip_names(v)
    return out


class _FileProxy:
    def __init__(self, tr, f, rel):
        self.__dict__["_tr"] = tr
        self.__dict__["_f"] = f
        self.__dict__["_rel"] = rel

    def write(self, data):
        if len(data) == 0:
            return self._f.write(data)
        self._tr._pre(["write", self._rel])
        if self._tr.tearing() and len(data) >= 2:
            data = data[:len(data) // 2]
            self._tr.torn_n = len(data)
        n = self._f.write(data)
        self._f.flush()
        b = data.encode() if isinstance(data, str) else bytes(data)
        self._tr._post(["write", self._rel, list(b)])
        return n

    def __getattr__(self, k):
        return getattr(self._f, k)

    def __enter__(self):
        self._f.__enter__()
        return self

    def __exit__(self, *a):
        return self._f.__exit__(*a)

    def __iter__(self):
        return iter(self._f)


# ---------------------------------------------------------------------------
# sources
# ---------------------------------------------------------------------------
FILES = ["a.txt", "b.bin", "c", "d.dat", "e.jpg", "f"]
DIRS = ["sub", "x", "deep", "emptydir", "y"]

# ---- names: a file / directory name is ANY string without "/" and NUL other than "." and ".." (at most 255 bytes) ----
NAME_CLASSES = {
    "consecutive-dots": ["take..2.wav", "a...b", "v1..v2", "x..", "..y", "1..2..3", "...", "...."],
    "leading-dot": [".gitkeep", ".env", "..hidden", ".a.b", ". x"],
    "trailing-dot": ["trailing..", "x.", "end. ", "name.txt."],
    "space": [" lead", "trail ", "two  spaces.txt", "sp ace.bin", " ", "  "],
    "unicode": ["\u00e9.txt", "\u65e5\u672c\u8a9e.dat", "na\u00efve file.txt", "emoji\U0001f600.bin", "\u00c4\u00d6\u00dc", "e\u0301.txt",
                "\u202eright-to-left", "\u00a0nbsp"],
    "long": ["L" * 255, "l" * 200 + ".bin", "\u00e9" * 127, "d" * 120],
    "case": ["A.TXT", "a.TXT", "A.txt", "README", "readme", "ReadMe", "SUB", "Sub"],
    "autocopy-like": ["autocopy_start.txt.bak", "autocopy_end.txt~", "my_autocopy_end.txt", "AUTOCOPY_END.TXT", "autocopy",
                      "autocopy_end", ".autocopy_tmp", "x.autocopy_tmp", "autocopy_start.txt ", "autocopy_end.TXT",
                      "autocopy_start", "1autocopy_end.txt"],
    "special": ["a\\b.txt", 'q"uote.txt', "it's", "tab\tname", "new\nline", "semi;colon", "$HOME", "~", "-rf", "*", "?.txt", "a:b",
                "%41", "x.ZIP", "zip", "a.zip.bak", "#hash", "&amp;", "(paren)", "[br]", "{c}", "a|b", "<lt>", "`bq`", "!bang", "=eq",
                "@at", "^c", ",comma", "+plus"],
}
NAME_ALPHABET = (list("abcXYZ019") + [".", ".", ".", " ", " ", "_", "-", "\u00e9", "\u00df", "\u65e5", "\U0001f600", "~", "$", "'", '"',
                                       "\\", "(", "]", "%", "#", "&", ";", ",", "+", "=", "@", "!", "^", "`", "{", "\t", "*", "?", ":"])


def name_ok(nm, top=False):
    """a legal name that keeps the case inside the domain of the property: not a marker name directly inside the source, no
    '.zip' suffix (the format of a source is decided by that suffix: folder_contains_mostly_zips)"""
    if nm in ("", ".", "..") or "/" in nm or "\0" in nm or len(nm.encode()) > 255 or nm.endswith(".zip"):
        return False
    return not (top and nm in (SNAME, ENAME))


def gen_name(rng, used, top=False):
    """a name from the rich alphabet that is distinct (as a byte string - names differing only in case ARE distinct) from
    the names in `used`"""
    for _ in range(50):
        r = rng.random()
        if used and r < 0.12:
            nm = rng.choice(sorted(used)).swapcase()                  # equal up to case
        elif r < 0.6:
            nm = rng.choice(NAME_CLASSES[rng.choice(sorted(NAME_CLASSES))])
        elif r < 0.65 and not top:
            nm = rng.choice([SNAME, ENAME])                            # marker names are ordinary names below the top level
        else:
            nm = "".join(rng.choice(NAME_ALPHABET) for _ in range(rng.choice([1, 2, 3, 5, 8, 12])))
        if name_ok(nm, top) and nm not in used:
            return nm
    return "n%d" % len(used)


def name_classes(nm):
    out = []
    if ".." in nm:
        out.append("consecutive-dots")
    if nm.startswith("."):
        out.append("leading-dot")
    if nm.endswith("."):
        out.append("trailing-dot")
    if " " in nm or "\t" in nm or "\n" in nm:
        out.append("whitespace")
    if any(ord(ch) > 127 for ch in nm):
        out.append("unicode")
    if len(nm.encode()) >= 120:
        out.append("long")
    if "autocopy" in nm.lower():
        out.append("autocopy-like")
    if any(ch in nm for ch in "\\\"'$~*?:;&|<>`!#%"):
        out.append("shell-special")
    return out


def gen_tree(rng, depth, tag="", rich=None, top=True, budget=700):
    """[[name, {"f": bytes} | {"d": children}]] with distinct names; rich: names from the rich alphabet (gen_name) instead
    of the fixed lists.  budget: bytes a path below this directory may still use (PATH_MAX)"""
    rich = (rng.random() < 0.4) if rich is None else rich
    n = rng.choice([1, 2, 2, 3, 3, 4]) if depth > 0 else rng.choice([0, 1, 2])
    out = []
    if rich:
        used = set()

        def fresh():
            for _ in range(20):
                nm = gen_name(rng, used, top)
                if name_ok(nm + tag, top) and len((nm + tag).encode()) + 1 <= budget:
                    used.add(nm)
                    return nm + tag
            nm = "n%d" % len(used)
            used.add(nm)
            return nm + tag
        names = [fresh() for _ in range(n)]
        dnames = [fresh() for _ in range(rng.choice([0, 1, 1, 2]))] if depth > 0 else []
    else:
        names = [nm + tag for nm in rng.sample(FILES, min(n, len(FILES)))]
        dnames = [dn + tag for dn in rng.sample(DIRS, rng.choice([0, 1, 1, 2]))] if depth > 0 else []
    for nm in names:
        out.append([nm, {"f": [rng.randrange(256) for _ in range(rng.choice([0, 0, 1, 2, 3, 6]))]}])
    for dn in dnames:
        sub = (gen_tree(rng, depth - 1 if rng.random() < 0.7 else 0, rich=rich, top=False, budget=budget - len(dn.encode()) - 1)
               if rng.random() < 0.8 else [])
        out.append([dn, {"d": sub}])
    rng.shuffle(out)
    return out


def gen_logical_tree(rng, dirs_only_top):
    """a rich tree for the cross-format cases: deep nesting (up to 6), empty directories, empty files; dirs_only_top: every
    top-level entry is a non-empty directory (the form an image folder has: one directory per class)"""
    if not dirs_only_top:
        t = gen_tree(rng, rng.choice([1, 2, 3, 4]), rich=True)
        if rng.random() < 0.4:                                       # a chain of nested directories
            used = {nm for nm, _ in t}
            node = [[gen_name(rng, set()), {"f": [7]}]]
            for _ in range(rng.choice([3, 4, 5])):
                node = [[gen_name(rng, set()), {"d": node}]]
            if node[0][0] not in used and name_ok(node[0][0], True):
                t.append(node[0])
        return t or [[gen_name(rng, set(), True), {"f": [1]}]]
    used, out = set(), []
    for _ in range(rng.choice([1, 2, 3])):
        dn = gen_name(rng, used, True)
        while len(dn.encode()) > 240:                                # the archive of the class is named <dn>.zip
            dn = gen_name(rng, used, True)
        used.add(dn)
        sub = gen_tree(rng, rng.choice([0, 1, 2]), rich=True, top=False, budget=700 - len(dn.encode()))
        out.append([dn, {"d": sub or [[gen_name(rng, set()), {"f": []}]]}])
    return out


def flatten_tree(tree, pre=()):
    out = {}
    for nm, node in tree:
        if "f" in node:
            out[pre + (nm,)] = bytes(node["f"])
        else:
            out[pre + (nm,)] = None
            out.update(flatten_tree(node["d"], pre + (nm,)))
    return out


def sources_of(rng, tree, variant, archive_names=None):
    """the three source formats of ONE logical tree (None where the format cannot hold it: an image folder of zips is one
    archive per top-level directory)"""
    out = {"plain": {"tree": tree}, "zip": {"members": tree_members(tree, rng)}}
    if variant == "folder":
        k = rng.choice([1, 2, 3])
        parts = [[] for _ in range(k)]
        for ent in tree:
            parts[rng.randrange(k)].append(ent)
        names = archive_names or ["part %d..zip" % i if i % 2 else "p%d.zip" % i for i in range(k)]
        items = [[names[i], {"zip": tree_members(parts[i], rng)}] for i in range(k)]
        if rng.random() < 0.4:
            items.append(["READ..ME", {"f": [82, 69]}])
        out["zips"] = {"items": items}
    elif all("d" in node and node["d"] for _, node in tree):
        out["zips"] = {"items": [[nm + ".zip", {"zip": tree_members(node["d"], rng)}] for nm, node in tree]}
    else:
        out["zips"] = None
    return out


def tree_members(tree, rng, pre=()):
    """zip members of a tree: files, explicit directory entries for empty directories and (randomly) others"""
    out = []
    for nm, node in tree:
        p = list(pre) + [nm]
        if "f" in node:
            out.append([p, node["f"]])
        else:
            sub = tree_members(node["d"], rng, p)
            if not sub or rng.random() < 0.4:
                out.append([p, None])
            out += sub
    return out


def gen_source(rng, fmt, variant):
    if fmt == "plain":
        t = gen_tree(rng, rng.choice([1, 2, 2, 3]))
        if not t:
            t = [["a.txt", {"f": [1]}]]
        u = rng.random()
        if u < 0.15:
            # a symbolic link to a sibling file or directory (copytree follows it)
            nm, node = rng.choice(t)
            if len(nm.encode()) < 240:
                t.append(["link_" + nm, {"l": nm}])
            rng.shuffle(t)
        elif u < 0.5:
            # links to files and directories inside and outside of the source tree, relative and absolute, at any depth
            ext = gen_tree(rng, rng.choice([1, 2])) or [["one.txt", {"f": [49]}]]
            add_links(rng, t, ext, rng.choice([1, 2, 3]))
            return {"tree": t, "ext": ext}
        return {"tree": t}
    if fmt == "zip":
        ms = tree_members(gen_tree(rng, rng.choice([1, 2, 2])), rng)
        if rng.random() < 0.5:
            rng.shuffle(ms)
            # a directory entry may come after its content, but keep parents-before-children irrelevant: any order
        return {"members": ms}
    nz = rng.choice([1, 2, 2, 3])
    items = []
    for i in range(nz):
        tag = "" if variant == "image" else str(i)
        ms = tree_members(gen_tree(rng, rng.choice([0, 1, 1, 2]), tag), rng)
        items.append([f"n{i}.zip", {"zip": ms}])
    if rng.random() < 0.4 and nz >= 1:
        items.append(["README", {"f": [82, 69]}])
        if nz >= 2 and rng.random() < 0.5:
            items.append(["LICENSE.txt", {"f": []}])
    rng.shuffle(items)
    return {"items": items}


def _dirs_of(tree, pre=()):
    yield pre, tree
    for nm, node in tree:
        if "d" in node:
            yield from _dirs_of(node["d"], pre + (nm,))


def _nodes_of(tree, pre=()):
    for nm, node in tree:
        if "l" in node:
            continue
        yield pre + (nm,), node
        if "d" in node:
            yield from _nodes_of(node["d"], pre + (nm,))


def add_links(rng, tree, ext, n):
    """adds up to n symbolic links (in place) at random directories of the tree: to a file or a directory, inside the tree
    or in the tree `ext` outside of the source, written as absolute or relative path.  No loops: a directory that is the
    target of a link gets no links below it, and a directory with a link below it is not chosen as a target"""
    frozen, linked, added = [], [], 0
    for i in range(4 * n):
        if added >= n:
            break
        where = rng.choice(["in", "in", "ext"])
        want_dir = rng.random() < 0.6
        locs = [(p, ch) for p, ch in _dirs_of(tree) if not any(p[:len(f)] == f for f in frozen)]
        if not locs:
            break
        loc, children = rng.choice(locs)
        if where == "in":
            cands = [(p, nd) for p, nd in _nodes_of(tree) if ("d" in nd) == want_dir
                     and not any(l[:len(p)] == p for l in linked + [loc])]
        else:
            cands = [(p, nd) for p, nd in _nodes_of(ext) if ("d" in nd) == want_dir]
        if not cands:
            continue
        tp, tnode = rng.choice(cands)
        nm = rng.choice(["ln%d", "link %d", ".l%d", "l..%d"]) % i
        if any(x[0] == nm for x in children):
            continue
        children.insert(rng.randrange(len(children) + 1), [nm, {"l": {"where": where, "path": list(tp),
                                                                     "abs": rng.random() < 0.4}}])
        linked.append(loc)
        if where == "in" and "d" in tnode:
            frozen.append(tp)
        added += 1
    return added


def prune_links(src):
    """removes structured links whose target no longer exists (after shrinking), repeatedly"""
    def find(tree, comps):
        for nm, node in tree:
            if nm == comps[0] and "l" not in node:
                return True if len(comps) == 1 else ("d" in node and find(node["d"], comps[1:]))
        return False

    def prune(tree):
        out = []
        for nm, node in tree:
            if "l" in node and isinstance(node["l"], dict):
                L = node["l"]
                if not find(src.get("ext") or [] if L["where"] == "ext" else src["tree"], L["path"]):
                    continue
            out.append([nm, {"d": prune(node["d"])}] if "d" in node else [nm, node])
        return out
    return {**src, "tree": prune(src["tree"])}


def has_links(tree):
    return any("l" in node or ("d" in node and has_links(node["d"])) for _, node in tree)


def link_kinds(src):
    """feature keys: which kinds of links a plain source holds"""
    out = set()

    def find(tree, comps):
        for nm, node in tree:
            if nm == comps[0]:
                return node if len(comps) == 1 else find(node.get("d", []), comps[1:])
        return None

    def walk(tree, depth):
        for nm, node in tree:
            if "l" in node:
                L = node["l"]
                if isinstance(L, dict):
                    t = find(src.get("ext") or [] if L["where"] == "ext" else src["tree"], L["path"])
                    out.add("link:%s-%s-%s%s" % ("dir" if t and "d" in t else "file", "inside" if L["where"] == "in" else
                                                 "outside", "abs" if L["abs"] else "rel", "" if depth == 0 else "-nested"))
                else:
                    out.add("link:sibling")
            elif "d" in node:
                walk(node["d"], depth + 1)
    walk(src.get("tree") or [], 0)
    return sorted(out)


def zips_source(rng, variant, nz):
    """a folder of exactly nz zips (1-3 small members each, now and then an empty archive), sometimes with a README;
    member names of different archives are disjoint (folder.py extracts them all into the same directory)"""
    items = []
    for i in range(nz):
        tag = "" if variant == "image" else str(i)
        ms = tree_members(gen_tree(rng, rng.choice([0, 0, 0, 1]), tag), rng)
        if not ms and rng.random() < 0.8:
            ms = [[["a" + tag + ".txt"], [65 + i]]]
        items.append([f"n{i:02d}.zip", {"zip": ms}])
    if rng.random() < 0.3:
        items.append(["README", {"f": [82, 69]}])
    rng.shuffle(items)
    return {"items": items}


def rule_mostly_zips(names):
    """the documented rule, stated independently of the code ("check if subfolders are zips (allow files such as a README
    inside the folder)"): a directory source is a FOLDER OF ZIPS iff it holds at least one *.zip entry and the *.zip entries
    are at least floor(n / 2) of its n entries; otherwise it is a plain folder that is copied verbatim"""
    names = list(names)
    k = sum(1 for nm in names if nm.endswith(".zip"))
    return k >= 1 and 2 * k + 1 >= len(names)          # k >= floor(n / 2)  <=>  2k + 1 >= n


def zips_is_plain(case):
    """a "zips"-shaped source (archives + other files in one directory) that the rule classifies as a PLAIN folder"""
    return case["fmt"] == "zips" and not rule_mostly_zips(nm for nm, _ in case["src"]["items"])


def expected_content(case, seen=None):
    """independent description of what a complete copy contains: {relative path tuple: None (dir) | bytes}
    seen = the listing of the source directory (obs["src"]["dir"]): only used for the BYTES of archives that have to be
    copied verbatim (zipfile stamps the time into them when the sandbox is built)"""
    out = {}
    src = case["src"]
    if zips_is_plain(case):
        seen = dict((nm, node) for nm, node in (seen or []))
        for nm, it in src["items"]:
            if "zip" in it:
                out[(nm,)] = bytes(seen[nm]["f"]) if nm in seen and "f" in seen[nm] else b"<archive missing in the source>"
            else:
                out[(nm,)] = bytes(it["f"])
        return out

    def add_member(pre, p, data):
        full = tuple(pre) + tuple(p)
        for i in range(1, len(full)):
            out.setdefault(full[:i], None)
        out[full] = None if data is None else bytes(data)

    def find(tree, comps):
        for nm, node in tree:
            if nm == comps[0]:
                return node if len(comps) == 1 else find(node["d"], comps[1:])
        raise KeyError(comps)

    def walk(tree, pre, here=None):
        here = tree if here is None else here
        for nm, node in tree:
            if "l" in node:
                # links are FOLLOWED (shutil.copytree(symlinks=False)): what is copied is what the link points to - a
                # sibling (string form), any file / directory of the source tree or of the tree outside the source
                try:
                    L = node["l"]
                    if isinstance(L, dict):
                        node = find(src.get("ext") or [] if L["where"] == "ext" else src["tree"], L["path"])
                    else:
                        node = find(here, L.split("/"))
                except KeyError:        # a link that cannot be followed (measurement cases only): nothing to expect
                    continue
            if "f" in node:
                out[pre + (nm,)] = bytes(node["f"])
            else:
                out[pre + (nm,)] = None
                walk(node["d"], pre + (nm,))

    if case["fmt"] == "plain":
        walk(src["tree"], ())
    elif case["fmt"] == "zip":
        for p, data in src["members"]:
            add_member((), p, data)
    else:
        for nm, it in src["items"]:
            if "zip" in it:
                pre = (nm[:-4],) if case["variant"] == "image" else ()
                for p, data in it["zip"]:
                    add_member(pre, p, data)
    return out


# ---------------------------------------------------------------------------
# sandbox
# ---------------------------------------------------------------------------
def _write_zip(path, members):
    with zipfile.ZipFile(path, "w") as z:
        for p, data in members:
            if data is None:
                z.writestr(zipfile.ZipInfo("/".join(p) + "/"), b"")
            else:
                z.writestr("/".join(p), bytes(data))


def _write_tree(base, tree, roots=None):
    """roots = {"in": the source directory, "ext": a directory outside the source}: where structured links point to"""
    os.makedirs(base, exist_ok=True)
    for nm, node in tree:
        p = os.path.join(base, nm)
        if "l" in node:
            L = node["l"]
            if isinstance(L, dict):
                # {"where": "in" | "ext", "path": [...], "abs": bool}: a link to a file / directory inside the source tree
                # or outside of it, written as an absolute path or relative to the directory that contains the link
                target = os.path.join(roots[L["where"]], *L["path"])
                os.symlink(target if L["abs"] else os.path.relpath(target, base), p)
            else:
                os.symlink(L, p)          # relative target, resolved from the directory that contains the link
        elif "f" in node:
            with open(p, "wb") as f:
                f.write(bytes(node["f"]))
        else:
            _write_tree(p, node["d"], roots)


def dst_comps(case):
    rel = case["rel"]
    return ["l"] + (rel.split("/") if rel else [])


_AUX = {}          # sandbox root -> {"tmpdir": the temporary directory the calls of this sandbox see, "exdev": simulated}
_SECOND_FS = []


def second_fs():
    """a writable directory on ANOTHER file system than the default temporary directory (None if the machine has none)"""
    if not _SECOND_FS:
        found = None
        try:
            dev0 = os.stat(tempfile.gettempdir()).st_dev
            cands = ["/dev/shm", "/run/user/%d" % os.getuid(), "/var/tmp", "/run", os.path.expanduser("~"), os.getcwd()]
            for d in cands:
                if os.path.isdir(d) and os.access(d, os.W_OK | os.X_OK) and os.stat(d).st_dev != dev0:
                    found = d
                    break
        except OSError:
            found = None
        _SECOND_FS.append(found)
    return _SECOND_FS[0]


def xfs_mode(case):
    """case["xfs"]: None (everything on the default temporary file system, tempfile untouched) |
    "local"  = the sandbox (global and LOCAL side) is on a second file system, the default temporary directory is not |
    "tmpdir" = the sandbox is on the default one, the default temporary directory ($TMPDIR / tempfile.tempdir) on a second |
    "sim"    = one file system, os.rename between different directories fails with EXDEV (simulated second file system).
    "local" / "tmpdir" fall back to "sim" on a machine without a second writable file system"""
    m = case.get("xfs")
    if m in ("local", "tmpdir") and second_fs() is None:
        return "sim"
    return m


def cleanup_sandbox(root):
    aux = _AUX.pop(root, None)
    if aux and aux.get("tmpdir"):
        shutil.rmtree(aux["tmpdir"], ignore_errors=True)
    shutil.rmtree(root, ignore_errors=True)


def build_sandbox(case):
    mode = xfs_mode(case)
    root = os.path.realpath(tempfile.mkdtemp(prefix="kd_c20_", dir=second_fs() if mode == "local" else None))
    if mode:
        _AUX[root] = {"tmpdir": os.path.realpath(tempfile.mkdtemp(prefix="kd_c20_tmp_",
                                                                  dir=second_fs() if mode == "tmpdir" else None)),
                      "exdev": mode == "sim"}
    g = os.path.join(root, "g")
    rel = case["rel"]
    sp = os.path.join(g, rel) if rel else g
    fmt, src = case["fmt"], case["src"]
    if fmt == "plain":
        if src.get("ext"):
            _write_tree(os.path.join(root, "ext"), src["ext"])
        _write_tree(sp, src["tree"], {"in": sp, "ext": os.path.join(root, "ext")})
        if case.get("also_zip"):
            _write_zip(sp + ".zip", [[["other.txt"], [1, 2, 3]]])
    elif fmt == "zip":
        os.makedirs(os.path.dirname(sp), exist_ok=True)
        _write_zip(sp + ".zip", src["members"])
        if case.get("decoy_zip"):                      # another archive next to the source (measurement cases)
            _write_zip(os.path.join(os.path.dirname(sp), case["decoy_zip"]), [[["decoy.txt"], [1, 2, 3]]])
    else:
        os.makedirs(sp, exist_ok=True)
        for nm, it in src["items"]:
            if "zip" in it:
                _write_zip(os.path.join(sp, nm), it["zip"])
            else:
                with open(os.path.join(sp, nm), "wb") as f:
                    f.write(bytes(it["f"]))
    l = os.path.join(root, "l")
    if case["local_exists"]:
        os.makedirs(l, exist_ok=True)
    if case["init"] != "fresh":
        d = os.path.join(root, *dst_comps(case))
        os.makedirs(d, exist_ok=True)
        for p, data in case["manual"]:
            fp = os.path.join(d, *p)
            if data is None:
                os.makedirs(fp, exist_ok=True)
            else:
                os.makedirs(os.path.dirname(fp), exist_ok=True)
                with open(fp, "wb") as f:
                    f.write(bytes(data))
    return root, g, l, sp


def snapshot(root, skip=("g", "g.zip", "ext")):
    """[[path components, None | [bytes]]] of everything below root except the global side, root first"""
    out = [[[], None]]
    for d, ds, fs in os.walk(root):
        relc = [] if d == root else os.path.relpath(d, root).split(os.sep)
        if not relc:
            ds[:] = [x for x in ds if x not in skip]
            fs = [x for x in fs if x not in skip]
        ds.sort()
        for x in ds:
            out.append([relc + [x], None])
        for x in sorted(fs):
            if os.path.islink(os.path.join(d, x)):
                out.append([relc + [x], list(b"\0link:" + os.fsencode(os.readlink(os.path.join(d, x))))])
                continue
            with open(os.path.join(d, x), "rb") as f:
                out.append([relc + [x], list(f.read())])
    return out


def listing(case, sp):
    """the source as the implementation will see it: directory listings in os.listdir order"""
    fmt = case["fmt"]

    def ls(path, depth=0):
        out = []
        for nm in os.listdir(path):
            p = os.path.join(path, nm)
            if os.path.isdir(p):
                out.append([nm, {"d": ls(p, depth + 1) if depth < 12 else []}])   # (the cap only matters for link loops)
            else:
                try:
                    with open(p, "rb") as f:
                        out.append([nm, {"f": list(f.read())}])
                except OSError:                                                   # a dangling link
                    out.append([nm, {"f": []}])
        return out

    info = {"dir": None, "zips": [], "zip": None}
    if os.path.isdir(sp):
        info["dir"] = ls(sp)
        for nm in os.listdir(sp):
            if nm.endswith(".zip") and os.path.isfile(os.path.join(sp, nm)):
                try:
                    with zipfile.ZipFile(os.path.join(sp, nm)) as z:
                        info["zips"].append([nm, _members_of(z)])
                except zipfile.BadZipFile:
                    info["zips"].append([nm, []])
    if os.path.isfile(sp + ".zip"):
        with zipfile.ZipFile(sp + ".zip") as z:
            info["zip"] = _members_of(z)
    return info


def _members_of(z):
    out = []
    for zi in z.infolist():
        name = zi.filename
        if name.endswith("/"):
            out.append([name.rstrip("/").split("/"), None])
        else:
            out.append([name.split("/"), list(z.read(zi))])
    return out


def _result(case, r):
    if case["variant"] == "folder":
        return {"was_copied": bool(r.was_copied), "was_deleted": bool(r.was_deleted), "fmt": r.source_format}
    fmt = "zip" if r.was_zip else ("zips" if r.was_zip_classwise else ("raw" if r.was_copied else None))
    both = bool(r.was_zip and r.was_zip_classwise)
    return {"was_copied": bool(r.was_copied), "was_deleted": bool(r.was_deleted), "fmt": fmt, "both_flags": both}


def _get_fn(case):
    if case["variant"] == "folder":
        from kappadata.copying.folder import copy_folder_from_global_to_local as fn
    else:
        from kappadata.copying.image_folder import copy_imagefolder_from_global_to_local as fn
    return fn


def _rel_arg(case):
    rel = case["rel"]
    if rel is not None and case.get("rel_zip_suffix"):
        return rel + ".zip"
    return rel


def one_call(case, fn, root, g, l, kill_at):
    att = {"kill_at": kill_at, "ret": None, "error": None}
    aux = _AUX.get(root) or {}
    saved_tmp = (tempfile.tempdir, os.environ.get("TMPDIR"))
    if aux.get("tmpdir"):
        # the default temporary directory this call sees (cross-file-system cases): tempfile.* and $TMPDIR
        tempfile.tempdir = aux["tmpdir"]
        os.environ["TMPDIR"] = aux["tmpdir"]
    try:
        with Tracer(root, kill_at, torn=bool(case.get("torn")) and kill_at is not None, exdev=bool(aux.get("exdev"))) as t:
            try:
                r = fn(g, l, relative_path=_rel_arg(case), num_workers=case.get("workers", 0))
                att["ret"] = _result(case, r)
            except Kill:
                pass
            except Exception as e:  # an OSError etc. is an abnormal return, recorded
                att["error"] = repr(e)[:300]
    finally:
        tempfile.tempdir = saved_tmp[0]
        if saved_tmp[1] is None:
            os.environ.pop("TMPDIR", None)
        else:
            os.environ["TMPDIR"] = saved_tmp[1]
    att["trace"] = t.ops
    att["zombie"] = t.zombie
    att["pools"] = t.pools
    att["torn"] = t.torn_n
    att["tree"] = snapshot(root)
    return att


# ---------------------------------------------------------------------------
# strace (thorough tier): a real SIGKILL on entry to a system call
# ---------------------------------------------------------------------------
RUNNER = r'''
import sys, types, json, os
repo, variant, g, l, rel = sys.argv[1:6]
for name in ("kappadata", "kappadata.utils"):
    m = types.ModuleType(name); m.__path__ = [os.path.join(repo, *name.split("."))]; sys.modules[name] = m
if variant == "folder":
    from kappadata.copying.folder import copy_folder_from_global_to_local as fn
else:
    from kappadata.copying.image_folder import copy_imagefolder_from_global_to_local as fn
assert os.path.abspath(sys.modules[fn.__module__].__file__).startswith(os.path.abspath(repo))
r = fn(g, l, relative_path=None if rel == "-" else rel)
print("RESULT " + json.dumps(r.__dict__))
'''
CONC_RUNNER = r'''
import sys, types, json, os, time
repo, variant, g, l, rel, t0, expfile = sys.argv[1:8]
for name in ("kappadata", "kappadata.utils"):
    m = types.ModuleType(name); m.__path__ = [os.path.join(repo, *name.split("."))]; sys.modules[name] = m
if variant == "folder":
    from kappadata.copying.folder import copy_folder_from_global_to_local as fn
else:
    from kappadata.copying.image_folder import copy_imagefolder_from_global_to_local as fn
assert os.path.abspath(sys.modules[fn.__module__].__file__).startswith(os.path.abspath(repo))
exp = json.load(open(expfile))
def complete():
    dst, seen = exp["dst"], {}
    for d, ds, fs in os.walk(dst):
        for x in ds:
            seen[os.path.relpath(os.path.join(d, x), dst)] = None
        for x in fs:
            try:
                with open(os.path.join(d, x), "rb") as f:
                    seen[os.path.relpath(os.path.join(d, x), dst)] = f.read().hex()
            except OSError:
                seen[os.path.relpath(os.path.join(d, x), dst)] = "?"
    seen.pop("autocopy_start.txt", None); seen.pop("autocopy_end.txt", None)
    return seen == exp["files"]
while time.time() < float(t0):
    pass
try:
    r = fn(g, l, relative_path=None if rel == "-" else rel)
    c = complete()
    print("RESULT " + json.dumps({"ret": r.__dict__, "complete_at_return": c}))
except BaseException as e:
    print("RAISED " + json.dumps({"type": type(e).__name__, "msg": str(e)[:200]}))
'''


def run_concurrent(case):
    """MEASUREMENT (nothing is claimed): n processes call the function on the same destination at (almost) the same
    time -- the second one `stagger_ms` later; afterwards one more call, alone."""
    import time
    from . import common
    spec = case["concurrent"]
    root, g, l, sp = build_sandbox(case)
    try:
        exp = expected_content(case)
        dst = os.path.join(root, *dst_comps(case))
        expfile = os.path.join(root, "expected.json")
        with open(expfile, "w") as f:
            json.dump({"dst": dst, "files": {"/".join(k): (None if v is None else v.hex()) for k, v in exp.items()}}, f)
        runner = os.path.join(root, "conc_runner.py")
        with open(runner, "w") as f:
            f.write(CONC_RUNNER)
        t0 = time.time() + 1.5
        procs = []
        for i in range(spec["n"]):
            cmd = [sys.executable, runner, common.KD_REPO, case["variant"], g, l, _rel_arg(case) or "-",
                   repr(t0 + i * spec["stagger_ms"] / 1000.0), expfile]
            procs.append(subprocess.Popen(cmd, stdout=subprocess.PIPE, stderr=subprocess.PIPE, text=True,
                                          env=_strace_env(), cwd=root))
        outs = []
        for pr in procs:
            try:
                o, e = pr.communicate(timeout=120)
            except subprocess.TimeoutExpired:
                pr.kill()
                o, e = "", "timeout"
            rec = {"kind": "died", "detail": e[-200:]}
            for ln in o.splitlines():
                if ln.startswith("RESULT "):
                    d = json.loads(ln[7:])
                    rec = {"kind": "returned", "was_copied": bool(d["ret"].get("was_copied")),
                           "complete_at_return": d["complete_at_return"]}
                elif ln.startswith("RAISED "):
                    d = json.loads(ln[7:])
                    rec = {"kind": "raised", "type": d["type"], "msg": d["msg"]}
            outs.append(rec)
        for f in (expfile, runner):
            os.unlink(f)

        def state():
            cur = _as_dict(snapshot(root))
            d = tuple(dst_comps(case))
            sub = {p[len(d):]: v for p, v in cur.items() if p[:len(d)] == d}
            content = {p: v for p, v in sub.items() if p not in ((), (SNAME,), (ENAME,))}
            left = sorted("/".join(p) for p in cur if p[:len(d)] != d and d[:len(p)] != p)
            return {"exists": () in sub, "start": (SNAME,) in sub, "end": (ENAME,) in sub, "complete": content == exp,
                    "leftovers": left[:3]}
        after = state()
        fn = _get_fn(case)
        last = one_call(case, fn, root, g, l, None)
        final = state()
        return {"concurrent": {"procs": outs, "after": after,
                               "last_call": {"ret": last["ret"], "error": last["error"]}, "final": final}}
    finally:
        cleanup_sandbox(root)


def _conc_summary(c):
    ps = []
    for o in c["procs"]:
        if o["kind"] == "returned":
            ps.append(("copied" if o["was_copied"] else "nothing-to-do")
                      + ("" if o["complete_at_return"] else "+INCOMPLETE-AT-RETURN"))
        elif o["kind"] == "raised":
            ps.append("raised:" + o["type"])
        else:
            ps.append("died")
    a = c["after"]
    st = ("complete" if a["complete"] and a["end"] else
          "SEALED-INCOMPLETE" if a["end"] else "unsealed" if a["exists"] else "absent") + ("+leftovers" if a["leftovers"] else "")
    f = c["final"]
    fin = ("complete" if f["complete"] and f["end"] else "INCOMPLETE") + ("+leftovers" if f["leftovers"] else "")
    if c["last_call"]["error"]:
        fin += "+raised"
    return "procs=" + "|".join(sorted(ps)) + " then=" + st + " after-one-more-call=" + fin


SYSCALLS = ["mkdir", "mkdirat", "openat", "unlink", "unlinkat", "rmdir", "rename", "renameat", "renameat2",
            "write", "sendfile", "copy_file_range"]


def _strace_env():
    env = dict(os.environ)
    env.update(OMP_NUM_THREADS="1", OPENBLAS_NUM_THREADS="1", MKL_NUM_THREADS="1", PYTHONDONTWRITEBYTECODE="1",
               PYTHONHASHSEED="0")
    return env


def _runner_cmd(case, root, g, l):
    from . import common
    runner = os.path.join(root, "runner.py")
    if not os.path.exists(runner):
        with open(runner, "w") as f:
            f.write(RUNNER)
    return [sys.executable, runner, common.KD_REPO, case["variant"], g, l, _rel_arg(case) or "-"]


def parse_strace(logfile, root):
    """the file-system-modifying system calls below root/l* : [(syscall name, ordinal among all calls of that
    name in the log, completed?)] in order (log written with -y -xx, see strace_events)"""
    import re
    counts = {}
    out = []
    lroot = os.path.join(os.path.realpath(root), "l")

    def below(p):
        return p == lroot or p.startswith(lroot + "/") or p.startswith(lroot + ".")

    for line in open(logfile, errors="replace"):
        m = re.match(r"^(\d+)\s+(\w+)\((.*)$", line)
        if not m:
            continue
        name, rest = m.group(2), m.group(3)
        if name not in SYSCALLS:
            continue
        counts[name] = counts.get(name, 0) + 1
        done = "<unfinished" not in rest and not rest.rstrip().endswith("= ?")
        strs = [_unhex(x).decode("utf-8", "surrogateescape") for x in re.findall(r'"(' + _HEX + r')"', rest)]
        fdp = [_unhex(x).decode("utf-8", "surrogateescape") for x in re.findall(r'\d+<(' + _HEX + r')>', rest)]
        if name in ("write", "sendfile"):
            rel = bool(fdp) and below(fdp[0])
        elif name == "copy_file_range":
            rel = len(fdp) > 1 and below(fdp[1])
        else:
            base = fdp[0] if fdp else ""
            paths = [p if os.path.isabs(p) else os.path.normpath(os.path.join(base, p)) for p in strs]
            rel = any(below(p) for p in paths)
            if name == "openat" and not ("O_WRONLY" in rest or "O_RDWR" in rest or "O_CREAT" in rest):
                rel = False
        if rel:
            out.append((name, counts[name], done))
    return out


_HEX = r'(?:\\x[0-9a-f]{2})*'


def _unhex(s):
    return bytes.fromhex(s.replace("\\x", ""))


def strace_events(logfile, root):
    """the COMPLETED file-system-modifying system calls on paths below root (outside the global side) in the format of
    Tracer.ops -- one event per system call: mkdir -> mkdir, openat(O_WRONLY|O_CREAT|O_TRUNC) -> create, write /
    sendfile of n > 0 bytes -> write (with the bytes), unlink / unlinkat -> unlink, rmdir / unlinkat(AT_REMOVEDIR) ->
    rmdir, rename -> rename.  The log was written with -y -xx: every string is hex-escaped, descriptors carry their path."""
    import re
    root = os.path.realpath(root)

    def rel(path):
        if path == root:
            return []
        if path.startswith(root + "/"):
            comps = path[len(root) + 1:].split("/")
            return None if comps[0] in ("g", "g.zip") else comps
        return None

    ev = []
    for line in open(logfile, errors="replace"):
        m = re.match(r"^\d+\s+(\w+)\((.*)\)\s+=\s+(-?\d+)", line)
        if not m:
            continue
        name, args, ret = m.group(1), m.group(2), int(m.group(3))
        if ret < 0:
            continue
        strs = [_unhex(x).decode("utf-8", "surrogateescape") for x in re.findall(r'"(' + _HEX + r')"', args)]
        fdp = [_unhex(x).decode("utf-8", "surrogateescape") for x in re.findall(r'\d+<(' + _HEX + r')>', args)]
        if name == "mkdir" and strs:
            r = rel(strs[0])
            if r is not None:
                ev.append(["mkdir", r])
        elif name == "mkdirat" and strs:
            base = fdp[0] if fdp and not os.path.isabs(strs[0]) else ""
            r = rel(os.path.normpath(os.path.join(base, strs[0])))
            if r is not None:
                ev.append(["mkdir", r])
        elif name == "openat" and strs:
            if "O_CREAT" in args or ("O_TRUNC" in args and ("O_WRONLY" in args or "O_RDWR" in args)):
                base = fdp[0] if fdp and not os.path.isabs(strs[0]) else ""
                r = rel(os.path.normpath(os.path.join(base, strs[0])))
                if r is not None:
                    ev.append(["create", r])
        elif name == "write" and fdp:
            r = rel(fdp[0])
            if r is not None and ret > 0:
                mm = re.search(r'>,\s+"(' + _HEX + r')"', args)
                data = _unhex(mm.group(1)) if mm else b""
                ev.append(["write", r, list(data[:ret]) if len(data) >= ret else ["?truncated"]])
        elif name in ("sendfile", "copy_file_range") and len(fdp) >= 2:
            out_p, in_p = (fdp[0], fdp[1]) if name == "sendfile" else (fdp[1], fdp[0])
            r = rel(out_p)
            if r is not None and ret > 0:
                mm = re.search(r"\[(\d+)\]", args)
                off = int(mm.group(1)) if mm else 0
                with open(in_p, "rb") as f:
                    f.seek(off)
                    ev.append(["write", r, list(f.read(ret))])
        elif name in ("unlink", "rmdir") and strs:
            r = rel(strs[0])
            if r is not None:
                ev.append([name, r])
        elif name == "unlinkat" and strs:
            base = fdp[0] if fdp and not os.path.isabs(strs[0]) else ""
            r = rel(os.path.normpath(os.path.join(base, strs[0])))
            if r is not None:
                ev.append(["rmdir" if "AT_REMOVEDIR" in args else "unlink", r])
        elif name in ("rename", "renameat", "renameat2") and len(strs) >= 2:
            r1, r2 = rel(strs[0]), rel(strs[1])
            if r1 is not None or r2 is not None:
                ev.append(["rename", r1, r2])
    return ev


def strace_run(case, root, g, l, inject=None, log=None):
    cmd = ["strace", "-f", "-y", "-xx", "-s", "65536", "-o", log or os.path.join(root, "strace.log"),
           "-e", "trace=" + ",".join(SYSCALLS + ["close"])]
    if inject:
        cmd += ["-e", f"inject={inject[0]}:signal=SIGKILL:when={inject[1]}"]
    cmd += _runner_cmd(case, root, g, l)
    p = subprocess.run(cmd, capture_output=True, text=True, timeout=120, env=_strace_env(), cwd=root)
    return p


# ---------------------------------------------------------------------------
# running the implementation
# ---------------------------------------------------------------------------
def run_impl(case):
    if case.get("concurrent"):
        return run_concurrent(case)
    fn = _get_fn(case)
    root, g, l, sp = build_sandbox(case)
    try:
        obs = {"s0": snapshot(root), "src": listing(case, sp), "attempts": []}
        if case.get("xfs"):
            obs["xfs"] = "%s: sandbox on %s, temporary directory on %s" % (
                xfs_mode(case), os.path.dirname(root), os.path.dirname((_AUX.get(root) or {}).get("tmpdir") or "?"))
        gsnap0 = snapshot(root, skip=tuple(x for x in os.listdir(root) if x not in ("g", "g.zip", "ext")))
        for k in case["kills"]:
            obs["attempts"].append(one_call(case, fn, root, g, l, k))
        if case.get("strace"):
            # one invocation in a child process under strace: SIGKILLed on entry to the when-th call of syscall `name`
            # (name = None: not interrupted); what it did is read off the system-call log
            name, when = case["strace"]
            log = os.path.join(root, "inject.log")
            p = strace_run(case, root, g, l, inject=(name, when) if name else None, log=log)
            calls = parse_strace(log, root)
            events = strace_events(log, root)
            ret = None
            for ln in p.stdout.splitlines():
                if ln.startswith("RESULT "):
                    import types
                    ret = _result(case, types.SimpleNamespace(**json.loads(ln[7:])))
            killed = ret is None and p.returncode in (137, -9)
            obs["strace"] = {"rc": p.returncode, "killed": killed, "completed_calls": sum(1 for c in calls if c[2]),
                             "last": list(calls[-1]) if calls else None, "stderr": p.stderr[-300:]}
            for f in ("inject.log", "runner.py", "strace.log"):
                if os.path.exists(os.path.join(root, f)):
                    os.unlink(os.path.join(root, f))
            err = None if (killed or ret is not None) else f"child exited with {p.returncode}: {p.stderr[-300:]}"
            obs["attempts"].append({"kill_at": "SIGKILL" if killed else None, "ret": ret, "error": err, "trace": events,
                                    "zombie": [], "pools": [], "torn": None, "tree": snapshot(root)})
        for _ in range(2):
            obs["attempts"].append(one_call(case, fn, root, g, l, None))
        obs["global_unchanged"] = gsnap0 == snapshot(root, skip=tuple(x for x in os.listdir(root)
                                                                       if x not in ("g", "g.zip", "ext")))
        return obs
    finally:
        cleanup_sandbox(root)


# ---------------------------------------------------------------------------
# the independent oracle
# ---------------------------------------------------------------------------
def _as_dict(tree):
    return {tuple(p): (None if v is None else bytes(v)) for p, v in tree}


def oracle(case, obs):
    if "harness_exception" in obs:
        return "harness exception: " + obs["harness_exception"] + " " + obs.get("tb", "")
    if case.get("measure"):
        # outside the domain of the property (ASSUMPTIONS): run, recorded in the evidence histogram, nothing is claimed
        return None
    return oracle_core(case, obs)


def oracle_core(case, obs):
    dst = tuple(dst_comps(case))
    # (entries of the source named like the markers only occur in measurement cases -- they are excluded from the domain;
    # there the two names are not compared)
    exp = {p: v for p, v in expected_content(case, (obs.get("src") or {}).get("dir")).items() if p not in ((SNAME,), (ENAME,))}
    if "logical" in case and exp != flatten_tree(case["logical"]):
        # the three source formats of one logical tree are all judged against that tree: they must agree with one another
        return "harness: the source of this format does not describe the logical tree it was generated from"
    s0 = _as_dict(obs["s0"])
    manual = dst in s0 and dst + (SNAME,) not in s0
    if not obs.get("global_unchanged", True):
        return "the source (global) side was modified"
    prev = s0
    for i, att in enumerate(obs["attempts"]):
        cur = _as_dict(att["tree"])
        tag = f"call {i + 1} ({'killed at ' + str(att['kill_at']) if att['ret'] is None else 'returned'})"
        if case.get("xfs"):
            tag = f"[{obs.get('xfs')}; history: kills {case['kills']} then two uninterrupted calls] " + tag
        if att["zombie"]:
            return f"{tag}: file-system operation during the unwinding after the kill: {att['zombie'][:3]}"
        if att["error"]:
            return f"{tag}: unexpected exception {att['error']}"
        for op in att["trace"] or []:
            # the model's atomic Rename is an assumption about SIBLINGS (same directory => same file system); a rename /
            # move between different directories may cross file systems, where it is a copy followed by a delete
            if op[0] == "rename" and (op[1] is None or op[2] is None or op[1][:-1] != op[2][:-1]):
                return (f"{tag}: renames {'<outside the sandbox>' if op[1] is None else '/'.join(op[1])} to "
                        f"{'<outside the sandbox>' if op[2] is None else '/'.join(op[2])}: not two names in one directory. "
                        "Only a rename between siblings is atomic on every layout (across file systems it is copy + delete: "
                        "a kill in between leaves a half-made destination); crash-safety of the start marker rests on it")
        nops = None if att["trace"] is None else len(att["trace"])
        prev_done = all(dst + x in prev for x in ((), (SNAME,), (ENAME,)))
        if manual or prev_done:
            if (nops not in (0, None)) or cur != prev:
                what = "a manual folder" if manual else "a completed automatic copy"
                return f"{tag}: {what} was touched ({nops} operations): {att['trace'][:4] if att['trace'] else ''}"
        r = att["ret"]
        if r is not None:
            if r.get("both_flags"):
                return f"{tag}: was_zip and was_zip_classwise both set"
            if manual:
                if cur != s0 or r["was_copied"] or r["was_deleted"] or r["fmt"] is not None:
                    return f"{tag}: manual folder: tree changed or result {r}"
            else:
                sub = {p[len(dst):]: v for p, v in cur.items() if p[:len(dst)] == dst}
                outside = {p for p in cur if p[:len(dst)] != dst and dst[:len(p)] != p}
                if outside:
                    return f"{tag}: left-overs outside the destination: {sorted(outside)[:3]}"
                if sub.get(()) is not None or () not in sub:
                    return f"{tag}: returned but the destination is not a directory"
                if not isinstance(sub.get((SNAME,)), bytes) or not isinstance(sub.get((ENAME,)), bytes):
                    return f"{tag}: returned {r} but a marker is missing: {sorted(sub)[:6]}"
                content = {p: v for p, v in sub.items() if p not in ((), (SNAME,), (ENAME,))}
                if content != exp:
                    missing = sorted(set(exp) - set(content))
                    extra = sorted(set(content) - set(exp))
                    diff = sorted(p for p in set(exp) & set(content) if exp[p] != content[p])
                    jobs = [j[1] for pl in (att.get("pools") or []) for j in pl["jobs"]]
                    if case.get("decoy_zip") and any(p[-1] == "decoy.txt" for p in extra):
                        return (f"{tag}: returned {r} but the local folder is not a copy of the source the relative_path names "
                                f"({_rel_arg(case)!r} -> {case['rel']}.zip): it holds the content of the unrelated archive "
                                f"{case['decoy_zip']} next to it: extra {extra[:4]} missing {missing[:4]}")
                    if case["fmt"] == "zips":
                        nms = [nm for nm, _ in case["src"]["items"]]
                        kz = sum(1 for nm in nms if nm.endswith(".zip"))
                        tag += (f" [source directory: {kz} *.zip of {len(nms)} entries, floor(n/2)={len(nms) // 2} -> "
                                f"{'a folder of zips (every archive extracted)' if rule_mostly_zips(nms) else 'a plain folder (copied verbatim)'}"
                                " by the documented rule]")
                    return (f"{tag}: returned {r} but the destination is not a complete copy of the source: "
                            f"missing {missing[:4]} extra {extra[:4]} different {diff[:4]}"
                            + (f"; num_workers={case.get('workers', 0)}, tasks handed to joblib: {jobs}" if jobs else ""))
                # truthful result
                want_fmt = {"plain": "raw", "zip": "zip", "zips": "zips"}[case["fmt"]]
                if zips_is_plain(case):
                    want_fmt = "raw"       # fewer archives than floor(n/2) of the n entries: a plain folder by the rule
                if r["was_copied"]:
                    if nops == 0:
                        return f"{tag}: was_copied=True but no operation was performed"
                    if r["fmt"] != want_fmt:
                        return f"{tag}: source format reported as {r['fmt']}, source is {want_fmt}"
                    if r["was_deleted"] != (dst in prev):
                        return f"{tag}: was_deleted={r['was_deleted']} but destination existed before: {dst in prev}"
                else:
                    if nops != 0 or cur != prev or r["was_deleted"] or r["fmt"] is not None:
                        return f"{tag}: was_copied=False but {nops} operations / tree changed / result {r}"
                    if not prev_done:
                        return f"{tag}: reported nothing to do over an incomplete destination"
        prev = cur
    last = obs["attempts"][-1]
    if last["ret"] is None:
        return "the final uninterrupted call did not return"
    return None


# ---------------------------------------------------------------------------
# Coq rendering
# ---------------------------------------------------------------------------
def S(s):
    return Raw('"' + s.replace('"', '""') + '"%string')


def P(comps):
    return Raw("[" + "; ".join(S(c) for c in comps) + "]")


def B(data):
    b = bytes(data)
    if b == START_TEXT:
        return Raw("start_text")
    if b == END_TEXT:
        return Raw("end_text")
    return Raw("[" + "; ".join(str(x) for x in b) + "]")


def T(node):
    if "f" in node:
        return C("TFile", B(node["f"]))
    return C("TDir", Raw("[" + "; ".join("(" + S(n) + ", " + T(x) + ")" for n, x in node["d"]) + "]"))


def M(m):
    p, data = m
    return Rec(m_path=P(p), m_file=Raw("None") if data is None else Raw("(Some " + B(data) + ")"))


def FS(tree):
    return Raw("[" + "; ".join("(" + P(p) + ", " + ("Dir" if v is None else "File " + B(v)) + ")" for p, v in tree) + "]")


def EV(op):
    tag = op[0]
    if tag == "mkdir":
        return C("EMkdir", P(op[1]))
    if tag == "create":
        return C("ECreate", P(op[1]))
    if tag == "write":
        return C("EWrite", P(op[1]), B(op[2]))
    if tag == "unlink":
        return C("EUnlink", P(op[1]))
    if tag == "rmdir":
        return C("ERmdir", P(op[1]))
    if tag == "rename":
        return C("ERename", P(op[1] or ["?outside"]), P(op[2] or ["?outside"]))
    return C("EMkdir", P(["?" + tag]))   # an operation the model does not have: forces a disagreement


FMT = {"raw": "Raw", "zip": "Zip", "zips": "Zips"}


def RES(r):
    if r is None:
        return Raw("None")
    f = Raw("None") if r["fmt"] is None else Raw("(Some " + FMT[r["fmt"]] + ")")
    return Raw("(Some " + Rec(was_copied=r["was_copied"], was_deleted=r["was_deleted"], source_format=f) + ")")


def coq_applicable(case, obs):
    return ("attempts" in obs and not case.get("measure")
            and all(a["trace"] is not None for a in obs["attempts"]))


def JOBS(att):
    """the tasks of the (single) joblib.Parallel call of an invocation, as lists of zip names"""
    pools = att.get("pools") or []
    if not pools:
        return Raw("None")
    jobs = [j[1] for p in pools for j in p["jobs"]]
    return Raw("(Some [" + "; ".join("[" + "; ".join(S(n) for n in job) + "]" for job in jobs) + "])")


def coq_case(case, obs):
    d = dst_comps(case)
    src = obs["src"]
    cfg = Rec(
        c_variant=Raw("VFolder" if case["variant"] == "folder" else "VImage"),
        c_parent=P(d[:-1]), c_name=S(d[-1]),
        c_dir=Raw("None") if src["dir"] is None else
        Raw("(Some [" + "; ".join("(" + S(n) + ", " + T(x) + ")" for n, x in src["dir"]) + "])"),
        c_zips=Raw("[" + "; ".join("(" + S(n) + ", [" + "; ".join(M(m) for m in ms) + "])" for n, ms in src["zips"]) + "]"),
        c_zip=Raw("None") if src["zip"] is None else Raw("(Some [" + "; ".join(M(m) for m in src["zip"]) + "])"),
        c_workers=Nat(max(0, int(case.get("workers", 0)))),
    )
    obs_terms = []
    for att in obs["attempts"]:
        order = [op[1] for op in att["trace"] if op[0] in ("unlink", "rmdir") and len(op[1]) > len(d)]
        obs_terms.append(Rec(o_order=Raw("[" + "; ".join(P(p) for p in order) + "]"),
                             o_sched=Raw("[]"), o_jobs=JOBS(att),
                             o_torn=Raw("None") if att.get("torn") is None else Raw("(Some %d%%nat)" % att["torn"]),
                             o_trace=Raw("[" + "; ".join(EV(op) for op in att["trace"]) + "]"),
                             o_ret=RES(att["ret"]),
                             o_tree=FS(att["tree"])))
    return "(" + cfg + ", " + FS(obs["s0"]) + ", [" + "; ".join(obs_terms) + "])"


# ---------------------------------------------------------------------------
# case generation
# ---------------------------------------------------------------------------
def base_case(variant, fmt, rel, src, local_exists=True, init="fresh", manual=None, **kw):
    c = {"variant": variant, "fmt": fmt, "rel": rel, "src": src, "local_exists": local_exists, "init": init,
         "manual": manual or [], "kills": [], "workers": 0}
    c.update(kw)
    return c


D25_SRC = {"tree": [["a.txt", {"f": [65]}], ["z.txt", {"f": [90]}], ["sub", {"d": [["b.txt", {"f": [66]}]]}]]}


def directed_bases():
    out = []
    for variant in ("folder", "image"):
        # the configuration of defect D25 (fixes/C20_*.txt)
        out.append(base_case(variant, "plain", "data", D25_SRC, local_exists=False))
        out.append(base_case(variant, "zip", "ds",
                             {"members": [[["a.txt"], [65, 65]], [["sub", "b.txt"], [66]], [["emptydir"], None],
                                          [["sub", "deep", "e.txt"], []]]}))
        out.append(base_case(variant, "zips", "a/ds",
                             {"items": [["n0.zip", {"zip": [[["a0.txt"], [65]], [["sub0", "b.txt"], [66]]]}],
                                        ["n1.zip", {"zip": [[["x1", "y.txt"], [89]], [["e1"], None]]}],
                                        ["README", {"f": [82]}]]}, local_exists=False))
        out.append(base_case(variant, "plain", None, {"tree": [["e", {"f": []}], ["d", {"d": []}]]}, local_exists=False))
    return out


DOTS_TREE = [
    ["take..2.wav", {"f": [1, 2, 3]}], ["..hidden", {"f": [4]}], ["trailing..", {"f": [5, 6]}], [".gitkeep", {"f": []}],
    ["A.txt", {"f": [65]}], ["a.txt", {"f": [97]}], ["autocopy_end.txt.bak", {"f": [9]}], ["my_autocopy_start.txt", {"f": []}],
    ["v1..v2", {"d": [["x.txt", {"f": [7]}], ["...", {"d": [[" ", {"f": [8]}], ["empty..dir", {"d": []}]]}]]}],
    ["sub", {"d": [[SNAME, {"f": [1]}], [ENAME, {"f": [2]}], ["SUB", {"d": []}]]}],
    ["\u00e9 \u65e5\u672c.dat", {"f": [200, 201]}], ["L" * 255, {"f": [76]}], ['q"uo\\te\t.txt', {"f": [34]}],
    ["deep", {"d": [["er", {"d": [["and..", {"d": [["deeper", {"d": [["bottom.", {"f": [0]}]]}]]}]]}]]}],
]
DOTS_CLASSES = [
    ["cls..1", {"d": [["img..0.jpg", {"f": [1]}], ["..x", {"f": [2, 2]}]]}],
    ["cls 2.", {"d": [["sub..dir", {"d": [["a.", {"f": [3]}]]}], [ENAME, {"f": [4]}]]}],
    [".cls3", {"d": [["\u00e9..png", {"f": []}]]}],
    ["CLS..1", {"d": [["img..0.jpg", {"f": [5]}]]}],
]


def logical_bases(rng, tree, tag):
    """one logical tree in every source format, for both functions"""
    out = []
    for variant in ("folder", "image"):
        srcs = sources_of(rng, tree, variant)
        for fmt in ("plain", "zip", "zips"):
            if srcs[fmt] is None:
                continue
            rel = rng.choice([None, "ds", "a/ds", "my data/v1..5/d s", "ds.v2", "v.1/my ds..x"])
            extra = {}
            if fmt == "zip" and rel is not None and "." in rel.split("/")[-1] and rng.random() < 0.5:
                extra["decoy_zip"] = rel.split("/")[-1].rsplit(".", 1)[0] + ".zip"     # what with_suffix(".zip") would name
            if fmt == "plain":
                extra["workers"] = rng.choice([0, 1, 2, 3, 4])
            out.append(base_case(variant, fmt, rel, srcs[fmt], local_exists=rng.random() < 0.5, logical=tree, ltag=tag, **extra))
    return out


def dotted_rel_bases():
    """relative_path whose last component contains a dot (fixes/C20_dotted_relative_path: with_suffix(".zip") replaced the
    part after the last dot): the single-zip source is <relative_path>.zip - also when an unrelated archive named like the
    relative_path cut at its last dot sits next to it"""
    out = []
    src = {"members": [[["a.txt"], [65]], [["sub", "b.txt"], [66]]]}
    for variant in ("folder", "image"):
        out.append(base_case(variant, "zip", "ds.v2", src, probe="dotted_relative_path"))
        out.append(base_case(variant, "zip", "ds.v2", src, decoy_zip="ds.zip", probe="dotted_relative_path_with_decoy"))
        out.append(base_case(variant, "zip", "a.b/ds.v1.5", src, decoy_zip="ds.v1.zip", local_exists=False,
                             probe="dotted_relative_path_with_decoy"))
        out.append(base_case(variant, "plain", "ds.v2", D25_SRC, probe="dotted_relative_path"))
        out.append(base_case(variant, "zips", "ds.v2", {"items": [["n0.zip", {"zip": [[["c0", "a.txt"], [65]]]}]]},
                             probe="dotted_relative_path"))
    out.append(base_case("image", "zip", "ds.v2", src, decoy_zip="ds.zip", rel_zip_suffix=True,
                         probe="dotted_relative_path_with_decoy"))
    return out


def rich_bases(rng, n):
    """n random logical trees with names from the rich alphabet (+ the two directed ones), each as plain folder, single zip
    and folder of zips for both functions"""
    out = logical_bases(rng, DOTS_TREE, "dots") + logical_bases(rng, DOTS_CLASSES, "dots-classes")
    for i in range(n):
        out += logical_bases(rng, gen_logical_tree(rng, dirs_only_top=i % 2 == 1), "r%d" % i)
    return out


LINK_TREE = [
    ["a.txt", {"f": [65]}],
    ["cls0", {"d": [["x.bin", {"f": [1, 2]}], ["deep", {"d": [["y", {"f": [3]}], ["e", {"f": []}]]}]]}],
    ["cls1", {"d": [["z", {"f": [9]}],
                    ["up_file", {"l": {"where": "in", "path": ["a.txt"], "abs": False}}],
                    ["side_dir", {"l": {"where": "in", "path": ["cls0", "deep"], "abs": False}}],
                    ["out_dir", {"l": {"where": "ext", "path": ["shared", "nest"], "abs": False}}]]}],
    ["empty", {"d": []}],
    ["l_dir_rel", {"l": {"where": "in", "path": ["cls0"], "abs": False}}],
    ["l_dir_abs", {"l": {"where": "in", "path": ["cls0", "deep"], "abs": True}}],
    ["l_file_rel", {"l": {"where": "in", "path": ["cls0", "x.bin"], "abs": False}}],
    ["l_file_abs", {"l": {"where": "in", "path": ["a.txt"], "abs": True}}],
    ["x_dir_rel", {"l": {"where": "ext", "path": ["shared"], "abs": False}}],
    ["x_dir_abs", {"l": {"where": "ext", "path": ["shared"], "abs": True}}],
    ["x_file_rel", {"l": {"where": "ext", "path": ["one.txt"], "abs": False}}],
    ["x_file_abs", {"l": {"where": "ext", "path": ["shared", "s0.dat"], "abs": True}}],
    ["l_empty_dir", {"l": {"where": "in", "path": ["empty"], "abs": False}}],
]
LINK_EXT = [["shared", {"d": [["s0.dat", {"f": [7, 7]}], ["nest", {"d": [["s1", {"f": [8]}]]}]]}], ["one.txt", {"f": [49]}]]


def plain_links_matrix(rng, tier):
    """plain-folder sources with symbolic links to directories and files, inside and outside of the tree, relative and
    absolute, at the top and nested: the directed tree LINK_TREE and random ones, for EVERY num_workers 0..4 and both
    functions, uninterrupted and (some) with killed calls before; judged against the source with links followed"""
    out = []
    for w in range(5):
        for variant in ("folder", "image"):
            rel = rng.choice([None, "ds", "a/ds"])
            b = base_case(variant, "plain", rel, {"tree": LINK_TREE, "ext": LINK_EXT}, local_exists=rng.random() < 0.5,
                          workers=w, probe="plain_links")
            out.append(with_kills(b, []))
            if tier == "thorough" or (w + (variant == "image")) % 3 == 0:
                n = max(1, count_ops(b))
                out.append(with_kills(b, [rng.randint(1, n)]))
            for _ in range(1 if tier == "quick" else 4):
                t = gen_tree(rng, rng.choice([2, 3])) or [["a.txt", {"f": [1]}]]
                ext = gen_tree(rng, 2) or [["one.txt", {"f": [49]}]]
                add_links(rng, t, ext, rng.choice([1, 2, 4]))
                b = base_case(variant, "plain", rng.choice([None, "ds"]), {"tree": t, "ext": ext}, workers=w,
                              probe="plain_links")
                out.append(with_kills(b, []))
    return out


XFS_MODES = ("local", "tmpdir", "sim")


def xfs_cases(rng, tier):
    """crash points when local_path and the default temporary directory are on DIFFERENT file systems (local on the second
    one / $TMPDIR on the second one; "sim": os.rename between different directories fails with EXDEV): every kill point
    of the first call, kill points of a call over an interrupted copy, for the directed configurations of both functions
    and all three source formats"""
    out = []
    bases = directed_bases()
    for bi, b in enumerate(bases):
        modes = XFS_MODES if tier == "thorough" else (XFS_MODES[bi % 3],)
        for mode in modes:
            bx = dict(b, xfs=mode)
            n = count_ops(bx)
            out.append(with_kills(bx, []))
            for k in range(1, n + 1):
                out.append(with_kills(bx, [k]))
            k1 = rng.randint(2, max(2, n))
            n2 = count_ops(bx, [k1])
            for k2 in (range(1, n2 + 1) if tier == "thorough" else sorted(rng.sample(range(1, n2 + 1), min(n2, 3)))):
                out.append(with_kills(bx, [k1, k2]))
    return out


def random_base(rng):
    variant = rng.choice(["folder", "image"])
    fmt = rng.choice(["plain", "zip", "zips"])
    rel = rng.choice([None, "ds", "ds", "a/ds", "ds.v2"])
    c = base_case(variant, fmt, rel, gen_source(rng, fmt, variant), local_exists=rng.random() < 0.6)
    if fmt == "zip" and rel == "ds.v2" and rng.random() < 0.5:
        c["decoy_zip"] = "ds.zip"
    if fmt == "plain":
        c["workers"] = rng.choice([0, 1, 2, 3, 4])     # (ignored by the plain format today - generated all the same)
    if variant == "image" and rel is not None and fmt == "zip" and rng.random() < 0.5:
        c["rel_zip_suffix"] = True
    if fmt == "plain" and rel is not None and rng.random() < 0.1:
        c["also_zip"] = True
    if fmt == "plain" and len(c["src"]["tree"]) >= 3 and rng.random() < 0.15:
        c["src"]["tree"].append(["stray.zip", {"f": [80, 75, 5, 6] + [0] * 18}])
    if rng.random() < 0.12:
        c["init"] = "manual"
        c["local_exists"] = True
        c["manual"] = rng.choice([[], [[["mine.txt"], [1, 2]]], [[["a.txt"], [9]], [["sub"], None], [["sub", "k"], []]],
                                  [[[ENAME], [1]]]])
    return c


def count_ops(case, kills=()):
    """number of operations of the next uninterrupted call after the given kills (a measurement for the enumeration)"""
    fn = _get_fn(case)
    root, g, l, sp = build_sandbox(case)
    try:
        for k in kills:
            one_call(case, fn, root, g, l, k)
        return len(one_call(case, fn, root, g, l, None)["trace"])
    finally:
        cleanup_sandbox(root)


def with_kills(base, kills):
    c = dict(base)
    c["kills"] = list(kills)
    return c


def gen_cases(rng, tier):
    out = xfs_cases(rng, tier)
    out += plain_links_matrix(rng, tier)
    bases = directed_bases()
    n_rand = 14 if tier == "quick" else 60
    bases += [random_base(rng) for _ in range(n_rand)]
    for bi, b in enumerate(bases):
        n = count_ops(b)
        out.append(with_kills(b, []))
        if n == 0:
            out += [with_kills(b, [1]), with_kills(b, [2, 1])]
            continue
        # every kill point of the first call
        for k in range(1, n + 1):
            out.append(with_kills(b, [k]))
        # every kill point of a call that finds an interrupted copy (the wipe and everything after it)
        pick = [rng.randint(2, n)] if (tier == "quick" and bi >= 8) else sorted({rng.randint(2, n), n - 1, max(1, n // 2)})
        for k1 in pick:
            n2 = count_ops(b, [k1])
            ks = range(1, n2 + 1) if (tier == "thorough" or bi < 8) else rng.sample(range(1, n2 + 1), min(n2, 6))
            for k2 in ks:
                out.append(with_kills(b, [k1, k2]))
        # 2-3 successive random kills
        for _ in range(4 if tier == "quick" else 12):
            m = rng.choice([2, 3, 3])
            out.append(with_kills(b, [rng.randint(1, n + 2) for _ in range(m)]))
    # manual folders
    for variant in ("folder", "image"):
        for man in ([], [[["mine.txt"], [1, 2]], [["sub"], None]], [[["a.txt"], [9]]]):
            b = base_case(variant, "plain", "data", D25_SRC, init="manual", manual=man)
            out += [with_kills(b, []), with_kills(b, [1]), with_kills(b, [3, 1])]
    # one logical tree with names from the rich alphabet in all three formats: uninterrupted, killed once / twice
    for b in dotted_rel_bases() + rich_bases(rng, 6 if tier == "quick" else 40):
        out.append(with_kills(b, []))
        n = count_ops(b)
        if n and (tier == "thorough" or rng.random() < 0.5):
            out.append(with_kills(b, [rng.randint(1, n)]))
        if n and rng.random() < (0.5 if tier == "thorough" else 0.15):
            out.append(with_kills(b, [rng.randint(1, n), rng.randint(1, n)]))
    out += torn_cases(rng, tier, bases)
    out += measure_cases(rng, tier)
    out += zips_workers_matrix(rng, tier)
    out += zips_ratio_matrix(rng, tier)
    if tier == "thorough":
        out += strace_cases(rng)
    return out


def big_tree(n_dirs, n_files):
    return [[f"d{i}", {"d": [[f"f{j}.bin", {"f": [(i * 7 + j) % 256] * 40}] for j in range(n_files)]}] for i in range(n_dirs)]


def measure_cases(rng, tier):
    """inputs OUTSIDE the domain of the property (see ASSUMPTIONS): the real code is run on them and what happens is
    recorded in the evidence histogram (feature keys `measure=...`); the oracle claims nothing about them"""
    out = []
    thorough = tier == "thorough"
    # (a) the source contains a file named like one of the markers (excluded by src_ok)
    for variant in (("folder", "image") if thorough else (rng.choice(["folder", "image"]),)):
        for marker in (ENAME, SNAME):
            srcs = [("plain", {"tree": D25_SRC["tree"] + [[marker, {"f": [1]}]]}),
                    ("zip", {"members": [[[marker], [1]], [["a.txt"], [65]], [["sub", "b.txt"], [66]]]}),
                    ("zips", {"items": [["n0.zip", {"zip": [[[marker], [1]], [["a0.txt"], [65]]]}],
                                        ["n1.zip", {"zip": [[["b1.txt"], [66]]]}]]})]
            for fmt, src in srcs:
                b = base_case(variant, fmt, "ds", src, measure="marker_named_source")
                n = count_ops(b)
                ks = range(1, n + 1) if thorough else sorted(rng.sample(range(1, n + 1), min(n, 3)))
                out += [with_kills(b, [])] + [with_kills(b, [k]) for k in ks]
    # (b) symbolic links that cannot be followed
    for variant in (("folder", "image") if thorough else ("folder",)):
        out.append(base_case(variant, "plain", "ds", {"tree": [["a.txt", {"f": [65]}], ["gone", {"l": "nowhere"}]]},
                             measure="dangling_symlink"))
        if thorough:
            out.append(base_case(variant, "plain", "ds", {"tree": [["a.txt", {"f": [65]}],
                                                                   ["sub", {"d": [["up", {"l": ".."}]]}]]},
                                 measure="symlink_loop"))
    # (c) several copiers at once on one destination
    trials = 4 if thorough else 1
    for fmt, src in (("plain", {"tree": big_tree(6, 40)}),
                     ("zip", {"members": tree_members(big_tree(6, 40), random.Random(0))}),
                     ("zips", {"items": [[f"n{i}.zip", {"zip": tree_members(big_tree(1, 60), random.Random(0), (f"z{i}",))}]
                                         for i in range(4)]})):
        for stagger in ((0, 3, 15) if thorough else (rng.choice([0, 3, 15]),)):
            for _ in range(trials):
                variant = rng.choice(["folder", "image"])
                out.append(base_case(variant, fmt, "ds", src, local_exists=True, measure="concurrent_copiers",
                                     concurrent={"n": 2, "stagger_ms": stagger}))
    return out


def torn_cases(rng, tier, bases):
    """kills INSIDE a write: for every write of >= 2 bytes of the first call (and of a call over an interrupted copy)
    only the first half of the bytes gets out before the process dies"""
    out = []

    def writes(case):
        fn = _get_fn(case)
        root, g, l, sp = build_sandbox(case)
        try:
            for k in case["kills"]:
                one_call(case, fn, root, g, l, k)
            tr = one_call(dict(case, torn=False), fn, root, g, l, None)["trace"]
        finally:
            cleanup_sandbox(root)
        return [i + 1 for i, op in enumerate(tr) if op[0] == "write" and len(op[2]) >= 2], len(tr)

    for bi, b in enumerate(bases):
        b = dict(b, torn=True)
        ks, n = writes(b)
        if tier == "quick" and bi >= 8:
            ks = rng.sample(ks, min(len(ks), 2))
        for k in ks:
            out.append(with_kills(b, [k]))
        if ks and (tier == "thorough" or bi < 8):
            k1 = rng.choice(ks)
            ks2, _ = writes(with_kills(b, [k1]))
            for k2 in (ks2 if tier == "thorough" else rng.sample(ks2, min(len(ks2), 3))):
                out.append(with_kills(b, [k1, k2]))
    return out


def zips_workers_matrix(rng, tier):
    """folder-of-zips sources with 1..9 archives x num_workers: thorough = every combination with num_workers 0..4 for
    both functions; quick = every archive count with num_workers 0, 1 and TWO of 2, 3, 4 (drawn from the seed: starting
    joblib's loky workers costs an `import kappadata` of ~5 s per distinct num_workers), the function alternating over the
    grid.  An uninterrupted call (followed, as always, by a second one), now and then killed calls before it.  Ordered by
    decreasing num_workers and number of archives so that the worker processes of one num_workers start together."""
    out = []
    flip = rng.randrange(2)
    w_quick = sorted(rng.sample([2, 3, 4], 2), reverse=True)
    for w in ((4, 3, 2, 1, 0) if tier == "thorough" else (*w_quick, 1, 0)):
        for nz in range(9, 0, -1):
            variants = ("folder", "image") if tier == "thorough" else (("folder", "image")[(nz + w + flip) % 2],)
            for variant in variants:
                rel = rng.choice([None, "ds", "a/ds"])
                b = base_case(variant, "zips", rel, zips_source(rng, variant, nz),
                              local_exists=rel is not None and rng.random() < 0.5, workers=w)
                out.append(with_kills(b, []))
                if rng.random() < (0.5 if tier == "thorough" else 0.2):
                    n = max(1, count_ops(b))
                    out.append(with_kills(b, [rng.randint(1, n) for _ in range(rng.choice([1, 1, 2]))]))
    return out


def zips_ratio_matrix(rng, tier):
    """directory sources with k archives and m other files for every small (k, m), across the boundary of the "mostly zips"
    rule (m = k-1, k, k+1 | k+2, k+3: n = k + m entries, archives >= floor(n/2) <=> m <= k+1), both functions; the oracle
    classifies by the rule on its own (rule_mostly_zips) and wants the archives extracted / the directory copied verbatim
    and the matching source_format / was_zip_classwise.  Uninterrupted + now and then killed once or twice."""
    out = []
    kmax = 3 if tier == "quick" else 5
    for variant in ("folder", "image"):
        for k in range(0 if tier == "thorough" else 1, kmax + 1):
            for m in range(0, k + 4):
                if k + m == 0:
                    continue
                src = zips_source(random.Random(rng.random()), variant, k)
                items = [x for x in src["items"] if "zip" in x[1]]
                extras = ["README", "LICENSE.txt", "notes.md", "checksums.sha1", "meta.json", "index.csv", ".listing",
                          "zip", "x.zip.txt"]
                rng.shuffle(extras)
                items += [[extras[j], {"f": [82, 69, j][:rng.randrange(4)]}] for j in range(m)]
                rng.shuffle(items)
                rel = rng.choice([None, "ds", "a/ds"])
                b = base_case(variant, "zips", rel, {"items": items}, local_exists=rel is not None and rng.random() < 0.5,
                              workers=rng.choice([0, 0, 1]))
                out.append(with_kills(b, []))
                if rng.random() < (0.6 if tier == "thorough" else 0.25):
                    n = max(1, count_ops(b))
                    out.append(with_kills(b, [rng.randint(1, n) for _ in range(rng.choice([1, 1, 2]))]))
    return out


def strace_cases(rng):
    """every file-system-modifying system call of (a) a fresh copy and (b) a copy over an interrupted one, for a few
    configurations: one case per call, the child is SIGKILLed on entry to it"""
    if shutil.which("strace") is None:
        return []
    out = []
    bases = directed_bases()[:3] + directed_bases()[4:7]
    for b in bases:
        n = count_ops(b)
        for prefix in ([], [max(2, n - 3)]):
            c = with_kills(b, prefix)
            fn = _get_fn(c)
            root, g, l, sp = build_sandbox(c)
            try:
                for k in prefix:
                    one_call(c, fn, root, g, l, k)
                log = os.path.join(root, "dry.log")
                p = strace_run(c, root, g, l, log=log)
                if "RESULT" not in p.stdout:
                    continue
                calls = parse_strace(log, root)
            finally:
                cleanup_sandbox(root)
            out.append(dict(c, strace=[None, 0]))      # the whole call at system-call level, not interrupted
            for name, ordinal, done in calls:
                cc = dict(c)
                cc["strace"] = [name, ordinal]
                out.append(cc)
    return out


def search_cases(rng, tier):
    yield from xfs_cases(rng, "thorough")
    yield from plain_links_matrix(rng, "quick")
    for b in dotted_rel_bases() + rich_bases(rng, 20):
        yield with_kills(b, [])
    for b in directed_bases():
        n = count_ops(b)
        for k in range(1, n + 1):
            yield with_kills(b, [k])
        for k1 in range(2, n + 1):
            n2 = count_ops(b, [k1])
            for k2 in range(1, n2 + 1):
                yield with_kills(b, [k1, k2])
    for _ in range(300):
        b = random_base(rng)
        n = count_ops(b)
        for _ in range(10):
            yield with_kills(b, [rng.randint(1, n + 1) for _ in range(rng.choice([1, 2, 3]))])


def _drop_members(ms):
    """member lists with one member (and, for a directory, everything below it) removed"""
    for i, (p, data) in enumerate(ms):
        rest = [m for k, m in enumerate(ms) if k != i and not (data is None and m[0][:len(p)] == p)]
        if rest:
            yield rest


def _shrink_tree(tree):
    """trees with one entry removed / one directory replaced by its content's first half (any depth)"""
    for i, (nm, node) in enumerate(tree):
        if len(tree) > 1:
            yield [x for k, x in enumerate(tree) if k != i and x[1].get("l") != nm]
        if "d" in node:
            for sub in _shrink_tree(node["d"]):
                yield tree[:i] + [[nm, {"d": sub}]] + tree[i + 1:]
            if node["d"]:
                yield tree[:i] + [[nm, {"d": []}]] + tree[i + 1:]


def shrink(case):
    if "logical" in case:          # a shrunk source no longer is the logical tree: judge it on its own
        case = {k: v for k, v in case.items() if k not in ("logical", "ltag")}
        yield case
    ks = case["kills"]
    for i in range(len(ks)):
        yield dict(case, kills=ks[:i] + ks[i + 1:])
    if case["fmt"] == "zip" and not case.get("strace"):
        for rest in _drop_members(case["src"]["members"]):
            yield dict(case, src={"members": rest})
    if case["fmt"] == "zips" and not case.get("strace"):
        items = case["src"]["items"]
        for i, (nm, it) in enumerate(items):
            if "zip" in it:
                for rest in _drop_members(it["zip"]):
                    yield dict(case, src={"items": items[:i] + [[nm, {"zip": rest}]] + items[i + 1:]})
    if case["fmt"] == "plain" and not case.get("strace"):
        for t in _shrink_tree(case["src"]["tree"]):
            yield dict(case, src=prune_links({**case["src"], "tree": t}))
        if case["src"].get("ext"):
            for t in _shrink_tree(case["src"]["ext"]):
                yield dict(case, src=prune_links({**case["src"], "ext": t}))
    if case["rel"] not in (None, "ds") and not case.get("strace"):
        yield {k: v for k, v in dict(case, rel="ds").items() if k not in ("decoy_zip", "probe")}
    if case["fmt"] == "plain" and len(case["src"]["tree"]) > 1 and not case.get("strace") and False:
        for i in range(len(case["src"]["tree"])):
            t = case["src"]["tree"]
            gone = t[i][0]
            yield dict(case, src={"tree": [x for k, x in enumerate(t) if k != i and x[1].get("l") != gone]})
    if case["fmt"] == "zips" and not case.get("strace"):
        items = case["src"]["items"]
        if sum(1 for _, it in items if "zip" in it) > 1 or any("zip" not in it for _, it in items):
            for i in range(len(items)):
                rest = items[:i] + items[i + 1:]
                nzip = sum(1 for _, it in rest if "zip" in it)
                if rest:           # (any ratio of archives to other entries: the oracle classifies by the rule)
                    yield dict(case, src={"items": rest})
        # (num_workers is not shrunk: every change of it restarts joblib's worker processes, ~5 s each)


# ---------------------------------------------------------------------------
# evidence helpers
# ---------------------------------------------------------------------------
def _state_class(case, tree):
    d = _as_dict(tree)
    dst = tuple(dst_comps(case))
    if dst not in d:
        tmp = dst[:-1] + (dst[-1] + ".autocopy_tmp",)
        return "absent+tmp" if tmp in d else "absent"
    if dst + (SNAME,) not in d:
        return "no-start-marker"
    if dst + (ENAME,) in d:
        return "complete"
    n = sum(1 for p in d if p[:len(dst)] == dst) - 2
    return "started-empty" if n == 0 else "started-partial"


def _violation_class(msg):
    if msg is None:
        return "property-holds"
    if "not a complete copy" in msg or "marker is missing" in msg or "incomplete destination" in msg:
        return "RETURNED-OVER-INCOMPLETE-COPY"
    if "unexpected exception" in msg:
        import re
        m = re.search(r"unexpected exception (\w+)", msg)
        return "raises:" + (m.group(1) if m else "?")
    if "was touched" in msg:
        return "COMPLETED-COPY-OR-MANUAL-FOLDER-TOUCHED"
    return "other:" + msg[:40]


def features(case, obs):
    if case.get("concurrent"):
        if "concurrent" not in obs:
            return ["measure=concurrent_copiers:harness-failure"]
        return [f"measure=concurrent_copiers[{case['fmt']},stagger={case['concurrent']['stagger_ms']}ms]: "
                + _conc_summary(obs["concurrent"])]
    if case.get("measure"):
        return [f"measure={case['measure']}[{case['fmt']}]: " + _violation_class(
            oracle_core(case, obs) if "attempts" in obs else "other:harness")]
    f = [f"fn={case['variant']}", f"fmt={case['fmt']}", f"rel={case['rel']}", f"init={case['init']}",
         f"kills={len(case['kills'])}", f"workers={case.get('workers', 0)}"]
    if case.get("strace"):
        f.append("strace=" + str(case["strace"][0] or "uninterrupted"))
        if "strace" in obs:
            f.append("strace_killed=" + str(obs["strace"]["killed"]))
            f.append("strace_hit_target=" + str(obs["strace"]["last"] == [case["strace"][0], case["strace"][1], False]))
    for att in obs.get("attempts", []):
        if att.get("torn") is not None:
            f.append("killed_inside_write_of=" + ("end_marker" if att["trace"][-1][1][-1] == ENAME else
                                                  "start_marker" if att["trace"][-1][1][-1] == SNAME else "data_file"))
        if att["ret"] is None:
            f.append("state_after_kill=" + _state_class(case, att["tree"]))
            if att["trace"]:
                f.append("last_op_before_kill=" + att["trace"][-1][0])
                if att["trace"][-1][0] == "create" and att["trace"][-1][1][-1] == ENAME:
                    f.append("killed_between_end_marker_create_and_write"
                             + ("(SIGKILL at the write system call)" if att["kill_at"] == "SIGKILL" else ""))
    if has_links(case["src"].get("tree") or []):
        f.append("source_has_symlink")
        f.append("source_has_symlink,workers=%d" % case.get("workers", 0))
        f += link_kinds(case["src"])
    if case.get("xfs"):
        f.append("xfs=%s(%s)" % (case["xfs"], obs.get("xfs")))
    try:
        paths = list(expected_content(case))
    except Exception:
        paths = []
    for cl in sorted({cl for p in paths for nm in p for cl in name_classes(nm)}):
        f.append("names:" + cl)
    if any(len(p) >= 5 for p in paths):
        f.append("names:nesting>=5")
    if any(nm in (SNAME, ENAME) for p in paths for nm in p[1:]):
        f.append("names:marker-named entry below the top level")
    lower = {}
    for p in paths:
        lower.setdefault((p[:-1], p[-1].lower()), set()).add(p[-1])
    if any(len(v) > 1 for v in lower.values()):
        f.append("names:siblings equal up to case")
    if case["rel"] and "." in case["rel"].split("/")[-1]:
        f.append("relative_path: dotted last component" + (f" [{case['fmt']}]")
                 + (" + decoy archive" if case.get("decoy_zip") else ""))
    if "logical" in case:
        f.append(f"logical-tree[{case.get('ltag', '?')[:1]}]:{case['variant']}/{case['fmt']}")
    if case["fmt"] == "zips":
        f.append(f"zips={sum(1 for _, it in case['src']['items'] if 'zip' in it)},workers={case.get('workers', 0)}")
        kz = sum(1 for _, it in case["src"]["items"] if "zip" in it)
        mo = len(case["src"]["items"]) - kz
        f.append("zips-ratio: others - archives = " + (str(mo - kz) if mo - kz in (-1, 0, 1, 2, 3) else ("<-1" if mo < kz else ">3"))
                 + (" [plain by the rule]" if zips_is_plain(case) else ""))
    return f


def nontrivial_key(case, obs):
    atts = obs.get("attempts", [])
    killed = [a for a in atts if a["ret"] is None and (a["trace"] is None or len(a["trace"]) > 0)]
    if case.get("measure") or (not killed and not any(a.get("pools") for a in atts)):
        return None
    return (case["variant"], case["fmt"], case["rel"], case["init"], tuple(case["kills"]), str(case.get("strace")),
            case.get("workers", 0), bool(case.get("torn")), case.get("xfs"),
            tuple(_state_class(case, a["tree"]) for a in killed), json.dumps(case["src"], sort_keys=True)[:200])
