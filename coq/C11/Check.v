(* C11 -- executable comparison of what the harness observed from the real
   ModeWrapper(KDMixWrapper(ds, ...), mode)[idx] with the model (Model.mw_getitem) and with the boolean
   spec (Spec.spec_obs). *)
From Coq Require Import ZArith QArith Qabs List Bool Arith.
Import ListNotations.
From KD Require Import C11.Model C11.Spec C11.Heap.
Open Scope Z_scope.

(* one generator created by the wrapper (np.random.default_rng(seed + idx), or GlobalRng() when there is no seed: oc_seed
   None) as observed by the harness: its seed argument, the draws made on
   it, and the calls made to the wrapped dataset by the getitem_xclass invocation that created it *)
Record ocall := { oc_seed : option Z; oc_draws : list draw; oc_loads : list load;
                  oc_ctx : list load   (* the loads that were handed the context object the request returned *) }.

Record obs := {
  o_calls : list ocall;
  o_items : list obs_value;           (* the returned tuple (a single item is a one-element list) *)
  o_wit : option (nat * Q);           (* see Spec.spec_obs *)
  o_ctx_ids : list Z;                 (* sample id decoded from every entry of the returned context *)
  o_alias : bool;                     (* the wrapped dataset's getitem_x hands out its stored tensors (or views of them) *)
  o_store_changed : bool;             (* a stored tensor / label of the wrapped dataset differs from what it was before the
                                         requests (earlier requests of the history, the request itself, repetitions) *)
  o_x_shares : option bool;           (* the returned x shares its storage with a stored sample (None: no x returned, or a
                                         transform above the mix wrapper built a new tensor) *)
  o_lab_fresh : option bool           (* the returned label is an object of its own: a whole storage that is neither the
                                         dataset's nor that of any other tensor returned by this or an earlier request
                                         that is still alive (None: no label returned) *)
}.

Definition optz_eqb (a b : option Z) : bool :=
  match a, b with
  | None, None => true
  | Some x, Some y => x =? y
  | _, _ => false
  end.
Definition oracle_of (cs : list ocall) : oracle := fun k sd =>
  match nth_error cs k with
  | Some oc => if optz_eqb sd (oc_seed oc) then oc_draws oc else []
  | None => []
  end.

Definition load_eqb (a b : load) : bool :=
  match a, b with
  | LdX i, LdX j | LdClass i, LdClass j => i =? j
  | _, _ => false
  end.
Fixpoint loads_eqb (a b : list load) : bool :=
  match a, b with
  | [], [] => true
  | x :: a', y :: b' => load_eqb x y && loads_eqb a' b'
  | _, _ => false
  end.

Definition value_match (v : value) (o : obs_value) : bool :=
  match v, o with
  | VX t, OX sh data => list_eqb (shape t) sh && close_list tol_pix (flatten t) data
  | VCls l, OCls row => close_list tol_lab l row
  | VIndex i, OIndex z => Z.of_nat i =? z
  | _, _ => false
  end.
Fixpoint forall2b {A B} (f : A -> B -> bool) (a : list A) (b : list B) : bool :=
  match a, b with
  | [], [] => true
  | x :: a', y :: b' => f x y && forall2b f a' b'
  | _, _ => false
  end.
Definition call_match (m : call) (o : ocall) : bool :=
  match c_rest m with [] => true | _ => false end       (* every recorded draw was consumed *)
  && loads_eqb (s_loads (c_sample m)) (oc_loads o)
  && loads_eqb (s_ctx (c_sample m)) (oc_ctx o).

(* outcome codes of the harness: 0 returned; otherwise the exception class *)
Definition err_code (e : err) : nat :=
  match e with
  | EDraw => 99
  | ENotImplemented => 2
  | EAssertShape => 1
  | EAssertAttr => 3
  | ELabel => 4
  | ERank => 5
  | EAlpha => 6
  end%nat.

(* an exception is inside the documented behaviour only where the code says so explicitly *)
Definition label_in_range (n : nat) (l : label) : bool :=
  match l with LInt y => (0 <=? y) && (y <? Z.of_nat n) | LVec _ => true end.
Definition err_allowed (c : cfg) (ds : dataset) (toks : list token) (code : nat) : bool :=
  match code with
  | 1%nat => match unify c with UNone => true | _ => false end          (* assert x.shape == x2.shape *)
  | 2%nat => Qltb 0 (cutmix_p c) || match unify c with UOther => true | _ => false end
  | 3%nat => has_other toks
  | 4%nat => negb (forallb (fun k => label_in_range (ds_ncls ds) (ds_cls ds k)) (seq 0 (ds_len ds)))  (* one_hot raises *)
  | 6%nat => match mixup_alpha c with None => Qltb 0 (cutmix_p c) | Some _ => false end   (* cutmix-only config *)
  | _ => false
  end.

(* the heap reading (Heap.v) of the observed getitem_xclass calls of the request, over the dataset literal stored at
   addresses 0..n-1: the x item comes from the last call (a label requested before the image is first loaded by a call
   of its own, then overwritten by the fused call); it lives in the dataset's storage iff its address is a stored one *)
Definition store_of (lit : list sample_lit) (ncls : nat) (alias : bool) : store :=
  {| st_len := length lit; st_addr := fun k => k; st_alias := alias;
     st_cls := fun k => snd (nth k (map (fun s => (lit_tensor s, snd s)) lit) (empty_t, LInt 0)); st_ncls := ncls |}.
Definition predicted_shares (lit : list sample_lit) (ncls : nat) (alias : bool) (c : cfg) (idx : nat) (cs : list ocall)
  : option bool :=
  let h0 := map lit_tensor lit in
  let '(_, rs) := run_history (store_of lit ncls alias) c (map (fun oc => (idx, oc_draws oc)) cs) h0 in
  match last rs (Err EDraw) with
  | Ok a => Some (a <? length h0)%nat
  | Err _ => None
  end.
Definition shares_match (pred obs : option bool) : bool :=
  match obs, pred with
  | None, _ => true
  | Some b, Some b' => Bool.eqb b b'
  | Some _, None => false
  end.

(* the label heap reading (Heap.label_request_h) of the last observed call over the stored labels at addresses 0..n-1:
   where it says the returned label is a new object (class-id labels, mixed samples) the observed label must be one;
   where it says the dataset's stored vector is handed on (untouched sample with a vector label) nothing is required
   (a long vector is converted, a smoothing wrapper below builds a new vector: both new objects in reality) *)
Definition predicted_label_fresh (lit : list sample_lit) (ncls : nat) (c : cfg) (idx : nat) (cs : list ocall) : option bool :=
  let h0 := map (fun s => match snd s with LVec v => v | LInt _ => [] end) lit in
  match rev cs with
  | [] => None
  | oc :: _ =>
      match label_request_h (lit_dataset lit ncls) c idx (oc_draws oc) h0 with
      | Some (_, a) => Some (length h0 <=? a)%nat
      | None => None
      end
  end.
Definition lab_fresh_match (pred obs : option bool) : bool :=
  match obs, pred with
  | Some false, Some true => false
  | _, _ => true
  end.

Definition case_t : Type :=
  cfg * (list sample_lit * nat) * list token * nat * nat * obs.

(* 0 = implementation, model and spec agree; 1 = the model differs from the implementation;
   2 = the spec is false on the implementation's output (incl.: the wrapped dataset was modified) *)
Definition check (t : case_t) : nat :=
  let '(c, (lit, ncls), toks, idx, outcome, o) := t in
  let ds := lit_dataset lit ncls in
  let m := mw_getitem ds c (oracle_of (o_calls o)) toks idx in
  match outcome with
  | O =>
      if negb (spec_obs ds c toks idx (o_wit o) (o_items o) (o_ctx_ids o)) || o_store_changed o
         || negb (lab_fresh_match (predicted_label_fresh lit ncls c idx (o_calls o)) (o_lab_fresh o)) then 2%nat else
      match m with
      | Ok (vals, calls) =>
          if forall2b value_match vals (o_items o) && forall2b call_match calls (o_calls o)
             && shares_match (predicted_shares lit ncls (o_alias o) c idx (o_calls o)) (o_x_shares o)
          then 0%nat else 1%nat
      | Err _ => 1%nat
      end
  | _ =>
      if negb (err_allowed c ds toks outcome) || o_store_changed o then 2%nat else
      match m with
      | Err e => if (err_code e =? outcome)%nat then 0%nat else 1%nat
      | Ok _ => 1%nat
      end
  end.
