(* C15 — proofs.  The leaf-level lemmas are closed by tactics that mention NO generated name (they destruct every
   generated record, unfold everything down to rational arithmetic and finish with lra / ring / the between lemmas),
   so they are re-checked unchanged against whatever gen/Strength.v the translator produced from the current
   sources; a scaling formula that no longer has the property makes the corresponding lemma fail. *)
From Coq Require Import ZArith QArith Qminmax Qround Qabs List Bool Lia Lqa.
Import ListNotations.
From KD Require Import C15.Base C15.BaseLemmas C15.gen.Strength C15.Sched C15.Spec.
Open Scope Q_scope.

(* destruct every generated record / option / num variable in the context (never a Q or Z) *)
Ltac destruct_states :=
  repeat match goal with
  | x : option Q |- _ => destruct x
  | x : num |- _ => destruct x
  | x : ?T |- _ =>
      lazymatch T with
      | Q => fail | Z => fail | positive => fail | nat => fail | option _ => fail | num => fail
      | leaf => fail | tree => fail | list _ => fail
      | _ => lazymatch type of T with
             | Prop => fail
             | _ => destruct x
             end
      end
  end.

(* unfold everything down to rational arithmetic *)
Ltac to_arith :=
  cbv -[Qeq Qle Qlt Qplus Qmult Qminus Qopp Qdiv Qinv Qmax Qmin Qtrunc inject_Z between Z.le Z.lt] in *.

Ltac elim_minmax :=
  repeat match goal with
  | |- context [Qmax ?a ?b] =>
      let m := fresh "m" in pose proof (Q.max_spec a b); set (m := Qmax a b) in *; clearbody m
  | |- context [Qmin ?a ?b] =>
      let m := fresh "m" in pose proof (Q.min_spec a b); set (m := Qmin a b) in *; clearbody m
  end.

Lemma leaf_last_wins : forall l f g, leaf_scale (leaf_scale l f) g = leaf_scale l g.
Proof. intros l f g. destruct l; destruct_states; reflexivity. Qed.

Ltac solve_eq_goal :=
  repeat match goal with |- _ /\ _ => split end;
  try exact I;
  try (apply (f_equal NI));
  try (apply Qtrunc_eq_Z; cbv [inject_Z]);
  elim_minmax; try lra; try lia.

Lemma leaf_one_restores : forall l, leaf_wf l -> leaf_constructed l -> leaf_eq (leaf_scale l 1) l.
Proof.
  intros l W C. destruct l; destruct_states; to_arith.
  all: repeat match goal with H : _ /\ _ |- _ => destruct H end.
  all: subst.
  all: solve_eq_goal.
Qed.

Lemma leaf_zero_weakest : forall l, leaf_weakest (leaf_scale l 0).
Proof.
  intros l. destruct l; destruct_states; to_arith.
  all: solve_eq_goal.
Qed.

(* between (e 0) (e f) (e g) for an expression affine in the factor, under max / min / int *)
Ltac between_tac f :=
  repeat first [ apply between_Qmax | apply between_Qmin | apply between_trunc ];
  lazymatch goal with
  | |- between ?A ?X ?B =>
      let e := eval pattern f in X in
      lazymatch e with
      | ?h _ => first
          [ apply (between_affine h); [ intro; cbv beta; ring | assumption | assumption ]
          | apply between_refl ]
      end
  end.

Lemma leaf_monotone : forall l f g, 0 <= f -> f <= g ->
  all3 between (leaf_bounds (leaf_scale l 0)) (leaf_bounds (leaf_scale l f)) (leaf_bounds (leaf_scale l g)).
Proof.
  intros l f g Hf Hfg. destruct l; destruct_states; to_arith.
  all: repeat match goal with |- _ /\ _ => split end; try exact I.
  all: between_tac f.
Qed.

(* the sampled ranges stay ranges: goals  lo(f) <= hi(f)  with lo, hi affine in f under max / min, premises
   og_lo <= og_hi, 0 <= f <= 1 and the constructor domain: non-linear (products og * f), closed by nra *)
Lemma leaf_ordered_scaled : forall l f, 0 <= f -> f <= 1 -> leaf_wf l -> leaf_dom l -> leaf_ordered (leaf_scale l f).
Proof.
  intros l f Hf Hf1 W D. destruct l; destruct_states; to_arith.
  all: repeat match goal with H : _ /\ _ |- _ => destruct H end.
  all: repeat match goal with |- _ /\ _ => split end; try exact I.
  all: elim_minmax; nra.
Qed.

Lemma leaf_ordered_constructed : forall l, leaf_constructed l -> leaf_dom l -> leaf_ordered l.
Proof.
  intros l C D. destruct l; destruct_states; to_arith.
  all: repeat match goal with H : _ /\ _ |- _ => destruct H end.
  all: repeat match goal with |- _ /\ _ => split end; try exact I.
  all: lra.
Qed.

(* induction over trees with the hypothesis for every member of a composition *)
Lemma tree_ind' : forall (P : tree -> Prop),
  (forall l, P (Leaf l)) -> P Opaque -> P Foreign ->
  (forall ts, Forall P ts -> P (Compose ts)) -> forall t, P t.
Proof.
  intros P HL HO HF HC. fix IH 1. intros [l| | |ts].
  - apply HL.
  - exact HO.
  - exact HF.
  - apply HC. induction ts as [|c r IHr]; constructor; [apply IH | exact IHr].
Qed.

Lemma tree_last_wins : forall t f g, tree_scale (tree_scale t f) g = tree_scale t g.
Proof.
  intros t f g. induction t as [l| | |ts IH] using tree_ind'; simpl; try reflexivity.
  - rewrite leaf_last_wins. reflexivity.
  - f_equal. rewrite map_map. apply map_ext_in. intros c Hc.
    rewrite Forall_forall in IH. apply IH. exact Hc.
Qed.

Lemma tree_seq_last_wins : forall fs t f,
  fold_left tree_scale (fs ++ [f]) t = tree_scale t f.
Proof.
  induction fs as [|a fs IH]; intros t f; simpl.
  - reflexivity.
  - rewrite IH. apply tree_last_wins.
Qed.

Lemma tree_one_restores : forall t, tree_wf t -> tree_constructed t -> tree_eq (tree_scale t 1) t.
Proof.
  intros t. induction t as [l| | |ts IH] using tree_ind'; simpl; intros W C; try exact I.
  - apply leaf_one_restores; assumption.
  - induction ts as [|c r IHr]; simpl; [exact I|].
    inversion IH; subst. destruct W as [W1 W2]. destruct C as [C1 C2]. split.
    + apply H1; assumption.
    + apply IHr; assumption.
Qed.

Lemma tree_zero_weakest : forall t, tree_weakest (tree_scale t 0).
Proof.
  intros t. induction t as [l| | |ts IH] using tree_ind'; simpl; try exact I.
  - apply leaf_zero_weakest.
  - induction ts as [|c r IHr]; simpl; [exact I|].
    inversion IH; subst. split; [assumption | apply IHr; assumption].
Qed.

Lemma tree_monotone : forall t f g, 0 <= f -> f <= g ->
  bounds_between (tree_scale t 0) (tree_scale t f) (tree_scale t g).
Proof.
  intros t f g Hf Hfg. unfold bounds_between.
  induction t as [l| | |ts IH] using tree_ind'; simpl; try exact I.
  - apply leaf_monotone; assumption.
  - induction ts as [|c r IHr]; simpl; [exact I|].
    inversion IH; subst. apply all3_app; [assumption | apply IHr; assumption].
Qed.

Lemma tree_ordered_scaled : forall t f, 0 <= f -> f <= 1 -> tree_wf t -> tree_dom t -> tree_ordered (tree_scale t f).
Proof.
  intros t f Hf Hf1. induction t as [l| | |ts IH] using tree_ind'; simpl; intros W D; try exact I.
  - apply leaf_ordered_scaled; assumption.
  - induction ts as [|c r IHr]; simpl; [exact I|].
    inversion IH; subst. destruct W as [W1 W2]. destruct D as [D1 D2]. split.
    + apply H1; assumption.
    + apply IHr; assumption.
Qed.

Lemma tree_ordered_constructed : forall t, tree_constructed t -> tree_dom t -> tree_ordered t.
Proof.
  intros t. induction t as [l| | |ts IH] using tree_ind'; simpl; intros C D; try exact I.
  - apply leaf_ordered_constructed; assumption.
  - induction ts as [|c r IHr]; simpl; [exact I|].
    inversion IH; subst. destruct C as [C1 C2]. destruct D as [D1 D2]. split.
    + apply H1; assumption.
    + apply IHr; assumption.
Qed.

(* after any history of scalings the ranges are ordered (only the last factor matters) *)
Lemma tree_ordered_after : forall fs t f, 0 <= f -> f <= 1 -> tree_wf t -> tree_dom t ->
  tree_ordered (fold_left tree_scale (fs ++ [f]) t).
Proof. intros fs t f Hf Hf1 W D. rewrite tree_seq_last_wins. apply tree_ordered_scaled; assumption. Qed.

(* after any history of scalings, factor 1 restores the constructed parameters *)
Lemma tree_one_restores_after : forall fs t, tree_wf t -> tree_constructed t ->
  tree_eq (fold_left tree_scale (fs ++ [1]) t) t.
Proof. intros fs t W C. rewrite tree_seq_last_wins. apply tree_one_restores; assumption. Qed.
Open Scope Z_scope.

(* ---- round-robin arithmetic ---- *)
Lemma div_mul_add : forall a b c, 0 < b -> 0 <= c < b -> (a * b + c) / b = a.
Proof. intros a b c Hb Hc. symmetry. apply (Z.div_unique_pos (a * b + c) b a c); lia. Qed.
Lemma mod_mul_add : forall a b c, 0 < b -> 0 <= c < b -> (a * b + c) mod b = c.
Proof. intros a b c Hb Hc. symmetry. apply (Z.mod_unique_pos (a * b + c) b a c); lia. Qed.

Lemma rr_forward : forall W B n, 0 < W -> 0 < B -> 0 <= n ->
  rr_local W B n / B * W + rr_owner W B n = rr_batch B n /\
  0 <= rr_owner W B n < W /\ 0 <= rr_local W B n.
Proof.
  intros W B n HW HB Hn. unfold rr_local, rr_owner, rr_batch.
  pose proof (Z.mod_pos_bound n B HB). pose proof (Z.mod_pos_bound (n / B) W HW).
  assert (0 <= n / B) by (apply Z.div_pos; lia).
  assert (0 <= n / B / W) by (apply Z.div_pos; lia).
  rewrite div_mul_add by lia.
  split; [|split; [lia|nia]].
  pose proof (Z.div_mod (n / B) W). lia.
Qed.

Lemma rr_inverse : forall W B r s, 0 < W -> 0 < B -> 0 <= r < W -> 0 <= s ->
  rr_owner W B (rr_global W B r s) = r /\
  rr_local W B (rr_global W B r s) = s /\
  rr_batch B (rr_global W B r s) = s / B * W + r /\
  0 <= rr_global W B r s.
Proof.
  intros W B r s HW HB Hr Hs. unfold rr_owner, rr_local, rr_batch, rr_global.
  pose proof (Z.mod_pos_bound s B HB).
  assert (0 <= s / B) by (apply Z.div_pos; lia).
  rewrite mod_mul_add by lia. rewrite div_mul_add by lia.
  rewrite mod_mul_add by lia. rewrite div_mul_add by lia.
  repeat split; try nia.
  pose proof (Z.div_mod s B). lia.
Qed.

Lemma rr_global_of_local : forall W B n, 0 < W -> 0 < B -> 0 <= n ->
  rr_global W B (rr_owner W B n) (rr_local W B n) = n.
Proof.
  intros W B n HW HB Hn. unfold rr_global.
  destruct (rr_forward W B n HW HB Hn) as [E _]. rewrite E.
  unfold rr_local, rr_batch. pose proof (Z.mod_pos_bound n B HB).
  rewrite mod_mul_add by lia. pose proof (Z.div_mod n B ltac:(lia)) as D. rewrite Z.mul_comm in D. lia.
Qed.

(* the samples of one worker keep their global order *)
Lemma rr_global_increasing : forall W B r s s', 0 < W -> 0 < B -> 0 <= r < W -> 0 <= s < s' ->
  rr_global W B r s < rr_global W B r s'.
Proof.
  intros W B r s s' HW HB Hr Hs. unfold rr_global.
  pose proof (Z.mod_pos_bound s B HB). pose proof (Z.mod_pos_bound s' B HB).
  pose proof (Z.div_mod s B). pose proof (Z.div_mod s' B).
  assert (s / B <= s' / B) by (apply Z.div_le_mono; lia).
  destruct (Z.eq_dec (s / B) (s' / B)) as [E|E].
  - rewrite E in *. lia.
  - assert (s / B + 1 <= s' / B) by lia.
    assert (s / B * W + W <= s' / B * W) by nia.
    assert ((s / B * W + r) * B + B <= (s' / B * W + r) * B) by nia.
    lia.
Qed.

(* ---- several DataLoader iterators (one per epoch) ----
   torch deals the bpe batches of every iterator round-robin starting at worker 0 again (observed by the real-loader
   multi_iter cases of the harness).  PERSISTENT workers keep their sample counter: the worker that gets batch k of
   iterator e (both 0-based) has seen e * (bpe / W) + k / W full batches before when W divides bpe, and the index it
   computes is the global batch e * bpe + k. *)
Lemma persistent_aligned : forall W B bpe e k j nb inner,
  0 < W -> 0 < B -> bpe mod W = 0 -> 0 <= e -> 0 <= k < bpe -> 0 <= j < B ->
  batch_idx (mk_wstate (k mod W) W B nb ((e * (bpe / W) + k / W) * B + j) inner) = e * bpe + k.
Proof.
  intros W B bpe e k j nb inner HW HB Hd He Hk Hj. unfold batch_idx. simpl.
  rewrite div_mul_add by lia.
  pose proof (Z.div_mod bpe W ltac:(lia)) as D1. rewrite Hd in D1.
  pose proof (Z.div_mod k W ltac:(lia)) as D2.
  nia.
Qed.

(* workers re-created for every iterator start from sample_counter = 0: the index computed for batch k of iterator e
   is k whatever e - the schedule restarts (the recorded finding fixes/C15_multi_iterator_epochs.txt) *)
Lemma fresh_workers_restart : forall W B k j nb inner, 0 < W -> 0 < B -> 0 <= k -> 0 <= j < B ->
  batch_idx (mk_wstate (k mod W) W B nb ((k / W) * B + j) inner) = k.
Proof.
  intros W B k j nb inner HW HB Hk Hj. unfold batch_idx. simpl. rewrite div_mul_add by lia.
  pose proof (Z.div_mod k W ltac:(lia)). lia.
Qed.

(* ---- the model: the s-th call of a worker uses its sample counter s ---- *)
Lemma sched_call_fields : forall sched w,
  let w1 := fst (sched_call sched w) in
  ws_rank w1 = ws_rank w /\ ws_workers w1 = ws_workers w /\ ws_bs w1 = ws_bs w /\ ws_nb w1 = ws_nb w /\
  ws_counter w1 = ws_counter w + 1 /\
  ws_inner w1 = tree_scale (ws_inner w) (snd (sched_call sched w)).
Proof. intros. unfold w1, sched_call. simpl. repeat split; reflexivity. Qed.

Definition value_at (sched : Z -> Z -> Q) (w : wstate) (i : Z) : Q :=
  sched ((ws_counter w + i) / ws_bs w * ws_workers w + ws_rank w) (ws_nb w).

Lemma worker_run_values : forall sched k w,
  fst (worker_run sched k w) = map (fun i => value_at sched w (Z.of_nat i)) (seq 0 k).
Proof.
  intros sched k. induction k as [|k IH]; intros w; simpl; [reflexivity|].
  destruct (worker_run sched k _) as [vs w2] eqn:E.
  simpl. f_equal.
  - unfold value_at, batch_idx. rewrite Z.add_0_r. reflexivity.
  - specialize (IH (mk_wstate (ws_rank w) (ws_workers w) (ws_bs w) (ws_nb w) (ws_counter w + 1)
                      (tree_scale (ws_inner w) (sched (batch_idx w) (ws_nb w))))).
    rewrite E in IH. simpl in IH. rewrite IH. rewrite <- seq_shift, map_map.
    apply map_ext. intros i. unfold value_at. simpl. f_equal. f_equal. f_equal. f_equal. lia.
Qed.

(* the wrapped transform after k+1 calls is the ORIGINAL one scaled by the last value only *)
Lemma worker_run_inner : forall sched k w,
  ws_inner (snd (worker_run sched (S k) w)) = tree_scale (ws_inner w) (value_at sched w (Z.of_nat k)).
Proof.
  intros sched k. induction k as [|k IH]; intros w.
  - simpl. unfold value_at, batch_idx. rewrite Z.add_0_r. reflexivity.
  - change (worker_run sched (S (S k)) w) with
      (let '(w1, v) := sched_call sched w in let '(vs, w2) := worker_run sched (S k) w1 in (v :: vs, w2)).
    unfold sched_call.
    set (w1 := mk_wstate _ _ _ _ _ _).
    specialize (IH w1). destruct (worker_run sched (S k) w1) as [vs w2] eqn:E. simpl in *.
    rewrite IH. unfold w1 at 1. simpl. rewrite tree_last_wins. f_equal.
    unfold value_at, w1. simpl. f_equal. f_equal. f_equal. f_equal. lia.
Qed.

(* the s-th sample seen by worker r of W gets the schedule's value at global batch (s / B) * W + r,
   which is the batch of the global sample that round-robin makes the worker's s-th sample *)
Lemma worker_sample_value : forall sched W B r i inner k s,
  0 < W -> 0 < B -> 0 <= r < W -> (s < k)%nat ->
  let w := worker_init r W B i inner in
  nth s (fst (worker_run sched k w)) 0%Q =
    sched (rr_batch B (rr_global W B r (Z.of_nat s))) (n_batches_of i B).
Proof.
  intros sched W B r i inner k s HW HB Hr Hs w.
  rewrite worker_run_values.
  set (fv := fun i0 : nat => value_at sched w (Z.of_nat i0)).
  rewrite (nth_indep _ 0%Q (fv O)) by (rewrite map_length, seq_length; exact Hs).
  rewrite map_nth. rewrite seq_nth by exact Hs. unfold fv. simpl.
  unfold value_at, w, worker_init. simpl.
  destruct (rr_inverse W B r (Z.of_nat s) HW HB Hr ltac:(lia)) as (_ & _ & E & _).
  rewrite E. reflexivity.
Qed.

Lemma worker_run_inner_and_value : forall sched k w,
  ws_inner (snd (worker_run sched (S k) w)) = tree_scale (ws_inner w) (value_at sched w (Z.of_nat k)) /\
  nth k (fst (worker_run sched (S k) w)) 0%Q = value_at sched w (Z.of_nat k).
Proof.
  intros sched k w. split; [apply worker_run_inner|].
  rewrite worker_run_values.
  set (fv := fun i0 : nat => value_at sched w (Z.of_nat i0)).
  rewrite (nth_indep _ 0%Q (fv O)) by (rewrite map_length, seq_length; lia).
  rewrite map_nth. rewrite seq_nth by lia. reflexivity.
Qed.

(* number of samples worker r has seen before global sample n, in closed form *)
Definition cnt (W B r n : Z) : Z :=
  let b := n / B in
  b / W * B + (if r <? b mod W then B else if r =? b mod W then n mod B else 0).

Lemma cnt_0 : forall W B r, 0 < W -> 0 < B -> 0 <= r < W -> cnt W B r 0 = 0.
Proof.
  intros W B r HW HB Hr. unfold cnt. rewrite Z.div_0_l by lia. rewrite Z.div_0_l by lia.
  rewrite !Z.mod_0_l by lia.
  destruct (Z.ltb_spec r 0); [lia|]. destruct (Z.eqb_spec r 0); lia.
Qed.

Lemma cnt_owner : forall W B n, cnt W B (rr_owner W B n) n = rr_local W B n.
Proof.
  intros. unfold cnt, rr_owner, rr_local. rewrite Z.ltb_irrefl, Z.eqb_refl. reflexivity.
Qed.

Lemma succ_div_mod : forall n B, 0 < B -> 0 <= n ->
  (n mod B + 1 < B /\ (n + 1) / B = n / B /\ (n + 1) mod B = n mod B + 1) \/
  (n mod B + 1 = B /\ (n + 1) / B = n / B + 1 /\ (n + 1) mod B = 0).
Proof.
  intros n B HB Hn. pose proof (Z.mod_pos_bound n B HB) as Ho.
  pose proof (Z.div_mod n B ltac:(lia)) as D.
  destruct (Z_lt_dec (n mod B + 1) B) as [L|L]; [left|right]; split; try lia.
  - replace (n + 1) with (n / B * B + (n mod B + 1)) by lia.
    rewrite div_mul_add, mod_mul_add by lia. split; reflexivity.
  - replace (n + 1) with ((n / B + 1) * B + 0) by lia.
    rewrite div_mul_add, mod_mul_add by lia. split; reflexivity.
Qed.

Lemma cnt_succ : forall W B r n, 0 < W -> 0 < B -> 0 <= n -> 0 <= r < W ->
  cnt W B r (n + 1) = cnt W B r n + (if r =? rr_owner W B n then 1 else 0).
Proof.
  intros W B r n HW HB Hn Hr. unfold cnt, rr_owner.
  assert (Hb : 0 <= n / B) by (apply Z.div_pos; lia).
  pose proof (Z.mod_pos_bound n B HB) as Ho.
  pose proof (Z.mod_pos_bound (n / B) W HW) as Hm.
  destruct (succ_div_mod n B HB Hn) as [(L & E1 & E2)|(L & E1 & E2)]; rewrite E1, E2.
  - destruct (Z.ltb_spec r ((n / B) mod W)); destruct (Z.eqb_spec r ((n / B) mod W)); lia.
  - destruct (succ_div_mod (n / B) W HW Hb) as [(L' & F1 & F2)|(L' & F1 & F2)]; rewrite F1, F2.
    + destruct (Z.ltb_spec r ((n / B) mod W)); destruct (Z.eqb_spec r ((n / B) mod W));
        destruct (Z.ltb_spec r ((n / B) mod W + 1)); destruct (Z.eqb_spec r ((n / B) mod W + 1)); lia.
    + destruct (Z.ltb_spec r ((n / B) mod W)); destruct (Z.eqb_spec r ((n / B) mod W));
        destruct (Z.ltb_spec r 0); destruct (Z.eqb_spec r 0); lia.
Qed.

(* ---- set_nth ---- *)
Lemma set_nth_length : forall A k (x : A) l, length (set_nth k x l) = length l.
Proof. intros A k x l. revert k. induction l as [|a l IH]; intros [|k]; simpl; auto. Qed.
Lemma set_nth_same : forall A k (x : A) l, (k < length l)%nat -> nth_error (set_nth k x l) k = Some x.
Proof. intros A k x l. revert k. induction l as [|a l IH]; intros [|k] H; simpl in *; try lia; auto. apply IH. lia. Qed.
Lemma set_nth_other : forall A k j (x : A) l, k <> j -> nth_error (set_nth k x l) j = nth_error l j.
Proof.
  intros A k j x l. revert k j. induction l as [|a l IH]; intros [|k] [|j] H; simpl; auto; try congruence.
Qed.

Lemma nth_error_map_seq : forall A (f : nat -> A) W a r, (r < W)%nat ->
  nth_error (map f (seq a W)) r = Some (f (a + r)%nat).
Proof.
  intros A f W. induction W as [|W IH]; intros a r H; [lia|].
  destruct r as [|r]; simpl.
  - rewrite Nat.add_0_r. reflexivity.
  - rewrite IH by lia. f_equal. f_equal. lia.
Qed.

Definition pool_inv (W : nat) (B : Z) (i : init_t) (inner : tree) (n : nat) (pool : list wstate) : Prop :=
  length pool = W /\
  forall r, (r < W)%nat -> exists t,
    nth_error pool r = Some (mk_wstate (Z.of_nat r) (Z.of_nat W) B (n_batches_of i B)
                                       (cnt (Z.of_nat W) B (Z.of_nat r) (Z.of_nat n)) t) /\
    forall v, tree_scale t v = tree_scale inner v.

Lemma init_pool_inv : forall W B i inner, (0 < W)%nat -> 0 < B -> pool_inv W B i inner 0 (init_pool W B i inner).
Proof.
  intros W B i inner HW HB. unfold pool_inv, init_pool. split.
  - rewrite map_length, seq_length. reflexivity.
  - intros r Hr. exists inner. split; [|reflexivity].
    rewrite nth_error_map_seq by exact Hr. simpl.
    unfold worker_init. rewrite cnt_0 by lia. reflexivity.
Qed.

Definition expected_obs (sched : Z -> Z -> Q) (B : Z) (i : init_t) (inner : tree) (n : nat) : Q * tree :=
  let v := sched (rr_batch B (Z.of_nat n)) (n_batches_of i B) in (v, tree_scale inner v).

Lemma pool_run_from : forall sched W B i inner, (0 < W)%nat -> 0 < B ->
  forall N n0 pool, pool_inv W B i inner n0 pool ->
  pool_run sched pool (map (rr_owner_nat W B) (seq n0 N)) = map (expected_obs sched B i inner) (seq n0 N).
Proof.
  intros sched W B i inner HW HB N. induction N as [|N IH]; intros n0 pool [Hlen Hinv]; simpl; [reflexivity|].
  pose proof (rr_forward (Z.of_nat W) B (Z.of_nat n0) ltac:(lia) HB ltac:(lia)) as (Ebatch & Hown & Hloc).
  set (o := rr_owner_nat W B n0).
  assert (Ho : (o < W)%nat) by (unfold o, rr_owner_nat; lia).
  assert (Eo : Z.of_nat o = rr_owner (Z.of_nat W) B (Z.of_nat n0)) by (unfold o, rr_owner_nat; lia).
  destruct (Hinv o Ho) as (t & Hnth & Ht).
  set (w := mk_wstate (Z.of_nat o) (Z.of_nat W) B (n_batches_of i B)
                      (cnt (Z.of_nat W) B (Z.of_nat o) (Z.of_nat n0)) t) in *.
  assert (Hidx : batch_idx w = rr_batch B (Z.of_nat n0)).
  { unfold batch_idx, w. simpl. rewrite Eo, cnt_owner. exact Ebatch. }
  assert (Hcnt : forall r, (r < W)%nat ->
            cnt (Z.of_nat W) B (Z.of_nat r) (Z.of_nat (S n0)) =
            cnt (Z.of_nat W) B (Z.of_nat r) (Z.of_nat n0) + (if Nat.eq_dec o r then 1 else 0)).
  { intros r Hr. replace (Z.of_nat (S n0)) with (Z.of_nat n0 + 1) by lia.
    rewrite cnt_succ by lia. rewrite <- Eo.
    destruct (Nat.eq_dec o r); destruct (Z.eqb_spec (Z.of_nat r) (Z.of_nat o)); lia. }
  unfold pool_call. rewrite Hnth. unfold sched_call. rewrite Hidx.
  set (v := sched (rr_batch B (Z.of_nat n0)) (ws_nb w)).
  f_equal.
  - unfold expected_obs. simpl. unfold v, w. simpl. rewrite Ht. reflexivity.
  - apply IH. split; [rewrite set_nth_length; exact Hlen|].
    intros r Hr. specialize (Hcnt r Hr). destruct (Nat.eq_dec o r) as [E|E].
    + subst r. exists (tree_scale t v). split.
      * rewrite set_nth_same by lia. unfold w; cbn [ws_rank ws_workers ws_bs ws_nb ws_counter ws_inner]. rewrite Hcnt. reflexivity.
      * intros v'. rewrite tree_last_wins. apply Ht.
    + destruct (Hinv r Hr) as (t' & Hnth' & Ht'). exists t'. split; [|exact Ht'].
      rewrite set_nth_other by exact E. rewrite Hnth'. rewrite Hcnt. rewrite Z.add_0_r. reflexivity.
Qed.

(* end to end: W workers, each starting from a copy of the constructed transform with counter 0, fed the global
   sample stream round-robin: EVERY sample of global batch b gets schedule(b), in ctx and in the wrapped transform *)
Lemma pool_run_round_robin : forall sched W B i inner N, (0 < W)%nat -> 0 < B ->
  pool_run sched (init_pool W B i inner) (map (rr_owner_nat W B) (seq 0 N)) =
  map (expected_obs sched B i inner) (seq 0 N).
Proof. intros. apply pool_run_from; try assumption. apply init_pool_inv; assumption. Qed.

(* rr_local really is "how many samples of the same worker came before" *)
Lemma cnt_counts : forall W B r n, 0 < W -> 0 < B -> 0 <= r < W ->
  cnt W B r (Z.of_nat n) =
  Z.of_nat (length (filter (fun m => rr_owner W B (Z.of_nat m) =? r) (seq 0 n))).
Proof.
  intros W B r n HW HB Hr. induction n as [|n IH].
  - simpl. apply cnt_0; assumption.
  - replace (Z.of_nat (S n)) with (Z.of_nat n + 1) by lia.
    rewrite cnt_succ by lia. rewrite IH.
    rewrite seq_S, filter_app, app_length, Nat2Z.inj_add. f_equal.
    rewrite (Z.eqb_sym r). cbn [filter Nat.add].
    destruct (rr_owner W B (Z.of_nat n) =? r); reflexivity.
Qed.

Lemma rr_local_counts : forall W B n, 0 < W -> 0 < B ->
  rr_local W B (Z.of_nat n) =
  Z.of_nat (length (filter (fun m => rr_owner W B (Z.of_nat m) =? rr_owner W B (Z.of_nat n)) (seq 0 n))).
Proof.
  intros W B n HW HB. rewrite <- cnt_owner. apply cnt_counts; try assumption.
  apply rr_forward; lia.
Qed.
