(* C03 — executable comparison of the real wrapper's selection with the model
   (code 1 = differs) and with the spec (code 2 = spec false on the real output). *)
From Coq Require Import ZArith List Bool Floats.
Import ListNotations.
From KD Require Import C03.Model C03.ModelFloat C03.Spec.
Open Scope Z_scope.

Definition olist_eqb (a b : option (list Z)) : bool :=
  match a, b with
  | Some x, Some y => list_eqb x y
  | None, None => true
  | _, _ => false
  end.

(* inputs, constructor call (with recorded draws), observed selection (None = raised),
   for range wrappers the selections of the two complementary wrappers, and - where a second wrapper was
   constructed on top of the first - that constructor call (with its recorded draws) and the selection observed
   through both wrappers *)
Definition case_t : Type :=
  (list Z * Z * wcase * option (list Z) * list (list Z) * option (wcase * option (list Z)))%type.

Definition labels_ok (classes : list Z) (C : Z) : bool :=
  forallb (fun c => (0 <=? c) && (c <? C)) classes.

(* unlabeled samples (-1) allowed *)
Definition labels_ok_u (classes : list Z) (C : Z) : bool :=
  forallb (fun c => (-1 <=? c) && (c <? C)) classes.

Definition contiguous (out : list Z) : bool :=
  match out with [] => true | a :: _ => list_eqb out (zrange a (a + zlen out)) end.

Definition partition_ok (classes : list Z) (out : list Z) (compl : list (list Z)) : bool :=
  match compl with
  | [before; after] => list_eqb (before ++ out ++ after) (all_ids classes)
  | _ => false
  end.

Definition spec_holds (classes : list Z) (C : Z) (w : wcase) (o : list Z) (compl : list (list Z)) : bool :=
  let n := zlen classes in
  match w with
  | WClassFilter v cls =>
      list_eqb o (spec_class_filter classes (fun c => Bool.eqb (existsb (Z.eqb c) cls) v))
  | WClassFilterNames v cn names => list_eqb o (spec_class_filter_names classes v cn names)
  | WPercent f t cf ct =>
      (* np.arange(a, b): the block [a, b), empty when b <= a *)
      is_block (fcut cf (odflt f 0%float) n) (fcut ct (odflt t 1%float) n) o && in_range classes o
      && (if fcut cf (odflt f 0%float) n <=? fcut ct (odflt t 1%float) n then partition_ok classes o compl else true)
  | WSubsetIdx idxs =>
      in_range classes o && Nat.eqb (length o) (length idxs)
      && forallb (fun '(x, i) => (x =? i) || (x =? n + i)) (combine o idxs)
  | WSubsetRange _ _ => contiguous o && in_range classes o && partition_ok classes o compl
  | WSubsetPercent _ _ => contiguous o && in_range classes o && partition_ok classes o compl
  | WShuffle _ => is_permutation classes o
  | WRepeat r m =>
      match m with
      | Some m' => let k := zlen o / n in list_eqb o (copies classes k) && (m' <=? zlen o) && (zlen o <? m' + n)
      | None => list_eqb o (copies classes (odflt r 0))
      end
  | WOversample ex =>
      if labels_ok_u classes (n_classes_eff C) then
        in_range classes o && keeps_all classes o && unlabeled_once classes o
        && (if ex then balanced_exact classes (n_classes_eff C) o else balanced_multiply classes (n_classes_eff C) o)
      else true
  | WSortByClass =>
      if labels_ok_u classes C then is_permutation classes o && sorted_stable classes o else true
  | WIntraClass _ =>
      if labels_ok_u classes C then is_permutation classes o && list_eqb (map (cls classes) o) classes else true
  | WFewshot k _ =>
      (* FewshotWrapper never reads getdim_class: no condition on the labels (fewshot_counts has none) *)
      if 0 <=? k then fewshot_ok classes k o else true
  | WClasswiseRange s e chk =>
      if labels_ok_u classes (n_classes_eff C) && (0 <=? odflt s 0) then
        let e' := Z.min (odflt e n) n in
        list_eqb o (spec_classwise classes (fun _ => odflt s 0) (fun cnt => Z.min e' cnt) C)
        && (if chk then forallb (fun c => e' <=? count_of c classes) (class_ids C) else true)
      else true
  | WClasswisePercent s e =>
      if labels_ok_u classes (n_classes_eff C) then
        list_eqb o (spec_classwise classes (fcut32 false (odflt s 0%float)) (fcut32 false (odflt e 1%float)) C)
      else true
  end.

(* the clauses of Proofs.pct_contract (and monotonicity where the wrapper asserts p <= q) for the
   binary64 instance, at the sizes this case uses *)
Definition float_cut_ok_g (fcut : bool -> float -> Z -> Z) (m : Z) (ps : list (option float)) : bool :=
  (fcut false 0%float m =? 0) && (fcut true 0%float m =? 0) && (fcut false 1%float m =? m) && (fcut true 1%float m =? m)
  && forallb (fun op => match op with
                        | Some p => if pct_ok p
                                    then (0 <=? fcut false p m) && (fcut false p m <=? m)
                                         && (0 <=? fcut true p m) && (fcut true p m <=? m)
                                         && PrimFloat.leb 0 p && PrimFloat.leb p 1
                                    else true
                        | None => true
                        end) ps.

Definition float_cut_ok := float_cut_ok_g fcut.

Definition float_mono_ok_g (fcut : bool -> float -> Z -> Z) (m : Z) (s e : option float) : bool :=
  let sp := odflt s 0%float in let ep := odflt e 1%float in
  if pct_ok sp && pct_ok ep && PrimFloat.leb sp ep then fcut false sp m <=? fcut false ep m else true.

Definition float_mono_ok := float_mono_ok_g fcut.

Definition float_contract_ok (classes : list Z) (C : Z) (w : wcase) : bool :=
  let n := zlen classes in
  match w with
  | WPercent f t _ _ => float_cut_ok n [f; t]
  | WSubsetPercent s e => float_cut_ok n [s; e] && float_mono_ok n s e
  | WClasswisePercent s e =>
      (* binary32 here; the clause cut 1. = m needs m < 2**24 *)
      forallb (fun c => let m := count_of c classes in float_cut_ok_g fcut32 m [s; e] && float_mono_ok_g fcut32 m s e) (class_ids C)
  | _ => true
  end.

(* constructor calls that must not raise *)
Definition given {A} (a b : option A) : bool := is_some a || is_some b.

Definition must_succeed (classes : list Z) (C : Z) (w : wcase) : bool :=
  let n := zlen classes in
  match w with
  | WClassFilter _ _ | WClassFilterNames _ _ _ | WShuffle _ | WSortByClass => true
  | WOversample _ => labels_ok_u classes (n_classes_eff C) && negb (Nat.eqb (length classes) 0) && (0 <? C)
  | WPercent f t _ _ => pct_ok (odflt f 0%float) && pct_ok (odflt t 1%float)
  | WSubsetRange s e => given s e && (0 <=? odflt s 0) && (odflt s 0 <=? Z.min (odflt e n) n)
  | WSubsetPercent s e =>
      given s e && pct_ok (odflt s 0%float) && pct_ok (odflt e 1%float) && PrimFloat.leb (odflt s 0%float) (odflt e 1%float)
  | WRepeat r m =>
      (0 <? n) && match r, m with Some r', None => 0 <? r' | None, Some m' => 0 <? m' | _, _ => false end
  | WIntraClass _ => labels_ok_u classes C
  | WFewshot k _ => (0 <=? k) && (0 <? n)
  | WClasswiseRange s e chk =>
      let e' := Z.min (odflt e n) n in
      labels_ok_u classes (n_classes_eff C) && given s e && (0 <=? odflt s 0) && (odflt s 0 <=? e')
      && (if chk then forallb (fun c => e' <=? count_of c classes) (class_ids C) else true)
  | WClasswisePercent s e =>
      labels_ok_u classes (n_classes_eff C) && given s e && pct_ok (odflt s 0%float) && pct_ok (odflt e 1%float)
      && PrimFloat.leb (odflt s 0%float) (odflt e 1%float)
  | WSubsetIdx _ => false
  end.

(* a second wrapper on top: the selection seen through both equals the model's composition (Model.stacked_with) *)
Definition stack_agrees (classes : list Z) (C : Z) (w : wcase) (st : option (wcase * option (list Z))) : bool :=
  match st with
  | None => true
  | Some (w2, composed) => olist_eqb (stacked classes C w w2) composed
  end.

(* 0 = impl, model and spec agree; 1 = model differs from impl; 2 = spec false on the impl's
   output; 3 = the binary64 percent -> index map violates the contract the theorems assume *)
Definition check (c : case_t) : nat :=
  let '(classes, C, w, out, compl, st) := c in
  if negb (float_contract_ok classes C w) then 3%nat else
  match out with
  | Some o => if negb (spec_holds classes C w o compl) then 2%nat
              else if olist_eqb (run classes C w) out && stack_agrees classes C w st then 0%nat else 1%nat
  | None => if must_succeed classes C w then 2%nat
            else if olist_eqb (run classes C w) out then 0%nat else 1%nat
  end.
