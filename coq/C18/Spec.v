(* C18 — what the collator pipeline promises, without implementation vocabulary
   (no flags): which operations a call performs, in which order, and what the
   padding collator returns. *)
From Coq Require Import ZArith List Bool.
Import ListNotations.
From KD Require Import C18.Model.
Open Scope Z_scope.

Definition is_dc (o : op) : bool := match o with DefaultCollate => true | _ => false end.
Definition count_dc (t : list op) : nat := length (filter is_dc t).

(* number of leading members that do not ask for default collation *)
Fixpoint leading_none (ms : list cmode) : nat :=
  match ms with MNone :: r => S (leading_none r) | _ => 0%nat end.

(* a call runs to the end only for  None* [ (Before|After) Before* ] :
   once the batch is collated, a member that needs per-sample input (None) or that
   asks for collation after itself (After) is rejected by an assertion *)
Fixpoint well_ordered (ms : list cmode) : bool :=
  match ms with
  | [] => true
  | MNone :: r => well_ordered r
  | _ :: r => forallb is_before r
  end.

Definition all_none (ms : list cmode) : bool := forallb is_none ms.

Definition calls (from n : nat) : list op := map Call (seq from n).

(* The operations of a successful call, in order.
   - members are called once each, in order (Call 0, Call 1, ...);
   - DefaultCollate happens once: immediately before the first "before" member or
     immediately after the first "after" member, whichever comes first; never if all
     members are None;
   - contexts (if returned) are split off and collated once, before the first member
     that sees per-sample input; if the very first member asks "before", they are
     instead collated together with the batch and unpacked. *)
Fixpoint spec_uncollated (k : nat) (ms : list cmode) : list op :=
  match ms with
  | [] => []
  | MNone :: r => Call k :: spec_uncollated (S k) r
  | MBefore :: r => DefaultCollate :: calls k (S (length r))
  | MAfter :: r => Call k :: DefaultCollate :: calls (S k) (length r)
  end.

Definition spec_trace (rc : bool) (ms : list cmode) : list op :=
  match ms with
  | [] => []
  | MBefore :: r => DefaultCollate :: (if rc then [UnpackCtx] else []) ++ calls 0 (length ms)
  | _ => (if rc then [SplitCtx; CollateCtx] else []) ++ spec_uncollated 0 ms
  end.

(* ---- data side ---- *)
Definition rows_of (f : cfield) : nat := match f with CVec _ l => length l | CMat _ _ r => length r end.

(* n items per sample, B samples *)
Definition items_shape (n B : nat) (l : list (list field)) : Prop :=
  length l = B /\ Forall (fun s => length s = n) l.
Definition coll_shape (n B : nat) (c : list cfield) : Prop :=
  length c = n /\ Forall (fun f => rows_of f = B) c.

(* the layout given by the dataset mode: per-sample tuples of n items, or n collated
   entries (position p = item p of the mode) each covering the B samples *)
Definition has_layout (n B : nat) (collated : bool) (b : batch) : Prop :=
  match b with
  | BItems l => collated = false /\ items_shape n B l
  | BColl c => collated = true /\ coll_shape n B c
  | _ => False
  end.

(* what the pipeline receives: ModeWrapper samples with (rc) or without contexts *)
Definition raw_input (n B : nat) (rc : bool) (b : batch) : Prop :=
  match b with
  | BRaw l => rc = true /\ items_shape n B (map fst l)
  | BItems l => rc = false /\ items_shape n B l
  | _ => False
  end.

(* contract of a member that keeps the layout it is given *)
Definition keeps_layout (n B : nat) (m : member) : Prop :=
  forall b x b' x' c, mcollate m b x = Some (b', x') -> has_layout n B c b -> has_layout n B c b'.
(* contract of a member that does not touch the context *)
Definition keeps_ctx (m : member) : Prop :=
  forall b x b' x', mcollate m b x = Some (b', x') -> x' = x.
(* a member that only adds to / overwrites in the context *)
Definition keys (x : bctx) : list Z := map fst x.
Definition extends_ctx (m : member) : Prop :=
  forall b x b' x', mcollate m b x = Some (b', x') -> incl (keys x) (keys x').
(* a member that returns what it gets *)
Definition transparent (m : member) : Prop := forall b x, mcollate m b x = Some (b, x).

Definition sample_ctxs (b : batch) : list sctx := match b with BRaw l => map snd l | _ => [] end.
Definition sample_items (b : batch) : list (list field) :=
  match b with BRaw l => map fst l | BItems l => l | _ => [] end.

(* ---- padding ---- *)
(* every step of every row is a block of prod(trailing) numbers *)
Definition well_shaped (tr : list nat) (rows : list (list elem)) : Prop :=
  forall r e, In r rows -> In e r -> length e = numel tr.

(* one padded field: a column of sequences (tensors of shape (L_i, *tr), dtype d) becomes a
   tensor of the same dtype and trailing shape whose row i is the original steps of
   sample i followed by all-zero steps up to M = the largest number of STEPS in the batch
   (attained by some sample; nothing is padded beyond it); anything else is what default
   collation gives *)
Definition padded_field (col : list field) (out : cfield) : Prop :=
  match col with
  | FSeq d tr _ :: _ =>
      exists rows M, map_opt (get_seq d tr) col = Some rows
        /\ (forall r, In r rows -> (length r <= M)%nat) /\ (exists r, In r rows /\ length r = M)
        /\ out = CMat d tr (map (fun r => r ++ repeat (repeat 0 (numel tr)) (M - length r)) rows)
        /\ (forall p, In p (map (fun r => r ++ repeat (repeat 0 (numel tr)) (M - length r)) rows) -> length p = M)
        /\ (well_shaped tr rows ->
            well_shaped tr (map (fun r => r ++ repeat (repeat 0 (numel tr)) (M - length r)) rows))
  | _ => collate_col col = Some out
  end.
