(* Executable comparison of what the real functions did in the sandbox with the model
   (plan / run / crash prefix) and with the spec.  Used by harness/c20.py.

   A case = configuration, initial tree below the sandbox root, and the observed sequence of
   invocations (killed ones and ones that returned), each with the directory-scan order it saw,
   the system calls it completed, what it returned and the tree afterwards. *)
From Coq Require Import List String Bool Arith ZArith.
Import ListNotations.
From KD Require Import C20.Model C20.Spec.

Record obs := {
  o_order : list path;        (* entries in the order in which the call removed them (the scan oracle) *)
  o_trace : list ev;          (* the system calls that completed *)
  o_ret : option result;      (* None = killed *)
  o_tree : fs;                (* the sandbox afterwards *)
}.

Definition case_t : Type := config * fs * list obs.

Definition ev_eqb (a b : ev) : bool :=
  match a, b with
  | EMkdir p, EMkdir q | ECreate p, ECreate q | EUnlink p, EUnlink q | ERmdir p, ERmdir q => path_eqb p q
  | EWrite p c, EWrite q d => path_eqb p q && content_eqb c d
  | ERename p p', ERename q q' => path_eqb p q && path_eqb p' q'
  | _, _ => false
  end.

Fixpoint list_eqb {A} (f : A -> A -> bool) (a b : list A) : bool :=
  match a, b with
  | [], [] => true
  | x :: a', y :: b' => f x y && list_eqb f a' b'
  | _, _ => false
  end.

Definition fs_eqb (a b : fs) : bool :=
  forallb (fun ke => oentry_eqb (lookup a (fst ke)) (lookup b (fst ke))) a
  && forallb (fun ke => oentry_eqb (lookup a (fst ke)) (lookup b (fst ke))) b.

Definition format_eqb (a b : format) : bool :=
  match a, b with Raw, Raw | Zip, Zip | Zips, Zips => true | _, _ => false end.
Definition result_eqb (a b : result) : bool :=
  Bool.eqb (was_copied a) (was_copied b) && Bool.eqb (was_deleted a) (was_deleted b)
  && match source_format a, source_format b with
     | None, None => true
     | Some x, Some y => format_eqb x y
     | _, _ => false
     end.

(* the state after exactly j completed system calls of the plan *)
Fixpoint run_events (j : nat) (ops : list op) (s : fs) : fs * list ev :=
  match ops with
  | [] => (s, [])
  | o :: r =>
      match apply o s with
      | None => (s, [])
      | Some (s1, e1) =>
          if List.length e1 <=? j
          then let '(s2, e2) := run_events (j - List.length e1) r s1 in (s2, e1 ++ e2)
          else (s, [])
      end
  end.

(* one observed invocation against the model started from the model state s: Some s' = agrees *)
Definition model_step (c : config) (s : fs) (o : obs) : option fs :=
  match plan c (o_order o) s with
  | ORaise => None
  | OSkip r =>
      match o_trace o, o_ret o with
      | [], Some r' => if result_eqb r r' && fs_eqb s (o_tree o) then Some s else None
      | _, _ => None
      end
  | ORun ops r =>
      match o_ret o with
      | Some r' =>
          match run ops s with
          | Some (s', evs) =>
              if result_eqb r r' && list_eqb ev_eqb evs (o_trace o) && fs_eqb s' (o_tree o) then Some s' else None
          | None => None
          end
      | None =>
          let '(s', evs) := run_events (List.length (o_trace o)) ops s in
          if list_eqb ev_eqb evs (o_trace o) && fs_eqb s' (o_tree o) then Some s' else None
      end
  end.

Fixpoint model_agrees (c : config) (s : fs) (l : list obs) : bool :=
  match l with
  | [] => true
  | o :: r => match model_step c s o with Some s' => model_agrees c s' r | None => false end
  end.

(* ---- the property on what the implementation did (no model involved) ---- *)
Definition present (o : option entry) : bool := match o with Some _ => true | None => false end.
Definition manualb (c : config) (s : fs) : bool := present (lookup s (dst c)) && negb (present (lookup s (smark c))).
Definition doneb (c : config) (s : fs) : bool :=
  present (lookup s (dst c)) && present (lookup s (smark c)) && present (lookup s (emark c)).
Definition is_nil {A} (l : list A) : bool := match l with [] => true | _ => false end.

(* prev = the observed tree before the invocation *)
Definition spec_step (c : config) (s0 prev : fs) (o : obs) : bool :=
  match o_ret o with
  | None => true                                             (* nothing is claimed about a killed call ... *)
  | Some r =>
      (* crash_safe *)
      (if manualb c s0
       then fs_eqb (o_tree o) s0 && result_eqb r nothing_done && is_nil (o_trace o)
       else complete_copyb c (o_tree o))
      (* result_truthful *)
      && (if was_copied r
          then negb (is_nil (o_trace o))
               && match source_format r with Some f => format_eqb f (format_of c) | None => false end
               && Bool.eqb (was_deleted r) (present (lookup prev (dst c)))
          else is_nil (o_trace o) && fs_eqb (o_tree o) prev && result_eqb r nothing_done)
      (* completed_copy_never_redone *)
      && (if doneb c prev then is_nil (o_trace o) && fs_eqb (o_tree o) prev else true)
  end
  (* ... except that it never touches a manual folder or a completed copy either *)
  && (if manualb c s0 || doneb c prev then is_nil (o_trace o) && fs_eqb (o_tree o) prev else true).

Fixpoint spec_holds (c : config) (s0 prev : fs) (l : list obs) : bool :=
  match l with
  | [] => true
  | o :: r => spec_step c s0 prev o && spec_holds c s0 (o_tree o) r
  end.

(* 0 = implementation, model and spec agree; 1 = the model differs from the implementation;
   2 = the spec is false of what the implementation did; 3 = the case is outside the domain (src_ok) *)
Definition check (t : case_t) : nat :=
  let '(c, s0, l) := t in
  if negb (src_ok c) then 3
  else if negb (spec_holds c s0 s0 l) then 2
  else if negb (model_agrees c s0 l) then 1
  else 0.
