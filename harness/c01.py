"""C01 — the mode string decides exactly which items a sample has, and in which order (ModeWrapper).

Cases are random dataset stacks built from the REAL base classes (a KDDataset root or a TorchWrapper over a plain
torch dataset, 0-3 layers of KDWrapper subclasses / KDSubset on top) whose item loaders return symbolic tokens
("x@3", "w2.x(x@3)") and record sample-specific entries into the ctx, optionally with wrappers that declare jointly
loaded items (`fused_operations`) and implement the joint loader; a mode string over the available items with
`index`, `ctx.<key>` (keys from a rich alphabet: related names recorded side by side), duplicates and permutations
around the fused groups; and a history of steps on ONE ModeWrapper object -- indexing (int, negative, slice, list), len
and ITERATOR operations as first-class steps (it_k = iter(mw), next(it_k), for-loop over it_k, several iterators alive
at once) -- followed by a full iteration and len.  The real ModeWrapper is run; the Coq model
(coq/C01/Model.v) and spec (Spec.v) are evaluated on the same stack; the independent Python oracle below states the
property with plain list/dict operations (reference sequence semantics = indexing `list(range(n))`)."""
import itertools

from .common import C, Nat, Opt, Raw, Rec, Str, coq

ID = "C01"
COQ_FILES = ["C01/Model.v", "C01/Spec.v", "C01/Check.v", "C01/Proofs.v", "C01/Occ.v", "C01/PlanState.v", "C01/PlanEq.v",
             "C01/Bounds.v", "C01/Iter.v", "C01/Live.v", "C01/Property.v"]
COQ_PRELUDE = ("From Coq Require Import ZArith List Bool String.\nImport ListNotations.\n"
               "From KD Require Import C01.Model C01.Spec C01.Check.\nOpen Scope Z_scope.\n")
COQ_CHECK = "check"
COQ_CASE_TYPE = "case_t"
SHARD = 100
TRUSTED = [
    "hand-written model coq/C01/Model.v of ModeWrapper.__init__/__getitem__/__iter__ (generator frames as iterator objects "
    "with a position of their own: it_next / it_rest / run_ops)/__len__, the static helpers "
    "has_item/add_item/get_item_index/get_item/set_item and TorchWrapper.getitem_*; tied to KD_REPO by this run's "
    "correspondence evaluation (fused plan = zip(fused_items, fused_to_idxs), propagate_ctx, every returned sample, "
    "the loader calls the stack received, constructor exceptions)",
    "the dataset stack below the ModeWrapper is abstracted into what it answers (len, fused_operations, "
    "requires_propagate_ctx, hasattr(type(ds)/ds, getitem_*), loader results + ctx writes); KDDataset/KDWrapper/"
    "KDSubset/TorchWrapper attribute delegation is exercised by the real stack and cross-checked against the declared "
    "stack by the Python oracle on every case, not proved",
    "a loader is modelled as a function (item, index, ctx) -> (value, ctx): Python loaders mutate the dict they are "
    "handed; theorem ctx_fresh assumes they cannot replace it (writes_within)",
    "Python semantics cited: str.split(' '), list.index, range(n)[slice] (PySlice_AdjustIndices, proved equal to the "
    "language reference's description in slice_indices_are_python), dict as ctx, isinstance(batch, (list, tuple)), "
    "generator objects (a generator function call creates a new frame; next() resumes it; an exception leaving the "
    "frame or its end finishes it for good; iter(generator) is the generator); exercised against CPython on every case",
    "harness/c01.py: stack builder with token loaders, depth-0 call log and call stamps, canonicalisation of samples; "
    "Check.v (tab_load: table-driven loaders incl. the call-stamp convention) is test scaffolding, not part of the proofs",
]
ASSUMPTIONS = [
    "indices: any int (also numpy ints), lists of ints, any slice (step 0 = ValueError).  idx < -len is an IndexError "
    "(Python sequence semantics; repaired by fixes/C01_negative_index_range.patch).  idx >= len is NOT checked by "
    "ModeWrapper (an endless balanced KDConcatDataset has no len): it is handed to the loaders unchanged -- IndexError "
    "exactly when a loader / KDSubset below raises it; the check verifies this hand-through behaviour and reports the "
    "deviation from sequence semantics as a recorded finding (fixes/C01_index_above_len.txt, corpus/C01/known_above_range.json)",
    "'ctx.<key>' items placed after an item that records the key (never / not yet recorded keys: KeyError is claimed "
    "where no call order could have recorded it, otherwise only model agreement)",
    "fused_operations pass the constructor's two assertions and contain no empty group (groups_ok); stacks declaring "
    "jointly loaded items: every loader call the mode needs (own loaders and joint loaders) is implemented on the "
    "outermost wrapper's class -- the oracle also claims that the constructor rejects everything else",
    "getitem_positions_pure: loaders deterministic in (item, index), the joint loader's j-th component equals the j-th "
    "member's own item, group members and joint loader names are loader names (not 'index' / 'ctx.*'); the general "
    "theorems (getitem_positions, getitem_is_spec_sample, ctx_fresh, shape, sequence semantics) need none of this",
    "loaders that raise their own exception (after their ctx writes): the access ends with that exception and the "
    "NEXT access is compared with model and spec as usual (nothing of the aborted sample survives); the aborted access "
    "itself is judged by the Python oracle only (loaders of the Coq model are total functions)",
    "ctx keys: any string without a space (what str.split(' ') leaves in one item) and without a double quote "
    "(rendering); the key '#' is reserved for the harness's call stamps",
    "iterator steps: iterators are addressed by small numbers (a name re-used by a later iter() drops the earlier "
    "iterator); next() / for-loop on a name never created behaves like a finished iterator (harness convention, "
    "model: no_its); a for-loop is cut after len+3 samples (runaway guard)",
    "ModeWrapper.__getattr__ delegation (marker attributes defined and shadowed at random layers), root_dataset / "
    "all_wrappers / has_wrapper(_type) / get_wrappers_of_type / collators / dispose / context manager through the "
    "ModeWrapper are checked by the Python oracle here and modelled in Coq under C02 (AttrModel.AMode)",
    "stack changed below the wrapper (phases): between two histories the root's number of samples changes and / or a "
    "KDSubset layer's `indices` is re-assigned (list / ndarray, any length) or edited in place, always leaving every index "
    "map valid for the layer below; iterators are not carried across a change (a generator started before a resize keeps "
    "the range it computed -- not claimed either way); for these cases Coq evaluates the LAST phase (current stack, the "
    "answers of the wrapper built before the changes), the first history is judged by the Python oracle",
    "DataLoader cases: torch's default_collate and the fetcher are trusted to hand over what dataset[i] returns; the "
    "check is that un-collating the batches gives back the samples of plain iteration (which model and spec cover), "
    "with num_workers 0 (quick) and 2 (thorough), and that has/get/set_item address the right column of a real batch "
    "(a one-item mode: the batch itself, also when it is a list / tuple -- decided by the mode since repair 54b49a1)",
]
ALLOWED_AXIOMS = []
KNOWN_FINDINGS_PROPOSED = [
    {"property": "C01", "match": {"probe": "above_range"},
     "what": "ModeWrapper(ds, 'index')[len(ds)] returns len(ds) (and mw[i] for any i >= len returns whatever the loaders "
             "answer) instead of raising IndexError; not repaired: a bound check needs len(), which an endless balanced "
             "KDConcatDataset refuses (fixes/C01_index_above_len.txt)"},
]
RULE = ("random stacks: root of size 0-6 with 2-5 token items (KDDataset or TorchWrapper root), 0-3 layers (KDWrapper "
        "subclasses overriding/adding items with 0-2 ctx writes each incl. index-dependent keys, KDSubset with repeats), "
        "0-2 fused groups of 1-3 ops (occasionally containing 'index', unimplemented, duplicated or declared below the "
        "outermost layer); modes of 1-7 items with index / ctx.* / duplicates / permutations around the groups, a few "
        "unavailable or empty items; ctx keys per case from a family of related names (a base name -- one-letter keys, keys "
        "starting with c / t / x / '.', 'ctx', 'ctx.ctx', two_random_crop, transform_choice, KDSolarize.threshold, item names, "
        "'index' -- with its proper suffixes / prefixes / dotted parts / doubled letters / 'ctx.'-prefixed forms, recorded "
        "side by side with values naming the exact key), index-dependent keys requested too; 40% of the stacks stamp every loader call with a per-sample call counter kept in the ctx "
        "(makes visible which load was delivered and that group members come from one joint load); histories of 1-6 accesses int / negative / slice(start,stop,step incl. None, "
        "out-of-range, negative, 0) / list, 8% out-of-range ints (below -len, at/above len, +-1e20, also inside lists), 10% "
        "numpy ints; in 40% woven with an iterator episode (1-3 iterators alive at once: iter / next / for-loop over the "
        "rest / len, zip(mw, mw), nested loops, peek-then-list, re-created names, next after exhaustion; plus 57 directed "
        "episodes), then iteration and len; return_ctx on/off; 0-3 static-helper and 0-2 TorchWrapper probes; 12% of the "
        "stacks with 1-2 loaders raising at one index after their ctx writes; marker attributes defined at random layers; 7% "
        "(plus 120 directed) with a real DataLoader (batch sizes 1-5, drop_last, over KDSubset / fused wrappers, with/without "
        "ctx) and the static helpers on its batches; directed: whitespace variants of the mode string (double / leading / "
        "trailing spaces, empty mode); 30% of the cases (plus 17 directed) continue with 1-2 phases 'change the stack below "
        "the wrapper (root grows / shrinks / empties, a subset layer's indices re-assigned as list / ndarray to the same / a "
        "longer / a shorter / an empty map or edited in place, layers above repaired), then use the wrapper built BEFORE: len, "
        "-1, -len, len-1, full slices, lists with negative entries, new iterators, iteration' -- compared with the property on "
        "the CURRENT stack and with a ModeWrapper built now.  non-trivial = constructed and at least one sample returned; distinct by (item pattern "
        "relative to the groups, layer kinds, rc, index forms)")

POOL = ["x", "class", "semseg", "y", "z"]
KEYS = ["k", "m", "q"]
# ctx keys are arbitrary strings without a space.  Base names: one-letter keys, keys starting with every letter of the
# item prefix "ctx." and with the dot, keys the library really records (KDTwoRandomCrop: two_random_crop, KDTransformChoice:
# transform_choice, dotted "<Transform>.<param>" keys), keys equal to item names / to "index" / to "ctx" itself
KEY_BASES = ["k", "m", "q", "c", "t", "x", ".", "xx", "tag", "ctx", "ctx.ctx", "crop", "two_random_crop", "transform_choice",
             "KDSolarize.threshold", "x_og", "og", ".foo", "class", "index", "view0", "message", "t.x", "cxt", "..", "x."]


def key_family(base):
    """names related to `base` the way a wrong key computation relates them: proper suffixes and prefixes (a key that
    another key truncates into), the dotted parts, doubled first / last letters, the name with the item prefix or a dot
    in front / behind.  A lookup that strips, splits or slices the wrong amount then finds ANOTHER recorded key."""
    fam = [base]
    for i in range(1, min(len(base), 5) + 1):
        fam += [base[i:], base[:-i]]
    fam += [q for q in base.split(".")] + [base.split(".", 1)[-1], base.rsplit(".", 1)[0]]
    fam += [base + base[-1:], base[:1] + base, "ctx." + base, "." + base, base + ".", "ctx" + base, base + "ctx."]
    out = []
    for k in fam:
        if k not in out and " " not in k and '"' not in k and k != "#":
            out.append(k)
    return out


def gen_key_pool(rng):
    """the 3-6 keys the loaders of one case record under: a base name with members of its family (so that truncated /
    extended names are recorded too, with other values), plus unrelated ones"""
    r = rng.random()
    if r < 0.25:
        return list(KEYS)
    base = rng.choice(KEY_BASES)
    fam = [k for k in key_family(base) if k != base]
    pool = [base] + rng.sample(fam, min(len(fam), rng.choice([1, 2, 2, 3])))
    if rng.random() < 0.5:
        b2 = rng.choice(KEY_BASES)
        pool += [b2] + rng.sample(key_family(b2), 1)
    pool += rng.sample(KEYS, rng.choice([0, 1, 1]))
    if rng.random() < 0.9:
        pool = [k for k in pool if k != ""] or [base]      # the empty key (item "ctx.") only now and then
    return list(dict.fromkeys(pool))


# ---------------------------------------------------------------------------
# the declared stack (independent of kappadata): what each layer's loaders are supposed to return
# ---------------------------------------------------------------------------
def n_levels(case):
    return len(case["layers"])


def outer_len(case):
    n = case["size"]
    for L in case["layers"]:
        if L["t"] == "sub":
            n = len(L["indices"])
    return n


def level_len(case, level):
    n = case["size"]
    for L in case["layers"][:level]:
        if L["t"] == "sub":
            n = len(L["indices"])
    return n


def is_torch(case):
    return case["root"].get("kind") == "torch"


def avail(case, level, name):
    """hasattr(<dataset at level>, 'getitem_' + name)"""
    if level == 0:
        return name in case["root"]["items"]
    L = case["layers"][level - 1]
    if L["t"] == "wrap" and (name in L["impl"] or name in L["joint"]):
        return True
    return avail(case, level - 1, name)


def on_type(case, name):
    """hasattr(type(<outermost dataset>), 'getitem_' + name)"""
    if not case["layers"]:
        return (not is_torch(case)) and name in case["root"]["items"]
    L = case["layers"][-1]
    return L["t"] == "wrap" and (name in L["impl"] or name in L["joint"])


def declared_groups(case):
    out = []
    for L in case["layers"]:
        if L["t"] == "wrap":
            out += [list(g) for g in L["fused"]]
    return out


def declared_req(case):
    return bool(case["root"].get("req")) or any(L["t"] == "wrap" and L["req"] for L in case["layers"])


def stamped(case):
    """call stamps: a loader called from outside reads the counter ctx['#'], increments it and pairs every item it
    returns with the counter it read"""
    return bool(case.get("stamp")) and not is_torch(case)


def stamp_value(v, n):
    return tuple((m, n) for m in v) if isinstance(v, tuple) else (v, n)


def exp_direct(case, name, idx):
    """(value, ctx) of a direct call stack.getitem_<name>(idx, {}) on the declared stack (LoaderBoom where it raises)"""
    w = []
    v = exp_load(case, n_levels(case), name, idx, w, boom=True)
    d = {}
    if stamped(case):
        v = stamp_value(v, 0)
        d["#"] = 1
    for k, val in w:
        d[k] = val
    return v, d


def wkey(key, per, idx):
    return f"{key}.{idx}" if per else key


def wval(key, level, name, idx, per=False):
    """what a loader records: names the EXACT key it is recorded under (so that a lookup under a truncated / extended /
    neighbouring key that happens to exist is seen to deliver another key's value)"""
    return f"{wkey(key, per, idx)}<{level}.{name}.{idx}"


class LoaderBoom(Exception):
    """what a loader of the harness stack raises (after its ctx writes) where the case says so"""


def raises_at(case, level, name, idx):
    return [level, name, idx] in case.get("raises", [])


def exp_load(case, level, name, idx, writes, boom=False):
    """token the loader `getitem_<name>` of the dataset at `level` returns for idx; appends its ctx writes; with boom=True
    raises LoaderBoom where a loader of the stack is declared to raise"""
    if level == 0:
        items = case["root"]["items"]
        if name not in items:
            raise LookupError(name)
        for key, per in items[name]:
            writes.append((wkey(key, per, idx), wval(key, 0, name, idx, per)))
        if boom and raises_at(case, 0, name, idx):
            raise LoaderBoom()
        return f"{name}@{idx}"
    L = case["layers"][level - 1]
    if L["t"] == "sub":
        return exp_load(case, level - 1, name, L["indices"][idx], writes, boom)
    if name in L["impl"]:
        if avail(case, level - 1, name):
            val = f"w{level}.{name}({exp_load(case, level - 1, name, idx, writes, boom)})"
        else:
            val = f"w{level}.{name}@{idx}"
        for key, per in L["impl"][name]:
            writes.append((wkey(key, per, idx), wval(key, level, name, idx, per)))
        if boom and raises_at(case, level, name, idx):
            raise LoaderBoom()
        return val
    if name in L["joint"]:
        return tuple(idx if op == "index" else exp_load(case, level, op, idx, writes, boom) for op in L["joint"][name])
    return exp_load(case, level - 1, name, idx, writes, boom)


def booms(case, j):
    """does loading sample j (index valid for the outermost dataset or beyond) run into a raising loader"""
    if not case.get("raises"):
        return False
    lvl = n_levels(case)
    for c in planned_calls(items_of(case), declared_groups(case)):
        if is_named(c):
            try:
                exp_load(case, lvl, c, j, [], boom=True)
            except LoaderBoom:
                return True
            except (LookupError, IndexError):
                pass
    return False


def items_of(case):
    return case["mode"].split(" ")


def is_named(s):
    return s != "index" and not s.startswith("ctx.")


def cand_names(case):
    """every loader name the check talks about"""
    names = []
    for s in items_of(case):
        if is_named(s):
            names.append(s)
    names += list(case["root"]["items"])
    for L in case["layers"]:
        if L["t"] == "wrap":
            names += list(L["impl"]) + list(L["joint"])
            names += ["".join(g) for g in L["fused"] if g]
    seen = []
    for s in names:
        if s not in seen:
            seen.append(s)
    return seen


def groups_wellformed(groups):
    flat = [op for g in groups for op in g]
    joined = ["".join(g) for g in groups]
    return all(len(g) > 0 for g in groups) and len(set(flat)) == len(flat) and len(set(joined)) == len(joined)


def planned_calls(items, groups):
    """the loader calls one sample needs, by occurrence counting (groups well-formed): the k-th complete set of a
    group is loaded jointly where the k-th occurrence of its first member stands; a member standing before that
    place is (also) loaded on its own; everything else is its own loader"""
    calls = []
    for p, s in enumerate(items):
        g = next((g for g in groups if s in g), None)
        k = items[:p].count(s)
        if g is not None and k < min(items.count(op) for op in g):
            if s == g[0]:
                calls.append("".join(g))
            elif p < [q for q, t in enumerate(items) if t == g[0]][k]:
                calls.append(s)
        else:
            calls.append(s)
    return calls


def missing_loaders(case):
    """named loader calls of the mode that are not available where the constructor looks for them"""
    groups = declared_groups(case)
    lvl = n_levels(case)
    return [c for c in planned_calls(items_of(case), groups)
            if is_named(c) and not (on_type(case, c) if groups else avail(case, lvl, c))]


def in_domain(case):
    """the property's domain: fused_operations well-formed, every loader call of the mode available where the
    constructor looks for it (with declared groups: on the outermost wrapper's class)"""
    groups = declared_groups(case)
    if not groups_wellformed(groups):
        return False
    if any(not is_named("".join(g)) for g in groups):
        return False
    return not missing_loaders(case)


# ---------------------------------------------------------------------------
# observation encoding
# ---------------------------------------------------------------------------
def enc(v):
    if isinstance(v, bool):
        return {"o": repr(v)}
    if isinstance(v, str):
        return {"s": v}
    if isinstance(v, int):
        return {"i": v}
    if v is None:
        return {"n": 0}
    if isinstance(v, tuple):
        return {"t": [enc(a) for a in v]}
    if isinstance(v, list):
        return {"l": [enc(a) for a in v]}
    if isinstance(v, dict):
        return {"d": sorted([[str(k), enc(a)] for k, a in v.items()], key=lambda kv: kv[0])}
    if hasattr(v, "item") and hasattr(v, "dtype"):
        if getattr(v, "ndim", 0) > 0 and hasattr(v, "tolist"):
            return {"l": [enc(a) for a in v.tolist()]}
        try:
            return {"i": int(v.item())}
        except Exception:
            pass
        if hasattr(v, "tolist"):
            return {"l": [enc(a) for a in v.tolist()]}
    return {"o": repr(v)[:80]}


def parse_sample(e, nitems, rc):
    """-> (shape, comps, ctx pairs | None) or None when the sample is not of the documented form"""
    if rc:
        if not (isinstance(e, dict) and "t" in e and len(e["t"]) == 2 and "d" in e["t"][1]):
            return None
        body, ctx = e["t"][0], e["t"][1]["d"]
    else:
        body, ctx = e, None
    if nitems == 1:
        return "bare", [body], ctx
    if "t" not in body:
        return None
    return "tuple", body["t"], ctx


def renderable(e):
    if "s" in e or "i" in e or "n" in e:
        return True
    if "t" in e:
        return all(renderable(a) for a in e["t"])
    return False


# ---------------------------------------------------------------------------
# the real stack
# ---------------------------------------------------------------------------
def _enter(st, name, ctx):
    """depth-0 bookkeeping: call log and call stamp"""
    if st["depth"] != 0:
        return None
    st["log"].append(name)
    if st["stamp"] and ctx is not None:
        n = ctx.get("#", 0)
        ctx["#"] = n + 1
        return n
    return None


def _mk_loader(level, name, writes, inner_has, st, boom_at=()):
    def getitem(self, idx, ctx=None):
        n = _enter(st, name, ctx)
        st["depth"] += 1
        try:
            val = body(self, idx, ctx)
        finally:
            st["depth"] -= 1
        return val if n is None else stamp_value(val, n)

    def body(self, idx, ctx):
        if level == 0:
            val = f"{name}@{idx}"
        elif inner_has:
            val = f"w{level}.{name}({getattr(self.dataset, 'getitem_' + name)(idx, ctx)})"
        else:
            val = f"w{level}.{name}@{idx}"
        if ctx is not None:
            for key, per in writes:
                ctx[wkey(key, per, idx)] = wval(key, level, name, idx, per)
        if idx in boom_at:
            raise LoaderBoom()
        return val
    getitem.__name__ = "getitem_" + name
    return getitem


def _boom_at(case, level, name):
    return tuple(i for lv, nm, i in case.get("raises", []) if lv == level and nm == name)


def _mk_joint(name, ops, st):
    def getitem(self, idx, ctx=None):
        n = _enter(st, name, ctx)
        st["depth"] += 1
        try:
            val = tuple(idx if op == "index" else getattr(self, "getitem_" + op)(idx, ctx) for op in ops)
        finally:
            st["depth"] -= 1
        return val if n is None else stamp_value(val, n)
    getitem.__name__ = "getitem_" + name
    return getitem


def build_stack(case, st):
    from kappadata.datasets.kd_dataset import KDDataset
    from kappadata.datasets.kd_wrapper import KDWrapper
    from kappadata.datasets.kd_subset import KDSubset
    st["size"] = case["size"]          # the root's number of samples lives in st: a root that grows / shrinks later
    root = case["root"]
    objs = st.setdefault("objs", [])
    if is_torch(case):
        import torch.utils.data
        from kappadata.wrappers.torch_wrapper import TorchWrapper
        titems = sorted(root["items"])

        class PlainTorch(torch.utils.data.Dataset):
            def __len__(self):
                return st["size"]

            def __getitem__(self, idx):
                return tuple(f"{it}@{idx}" for it in titems)
        ds = TorchWrapper(PlainTorch(), mode=" ".join(titems))
    else:
        ns = {"__len__": lambda self: st["size"]}
        if root.get("req"):
            ns["requires_propagate_ctx"] = property(lambda self: True)
        for name, writes in root["items"].items():
            ns["getitem_" + name] = _mk_loader(0, name, writes, False, st, _boom_at(case, 0, name))
        for a in root.get("attrs", []):
            ns[a] = 0
        ns["dispose"] = lambda self: st.__setitem__("disposed", st.get("disposed", 0) + 1)
        ds = type("RootDataset", (KDDataset,), ns)()
    objs.append(ds)
    for k, L in enumerate(case["layers"]):
        level = k + 1
        if L["t"] == "sub":
            ds = KDSubset(ds, list(L["indices"]))
            for a in L.get("attrs", []):
                setattr(ds, a, level)
            objs.append(ds)
            continue
        ns = {}
        for name, writes in L["impl"].items():
            ns["getitem_" + name] = _mk_loader(level, name, writes, avail(case, level - 1, name), st,
                                               _boom_at(case, level, name))
        for jn, ops in L["joint"].items():
            ns["getitem_" + jn] = _mk_joint(jn, list(ops), st)
        if L["fused"]:
            groups = [list(g) for g in L["fused"]]
            ns["fused_operations"] = property(
                lambda self, groups=groups: KDWrapper.fused_operations.fget(self) + [list(g) for g in groups])
        if L["req"]:
            ns["requires_propagate_ctx"] = property(lambda self: True)
        for a in L.get("attrs", []):
            ns[a] = property(lambda self, level=level: level)
        ds = type(f"Wrapper{level}", (KDWrapper,), ns)(dataset=ds)
        objs.append(ds)
    return ds


def _safe_hasattr(obj, name):
    try:
        return hasattr(obj, name)
    except AssertionError:      # TorchWrapper.__getattr__ asserts has_item
        return False


def _idx_of(acc):
    if acc["k"] == "int":
        if acc.get("ty") == "np":
            import numpy as np
            return np.int64(acc["i"])
        return acc["i"]
    if acc["k"] == "list":
        return list(acc["l"])
    return slice(acc["a"], acc["b"], acc["s"])


def _observe_stack(case, ds, obs):
    """what the stack below the ModeWrapper answers right now: len, declared groups, hasattr, every loader directly"""
    names = cand_names(case)
    n = len(ds)
    has = [s for s in names if _safe_hasattr(ds, "getitem_" + s)]
    obs["stack"] = {"len": n, "fused": [list(g) for g in ds.fused_operations],
                    "req": bool(ds.requires_propagate_ctx),
                    "has_type": [s for s in names if hasattr(type(ds), "getitem_" + s)], "has": has}
    direct = {}
    for s in has:
        rows = []
        for i in range(n):
            ctx = {}
            try:
                v = getattr(ds, "getitem_" + s)(i, ctx)
                rows.append([enc(v), enc(ctx)["d"]])
            except Exception as e:
                rows.append([{"o": "exc " + type(e).__name__}, []])
        direct[s] = rows
    obs["direct"] = direct
    return n


def _run_hist(mw, hist_steps, st, n, out):
    """the steps of one history on the ModeWrapper object mw (iterator names start empty), then a full iteration and len;
    n = current len of the stack (runaway guard of the loops only)"""
    hist = []
    live = {}          # iterator objects of this history: id -> what iter(mw) returned
    for acc in hist_steps:
        st["log"] = []
        st["depth"] = 0
        o = {}
        try:
            k = acc["k"]
            if k == "iter":
                live[acc["id"]] = iter(mw)
                o["kind"] = 0
                o["many"] = False
                o["res"] = []
            elif k == "len":
                o["len"] = len(mw)
                o["kind"] = 0
                o["many"] = False
                o["res"] = []
            elif k == "next":
                o["many"] = False
                o["res"] = []
                it_ = live.get(acc["id"])
                if it_ is None:
                    raise StopIteration     # an id no iterator was created for: like an exhausted one
                o["res"] = [enc(next(it_))]
                o["kind"] = 0
            elif k == "rest":
                # `for s in it` / list(it) on a possibly partially consumed iterator (calls iter(it) first, as both do);
                # the samples yielded before an exception are kept
                o["many"] = True
                o["res"] = []
                it_ = live.get(acc["id"])
                if it_ is not None:
                    for cnt, smp in enumerate(iter(it_)):
                        o["res"].append(enc(smp))
                        if cnt >= n + 2:
                            break
                o["kind"] = 0
            else:
                r = mw[_idx_of(acc)]
                o["kind"] = 0
                o["many"] = isinstance(r, list)
                o["res"] = [enc(s) for s in r] if isinstance(r, list) else [enc(r)]
        except StopIteration:
            o["kind"] = 6
        except ValueError:
            o["kind"] = 1
        except KeyError:
            o["kind"] = 2
        except IndexError:
            o["kind"] = 3
        except LoaderBoom:
            o["kind"] = 5
        except Exception as e:
            o["kind"] = 9
            o["exc"] = repr(e)[:200]
        o["log"] = list(st["log"])
        hist.append(o)
    out["hist"] = hist
    st["log"] = []
    st["depth"] = 0
    it = {"kind": 0, "res": []}
    try:
        for k, smp in enumerate(iter(mw)):
            it["res"].append(enc(smp))
            if k >= n + 2:
                break
    except KeyError:
        it["kind"] = 2
    except LoaderBoom:
        it["kind"] = 5
    except Exception as e:
        it["kind"] = 9
        it["exc"] = repr(e)[:200]
    out["iter"] = it
    try:
        out["lenobs"] = len(mw)
    except Exception as e:
        out["lenobs"] = repr(e)[:80]
    return out


def _apply_mut_real(st, muts):
    """the mutation steps on the REAL objects of the stack (st["objs"][level]; level 0 = root)"""
    for m in muts:
        if m["op"] == "root":
            st["size"] = m["size"]
            continue
        obj = st["objs"][m["level"]]
        new = list(m["indices"])
        if m["op"] == "assign":
            if m.get("as") == "np":
                import numpy as np
                new = np.array(new, dtype=np.int64)
            elif m.get("as") == "tuple":
                new = tuple(new)
            obj.indices = new
        elif isinstance(obj.indices, list):
            obj.indices[:] = new            # in-place edit of the container the layer holds (any new length)
        elif len(obj.indices) == len(new) and hasattr(obj.indices, "dtype"):
            obj.indices[...] = new          # ndarray: element-wise in place
        else:
            obj.indices = new


def mutated_case(case, muts):
    """the declared stack after the mutation steps"""
    c = dict(case)
    c["layers"] = [dict(L) for L in case["layers"]]
    for m in muts:
        if m["op"] == "root":
            c["size"] = m["size"]
        else:
            c["layers"][m["level"] - 1]["indices"] = list(m["indices"])
    return c


def phase_case(case, k):
    """the case as it stands in phase k (0-based) after the first history: the stack with all mutations up to and
    including phase k applied, the phase's history; the per-case probes of phase 0 are not repeated"""
    c = case
    for ph in case["phases"][:k + 1]:
        c = mutated_case(c, ph["mut"])
    c = dict(c)
    c["hist"] = case["phases"][k]["hist"]
    for key in ("phases", "dl", "probe"):
        c.pop(key, None)
    c["helpers"] = []
    c["torch"] = []
    return c


def phase_obs(obs, k):
    po = dict(obs["phases"][k])
    po.update(init=0, plan=obs.get("plan", []), prop=obs.get("prop", False), helpers=[], torch=[])
    return po


def run_impl(case):
    st = {"depth": 0, "log": [], "stamp": stamped(case)}
    ds = build_stack(case, st)
    from kappadata.wrappers.mode_wrapper import ModeWrapper
    obs = {}
    n = _observe_stack(case, ds, obs)

    # static helpers and TorchWrapper probes
    hs = []
    for h in case.get("helpers", []):
        b = h["batch"]
        batch = b["bare"] if "bare" in b else (tuple(b["tuple"]) if b.get("as") != "list" else list(b["tuple"]))
        o = {"has": bool(ModeWrapper.has_item(mode=h["mode"], item=h["item"])),
             "add": ModeWrapper.add_item(mode=h["mode"], item=h["item"])}
        try:
            o["index"] = ModeWrapper.get_item_index(mode=h["mode"], item=h["item"])
        except ValueError:
            o["index"] = None
        try:
            o["get"] = enc(ModeWrapper.get_item(mode=h["mode"], item=h["item"], batch=batch))
        except (AssertionError, ValueError, IndexError):
            o["get"] = None
        try:
            o["set"] = enc(ModeWrapper.set_item(mode=h["mode"], item=h["item"], batch=batch, value=h["value"]))
        except (AssertionError, ValueError, IndexError):
            o["set"] = None
        hs.append(o)
    obs["helpers"] = hs
    ts = []
    for t in case.get("torch", []):
        import torch.utils.data
        from kappadata.wrappers.torch_wrapper import TorchWrapper
        tup = tuple(t["tup"])

        class Tiny(torch.utils.data.Dataset):
            def __len__(self):
                return 1

            def __getitem__(self, idx):
                return tup
        tw = TorchWrapper(Tiny(), mode=t["tmode"])
        try:
            ts.append(enc(getattr(tw, "getitem_" + t["item"])(0, {})))
        except (AssertionError, ValueError, IndexError):
            ts.append(None)
    obs["torch"] = ts

    # the ModeWrapper itself
    st["log"] = []
    try:
        mw = ModeWrapper(dataset=ds, mode=case["mode"], return_ctx=case["rc"])
        obs["init"] = 0
    except AssertionError as e:
        tb = e.__traceback__
        while tb.tb_next is not None:
            tb = tb.tb_next
        in_torch = tb.tb_frame.f_code.co_filename.endswith("torch_wrapper.py")   # hasattr() on a TorchWrapper asserts
        obs["init"] = 3 if ("has no method" in str(e) or in_torch) else 1
        return obs
    except (IndexError, ValueError):
        obs["init"] = 2
        return obs
    obs["plan"] = [[nm, (list(ix) if isinstance(ix, list) else int(ix))]
                   for nm, ix in zip(mw.fused_items, mw.fused_to_idxs)]
    obs["prop"] = bool(mw.propagate_ctx)
    _run_hist(mw, case["hist"], st, n, obs)
    # the stack below the wrapper is a live object: mutate it (root grows / shrinks, a subset layer's indices are
    # re-assigned or edited in place), then use the OLD wrapper and a wrapper built now
    phases = []
    for ph in case.get("phases") or []:
        _apply_mut_real(st, ph["mut"])
        po = {}
        n2 = _observe_stack(case, ds, po)
        _run_hist(mw, ph["hist"], st, n2, po)
        fresh = {}
        _run_hist(ModeWrapper(dataset=ds, mode=case["mode"], return_ctx=case["rc"]), ph["hist"], st, n2, fresh)
        po["fresh"] = fresh
        phases.append(po)
    if phases:
        obs["phases"] = phases
    obs["deleg"] = _delegation(case, mw, ds, st)
    if case.get("dl"):
        obs["dl"] = _dataloader(case, mw, ModeWrapper)
    return obs


ATTR_POOL = ["who", "meta", "color"]


def _delegation(case, mw, ds, st):
    """ModeWrapper.__getattr__ / introspection: what the wrapped dataset answers through the ModeWrapper"""
    d = {}
    for a in ATTR_POOL + ["mode", "return_ctx"]:
        try:
            v = getattr(mw, a)
            d[a] = v if isinstance(v, (int, str, bool)) else repr(v)[:40]
        except AttributeError:
            d[a] = None
    ws = mw.all_wrappers
    inner = ds.all_wrappers
    d["dataset_is"] = mw.dataset is ds
    d["getitems"] = mw.__getitems__ is None
    d["root_is"] = mw.root_dataset is ds.root_dataset
    d["wrappers"] = len(ws) == len(inner) + 1 and ws[0] is mw and all(a is b for a, b in zip(ws[1:], inner))
    d["types"] = mw.all_wrapper_types == [type(mw)] + ds.all_wrapper_types
    d["has_self"] = bool(mw.has_wrapper(mw)) and bool(mw.has_wrapper_type(type(mw)))
    d["has_inner"] = all(mw.has_wrapper(w) and mw.has_wrapper_type(type(w)) for w in inner)
    d["has_other"] = bool(mw.has_wrapper(object())) or bool(mw.has_wrapper_type(dict))
    d["of_type"] = [w is mw for w in mw.get_wrappers_of_type(type(mw))] == [True]
    d["collators"] = mw.collators == []
    for nm in ("fused_operations", "requires_propagate_ctx"):
        try:
            getattr(mw, nm)
            d[nm] = "returned"
        except RuntimeError:
            d[nm] = "RuntimeError"
    st["disposed"] = 0
    mw.dispose()
    d["disposed"] = [st["disposed"]]
    try:
        with mw as m2:
            d["enter"] = m2 is mw
    except Exception as e:
        d["enter"] = repr(e)[:60]
    d["disposed"].append(st["disposed"])
    return d


def _dataloader(case, mw, ModeWrapper):
    """a real torch DataLoader over the ModeWrapper: the collated batches, and the static helpers on them"""
    import torch
    from torch.utils.data import DataLoader
    dl = case["dl"]
    kw = {}
    if dl["workers"]:
        kw = {"num_workers": dl["workers"], "timeout": 120, "multiprocessing_context": "fork"}
    out = {"batches": [], "helpers": []}
    try:
        loader = DataLoader(mw, batch_size=dl["bs"], shuffle=False, drop_last=dl["drop_last"], **kw)
        for batch in loader:
            out["batches"].append(enc(batch))
            body = batch[0] if case["rc"] else batch
            hs = {}
            for it in dict.fromkeys(items_of(case)):
                o = {"bare": not isinstance(body, (list, tuple))}
                try:
                    o["get"] = enc(ModeWrapper.get_item(mode=case["mode"], item=it, batch=body))
                    nb = ModeWrapper.set_item(mode=case["mode"], item=it, batch=body, value="V")
                    o["set"] = enc(nb)
                    o["getset"] = enc(ModeWrapper.get_item(mode=case["mode"], item=it, batch=nb))
                except (AssertionError, ValueError, IndexError) as e:
                    o["exc"] = type(e).__name__
                hs[it] = o
            out["helpers"].append(hs)
        del loader
    except Exception as e:
        out["exc"] = repr(e)[:300]
    return out


# ---------------------------------------------------------------------------
# the property, stated on what the real code returned
# ---------------------------------------------------------------------------
def _sample_facts(case, j):
    """per named item of the mode: (value, writes) the declared stack yields for sample j"""
    lvl = n_levels(case)
    out = {}
    for s in items_of(case):
        if is_named(s) and s not in out:
            w = []
            v = exp_load(case, lvl, s, j, w)
            out[s] = (v, w)
    return out


def _unstamp(case, got):
    """-> (plain component, stamp | None); None when a stamped stack returned an unstamped named item"""
    if not stamped(case):
        return got, None
    if "t" in got and len(got["t"]) == 2 and "i" in got["t"][1] and "t" not in got["t"][0]:
        return got["t"][0], got["t"][1]["i"]
    if "t" in got and all("t" in m and len(m["t"]) == 2 and "i" in m["t"][1] for m in got["t"]):
        # value of a joint loader used as an item of its own: every member stamped
        ns = {m["t"][1]["i"] for m in got["t"]}
        return {"t": [m["t"][0] for m in got["t"]]}, (ns.pop() if len(ns) == 1 else None)
    return None


def check_sample(case, j, e):
    """None or a description of why sample e is not sample j of the mode"""
    items = items_of(case)
    rc = case["rc"]
    ps = parse_sample(e, len(items), rc)
    if ps is None:
        return f"sample {j}: not of the form {'(items, ctx)' if rc else 'items'} with {len(items)} item(s): {e}"
    shape, comps, ctx = ps
    if len(comps) != len(items):
        return f"sample {j}: {len(comps)} components for the {len(items)} items {items}"
    facts = _sample_facts(case, j)
    cand = {}          # key -> values some loader of this sample records
    for s, (v, w) in facts.items():
        for k, val in w:
            cand.setdefault(k, set()).add(val)
    stamps = {}
    for p, s in enumerate(items):
        got = comps[p]
        if s == "index":
            if got != {"i": j}:
                return f"sample {j} position {p} ('index'): expected {j}, got {got}"
        elif s.startswith("ctx."):
            key = s[4:]
            if "s" not in got or got["s"] not in cand.get(key, ()):
                return (f"sample {j} position {p} ('{s}'): {got} was not recorded under '{key}' by a loader of this "
                        f"sample (recorded: {sorted(cand.get(key, []))})")
        else:
            us = _unstamp(case, got)
            if us is None:
                return (f"sample {j} position {p} ('{s}'): {got} carries no call stamp although the stack requires "
                        f"ctx propagation (the loader was not handed the sample's ctx)")
            if us[0] != enc(facts[s][0]):
                return f"sample {j} position {p} ('{s}'): expected {enc(facts[s][0])}, got {got}"
            stamps[p] = us[1]
    if stamped(case):
        # members of a complete set of a declared group come from ONE joint load: equal call stamps
        for g in declared_groups(case):
            for k in range(min(items.count(op) for op in g)):
                pos = [[p for p, s in enumerate(items) if s == op][k] for op in g]
                got = {stamps.get(p) for p in pos}
                if len(got) != 1 or None in got:
                    return (f"sample {j}: the members {g} at positions {pos} carry the call stamps "
                            f"{[stamps.get(p) for p in pos]}: they were not delivered by one joint load")
    if rc:
        keys = [k for k, _ in ctx if not (k == "#" and stamped(case))]
        if sorted(keys) != sorted(cand):
            return (f"sample {j}: returned ctx has keys {sorted(keys)}, the loaders of this sample record "
                    f"{sorted(cand)} (foreign or missing entries)")
        for k, v in ctx:
            if k == "#" and stamped(case):
                continue
            if "s" not in v or v["s"] not in cand[k]:
                return f"sample {j}: ctx['{k}'] = {v} is not what a loader of this sample recorded ({sorted(cand[k])})"
    return None


def rejected_as_documented(case, obs):
    """outside the domain the constructor rejects: duplicated fused ops (its two assertions); a named item the
    stack cannot load; with declared groups, a named item or fired joint loader that the outermost wrapper's class
    does not implement (otherwise the outermost wrapper would be skipped)"""
    groups = declared_groups(case)
    flat = [op for g in groups for op in g]
    if any(len(g) == 0 for g in groups):
        return None
    if len(set(flat)) != len(flat):
        if obs["init"] != 1:
            return f"fused_operations {groups} name an item twice but the constructor did not reject them (code {obs['init']})"
        return None
    if not groups_wellformed(groups) or any(not is_named("".join(g)) for g in groups):
        return None
    missing = missing_loaders(case)
    if missing and obs["init"] == 0:
        where = "on the outermost wrapper's class" if groups else "in the stack"
        return f"mode {case['mode']!r} was accepted although getitem_{missing[0]} is not implemented {where}"
    return None


def keyerror_status(case, j):
    """'must' / 'never' / 'maybe' : does loading sample j raise KeyError for a ctx.<key> item"""
    items = items_of(case)
    groups = declared_groups(case)
    facts = _sample_facts(case, j)
    status = "never"
    for p, s in enumerate(items):
        if not s.startswith("ctx."):
            continue
        key = s[4:]
        earlier = any(k == key for q in range(p) if is_named(items[q]) for k, _ in facts[items[q]][1])
        anywhere = any(k == key for t in items if is_named(t) for k, _ in facts[t][1])
        if earlier:
            continue
        if not anywhere or not groups:
            return "must"
        status = "maybe"
    return status


def ref_indices(n, acc):
    """Python sequence semantics on the plain list [0..n): (many, raw indices) or 'ValueError'; the raw indices of an
    int / list access are checked element by element by access_steps"""
    ref = list(range(n))
    if acc["k"] == "int":
        return False, [acc["i"]]
    if acc["k"] == "list":
        return True, list(acc["l"])
    if acc["s"] == 0:
        return "ValueError"
    return True, ref[slice(acc["a"], acc["b"], acc["s"])]


def access_steps(case, n, raw):
    """what loading the raw indices one after the other must do: ('s', j) = sample j is loaded; ('below', r) = r < -len:
    IndexError (Python sequence semantics; raised by ModeWrapper before anything is loaded); ('above', r) = r >= len is
    not checked by ModeWrapper (an endless balanced concat has no len) but handed to the loaders unchanged: ('s', r) when
    the declared stack can load it, IndexError when a KDSubset below is indexed out of range.  Stops at the first
    definite IndexError."""
    steps = []
    for r in raw:
        if r < -n:
            steps.append(("below", r))
            break
        j = r + n if r < 0 else r
        if j >= n:
            try:
                _sample_facts(case, j)
            except (IndexError, LookupError):
                steps.append(("above", r))
                break
        steps.append(("s", j))
    return steps


def _helper_batch(h):
    b = h["batch"]
    return b["bare"] if "bare" in b else (tuple(b["tuple"]) if b.get("as") != "list" else list(b["tuple"]))


def _helper_oracle(h, o):
    """has_item / get_item_index / add_item: membership / first position in mode.split(" ").  get_item / set_item:
    "single item" is decided by the MODE: with one item the batch is the item itself, whatever its type (a multi-view
    item is a list / tuple of views) -- get_item returns the batch, set_item the value, AssertionError when another
    item than the mode's is named; with several items the batch must be a list / tuple (AssertionError otherwise),
    get_item returns the element at the item's first position, set_item a tuple with exactly that position replaced"""
    items = h["mode"].split(" ")
    it = h["item"]
    if o["has"] != (it in items):
        return f"has_item({h['mode']!r}, {it!r}) = {o['has']}"
    pos = items.index(it) if it in items else None
    if o["index"] != pos:
        return f"get_item_index({h['mode']!r}, {it!r}) = {o['index']}, expected {pos}"
    if o["add"] != (h["mode"] if it in items else h["mode"] + " " + it):
        return f"add_item({h['mode']!r}, {it!r}) = {o['add']!r}"
    batch = _helper_batch(h)
    if len(items) == 1:
        exp_get, exp_set = (enc(batch), enc(h["value"])) if it == items[0] else (None, None)
        why = "single-item mode: the batch is the item itself" if it == items[0] else \
            "single-item mode and another item than the mode's: AssertionError"
    elif not isinstance(batch, (list, tuple)):
        exp_get = exp_set = None
        why = f"a {len(items)}-item mode needs a list / tuple batch: AssertionError"
    elif pos is None:
        exp_get = exp_set = None
        why = "the item is not in the mode: ValueError"
    else:
        exp_get = enc(batch[pos]) if pos < len(batch) else None
        exp_set = enc(tuple(h["value"] if i == pos else t for i, t in enumerate(batch)))
        why = f"several-item mode: position {pos}"
    if o["get"] != exp_get:
        return f"get_item({h['mode']!r}, {it!r}, {batch!r}) = {o['get']}, expected {exp_get} ({why}; None = exception)"
    if o["set"] != exp_set:
        return (f"set_item({h['mode']!r}, {it!r}, {batch!r}, {h['value']!r}) = {o['set']}, expected {exp_set} ({why}; "
                f"None = exception)")
    return None


def oracle(case, obs):
    msg = _oracle_one(case, obs)
    if msg or not obs.get("phases"):
        return msg
    # the stack is an ARGUMENT of every access: after the stack below the wrapper changed, the wrapper built before the
    # change answers len / indices / slices / lists / iteration exactly as the property says for the stack as it is now
    # -- and therefore like a wrapper built now
    for k, ph in enumerate(case["phases"]):
        ck, ok = phase_case(case, k), phase_obs(obs, k)
        pre = f"after the stack below the ModeWrapper was changed ({ph['mut']}; phase {k + 1}), the wrapper built BEFORE: "
        msg = _oracle_one(ck, ok)
        if msg:
            return pre + msg
        fr = obs["phases"][k]["fresh"]
        for t, (a, b) in enumerate(zip(ok["hist"], fr["hist"])):
            if a != b:
                return (pre + f"access #{t} {ck['hist'][t]} gave {a}, a ModeWrapper built over the same stack now "
                        f"gives {b}")
        if ok["iter"] != fr["iter"] or ok["lenobs"] != fr["lenobs"]:
            return (pre + f"iteration / len gave {ok['iter']} / {ok['lenobs']}, a ModeWrapper built over the same stack "
                    f"now gives {fr['iter']} / {fr['lenobs']}")
    return None


def _oracle_one(case, obs):
    if "harness_exception" in obs:
        return "the stack / ModeWrapper raised outside the documented exceptions: " + obs["harness_exception"] + \
            obs.get("tb", "")[-600:]
    n = outer_len(case)
    lvl = n_levels(case)
    names = cand_names(case)
    # 1. the real stack answers what the declared stack says (KDDataset/KDWrapper/KDSubset/TorchWrapper delegation)
    sk = obs["stack"]
    if sk["len"] != n:
        return f"len(stack) = {sk['len']}, declared {n}"
    if sk["fused"] != declared_groups(case):
        return f"stack.fused_operations = {sk['fused']}, declared {declared_groups(case)}"
    if sk["req"] != declared_req(case):
        return f"stack.requires_propagate_ctx = {sk['req']}, declared {declared_req(case)}"
    if sk["has"] != [s for s in names if avail(case, lvl, s)]:
        return f"hasattr(stack, getitem_*) true for {sk['has']}, declared {[s for s in names if avail(case, lvl, s)]}"
    if sk["has_type"] != [s for s in names if on_type(case, s)]:
        return f"hasattr(type(stack), getitem_*) true for {sk['has_type']}"
    for s in sk["has"]:
        for i in range(n):
            try:
                v, d = exp_direct(case, s, i)
                want = [enc(v), enc(d)["d"]]
            except LoaderBoom:
                want = [{"o": "exc LoaderBoom"}, []]
            if obs["direct"][s][i] != want:
                return f"stack.getitem_{s}({i}, ctx) returned {obs['direct'][s][i]}, the declared stack yields {want}"
    # 2. static helpers / TorchWrapper
    for h, o in zip(case.get("helpers", []), obs["helpers"]):
        msg = _helper_oracle(h, o)
        if msg:
            return msg
    for t, o in zip(case.get("torch", []), obs["torch"]):
        tm = t["tmode"].split(" ")
        exp = None
        if t["item"] in tm and tm.index(t["item"]) < len(t["tup"]):
            exp = enc(t["tup"][tm.index(t["item"])])
        if o != exp:
            return f"TorchWrapper(mode={t['tmode']!r}).getitem_{t['item']} on {t['tup']} returned {o}, expected {exp}"
    # 3. the wrapped dataset
    if not in_domain(case):
        return rejected_as_documented(case, obs)
    if obs["init"] != 0:
        return f"the constructor rejected mode {case['mode']!r} although every item is available (code {obs['init']})"
    items = items_of(case)
    groups = declared_groups(case)
    if obs["lenobs"] != n:
        return f"len(ModeWrapper) = {obs['lenobs']}, len(dataset) = {n}"

    def check_many(idxs, res, what):
        if len(res) != len(idxs):
            return f"{what}: {len(res)} samples for the indices {idxs}"
        for j, e in zip(idxs, res):
            msg = check_sample(case, j, e)
            if msg:
                return f"{what}: {msg}"
        return None

    has_ctx_item = any(x.startswith("ctx.") for x in items)
    KIND = {0: "returned", 1: "ValueError", 2: "KeyError", 3: "IndexError", 5: "the loader's exception", 6: "StopIteration"}

    def judge(steps, kind, res, what):
        """steps: what loading the indices one after the other must do (access_steps); -> (message | None, samples that
        must have been returned).  The first sample that cannot be loaded ends the access with its exception: an index
        out of range -> IndexError; a 'ctx.<key>' whose key nobody recorded -> KeyError; a raising loader -> its
        exception (LoaderBoom).  Where the order of a fused plan decides between two of them both are accepted."""
        maybe_key = False
        done = []
        for st_ in steps:
            if st_[0] == "below":
                allowed = {3}
                why = (f"index {st_[1]} is below -len(dataset) = {-n}: Python sequence semantics is IndexError")
            elif st_[0] == "above":
                allowed = {3} | ({2} if has_ctx_item else set())
                why = f"index {st_[1]} >= len is handed to a KDSubset below, which raises IndexError"
            else:
                j = st_[1]
                ks = keyerror_status(case, j)
                bm = booms(case, j)
                if ks == "must" and not bm:
                    allowed, why = {2}, f"sample {j}: a ctx.<key> item whose key no loader of the sample recorded before it"
                elif bm:
                    allowed = {5} | ({2} if ks != "never" else set())
                    why = f"sample {j}: a loader raises"
                else:
                    if ks == "maybe":
                        maybe_key = True
                    done.append(j)
                    continue
            if maybe_key:
                allowed = allowed | {2}
            if kind not in allowed:
                return (f"{what}: {why}; expected {' or '.join(KIND[k] for k in sorted(allowed))}, got {KIND.get(kind, kind)}"
                        + (f" {res}" if kind == 0 else "")), None
            return None, None
        if kind == 2 and maybe_key:
            return None, None
        if kind == 2:
            return f"{what}: KeyError although every ctx.<key> item follows an item that records the key", None
        if kind == 3:
            return f"{what}: IndexError although every index is one the stack can load", None
        if kind == 5:
            return f"{what}: a loader's exception although no loader of these samples raises", None
        return None, done

    per_sample_log = [c for c in planned_calls(items, groups) if is_named(c)]
    cursor = {}        # reference semantics of iterator objects: id -> index of the next sample, None = finished
    for t, (acc, o) in enumerate(zip(case["hist"], obs["hist"])):
        what = f"access #{t} {acc}"
        if o["kind"] == 9:
            return f"{what}: raised {o.get('exc')}"
        if acc["k"] in ("iter", "len", "next", "rest"):
            # iterator objects are first-class: every iter(mw) is a NEW iterator over samples 0..len-1 owning its own
            # position; next() of one advances only that one; indexing / len / other iterators in between change nothing;
            # an iterator that raised or was exhausted stays finished; iter(it) is it (list(it) / for-loops resume)
            if acc["k"] == "iter":
                cursor[acc["id"]] = 0
                if o["kind"] != 0:
                    return f"{what}: iter(ModeWrapper) raised ({KIND.get(o['kind'], o['kind'])})"
                continue
            if acc["k"] == "len":
                if o["kind"] != 0 or o.get("len") != n:
                    return f"{what}: len(ModeWrapper) = {o.get('len')} (kind {o['kind']}), len(dataset) = {n}"
                continue
            p = cursor.get(acc["id"])
            if acc["k"] == "next":
                if p is None or p >= n:
                    cursor[acc["id"]] = None
                    if o["kind"] != 6:
                        return (f"{what}: the iterator is finished (it yielded all {n} samples, raised, or was never created): "
                                f"StopIteration expected, got {KIND.get(o['kind'], o['kind'])} {o.get('res')}")
                    continue
                if o["kind"] == 6:
                    return (f"{what}: StopIteration although this iterator has yielded only {p} of the {n} samples "
                            f"(iterators of one ModeWrapper are independent of each other and of indexing in between)")
                msg, idxs = judge([("s", p)], o["kind"], o.get("res"), what)
                if msg:
                    return msg
                cursor[acc["id"]] = p + 1 if o["kind"] == 0 else None
                if idxs is None:
                    continue
                msg = check_many([p], o["res"], what + f" (sample {p} is due: the {p} samples before it were yielded by "
                                 f"this iterator)")
                if msg:
                    return msg
                if not is_torch(case) and o["log"] != per_sample_log:
                    return f"{what}: the stack was asked for {o['log']}; the mode needs, per sample, {per_sample_log}"
                continue
            # rest: for s in it / list(it)
            cursor[acc["id"]] = None
            due = list(range(p, n)) if p is not None else []
            if o["kind"] == 6:
                return f"{what}: StopIteration out of a for-loop over the iterator"
            msg, idxs = judge([("s", j) for j in due], o["kind"], o.get("res"), what)
            if msg:
                return msg
            if idxs is not None:
                msg = check_many(due, o["res"], what + f" (the iterator had yielded {p if p is not None else 'all'} samples "
                                 f"before; the remaining ones are {due})")
            else:
                m = len(o["res"])
                msg = check_many(due[:m], o["res"], what + " (before the exception)") if m <= len(due) else \
                    f"{what}: {m} samples yielded and then an exception; only {due} were due"
            if msg:
                return msg
            continue
        ref = ref_indices(n, acc)
        if ref == "ValueError":
            if o["kind"] != 1:
                return f"{what}: slice step 0 must raise ValueError"
            continue
        many, raw = ref
        if o["kind"] == 1:
            return f"{what}: ValueError"
        msg, idxs = judge(access_steps(case, n, raw), o["kind"], o.get("res"), what)
        if msg:
            return msg
        if idxs is None:
            continue
        if case.get("probe") == "above_range" and any(r >= n for r in raw):
            return (f"{what}: index {[r for r in raw if r >= n][0]} >= len(dataset) = {n}: Python sequence semantics is "
                    f"IndexError, the wrapped dataset returned {o['res']}")
        if o["many"] != many:
            return f"{what}: returned {'a list' if o['many'] else 'one sample'}"
        msg = check_many(idxs, o["res"], what)
        if msg:
            return msg
        if not is_torch(case):
            exp_log = [c for c in planned_calls(items, groups) if is_named(c)] * len(idxs)
            if o["log"] != exp_log:
                return (f"{what}: the stack was asked for {o['log']}; the mode needs, per sample, "
                        f"{exp_log[:len(exp_log) // max(len(idxs), 1)]} (joint loads where a complete set of a group stands)")
    it = obs["iter"]
    if it["kind"] == 9:
        return f"iteration raised {it.get('exc')}"
    msg, idxs = judge([("s", j) for j in range(n)], it["kind"], it["res"], "iteration")
    if msg:
        return msg
    if idxs is not None:
        msg = check_many(list(range(n)), it["res"], "iteration")
        if msg:
            return msg
    else:
        # the samples yielded before the exception are the first ones
        m = len(it["res"])
        msg = check_many(list(range(m)), it["res"], "iteration (before the exception)") if m <= n else \
            f"iteration yielded {m} samples of a dataset of length {n} and then raised"
        if msg:
            return msg
    msg = _deleg_oracle(case, obs)
    if msg:
        return msg
    if case.get("dl"):
        return _dl_oracle(case, obs, n)
    return None


def attr_provider(case, name):
    """outermost layer (level) that defines the marker attribute, None when no layer does"""
    for level in range(n_levels(case), 0, -1):
        if name in case["layers"][level - 1].get("attrs", []):
            return level
    return 0 if name in case["root"].get("attrs", []) else None


def _deleg_oracle(case, obs):
    d = obs.get("deleg")
    if d is None:
        return None
    for a in ATTR_POOL:
        if d[a] != attr_provider(case, a):
            return (f"ModeWrapper.{a} resolved to the definition of layer {d[a]}, the outermost layer defining it is "
                    f"{attr_provider(case, a)} (None = AttributeError)")
    if d["mode"] != case["mode"] or d["return_ctx"] != case["rc"]:
        return f"ModeWrapper.mode / return_ctx = {d['mode']!r} / {d['return_ctx']}"
    for k in ("dataset_is", "getitems", "root_is", "wrappers", "types", "has_self", "has_inner", "of_type", "collators"):
        if d[k] is not True:
            return f"ModeWrapper introspection '{k}' does not resolve through the wrapped stack"
    if d["has_other"]:
        return "ModeWrapper.has_wrapper / has_wrapper_type true for an object that is not in the stack"
    if d["fused_operations"] != "RuntimeError" or d["requires_propagate_ctx"] != "RuntimeError":
        return "ModeWrapper.fused_operations / requires_propagate_ctx must refuse (RuntimeError)"
    if d["enter"] is not True:
        return f"'with ModeWrapper(...) as m' did not yield the wrapper: {d['enter']}"
    want = [0, 0] if is_torch(case) else [1, 2]
    if d["disposed"] != want:
        return (f"ModeWrapper.dispose() / leaving a with-block disposed the root dataset {d['disposed']} times "
                f"(cumulative), expected {want}")
    return None


def _seq(e):
    """elements of a collated sequence (default_collate returns lists, or the transposed tuples as they are for strings)"""
    return e["l"] if "l" in e else e.get("t")


def _match(tmpl, coll, k):
    """is sample `tmpl` the k-th element of the default-collated batch `coll` (both in enc() form)"""
    if "t" in tmpl:
        cs = _seq(coll)
        return cs is not None and len(cs) == len(tmpl["t"]) and all(_match(a, b, k) for a, b in zip(tmpl["t"], cs))
    if "d" in tmpl:
        return "d" in coll and [kv[0] for kv in coll["d"]] == [kv[0] for kv in tmpl["d"]] and \
            all(_match(a[1], b[1], k) for a, b in zip(tmpl["d"], coll["d"]))
    cs = _seq(coll)
    return cs is not None and k < len(cs) and cs[k] == tmpl


def _dl_oracle(case, obs, n):
    d = obs.get("dl")
    dl = case["dl"]
    if d is None:
        return None
    it = obs["iter"]
    if it["kind"] != 0:
        return None         # plain iteration already ends in an exception (judged above)
    if "exc" in d:
        return f"DataLoader over the ModeWrapper raised {d['exc']}"
    chunks = [list(range(a, min(a + dl["bs"], n))) for a in range(0, n, dl["bs"])]
    if dl["drop_last"]:
        chunks = [c for c in chunks if len(c) == dl["bs"]]
    if len(d["batches"]) != len(chunks):
        return f"DataLoader(batch_size={dl['bs']}, drop_last={dl['drop_last']}) yielded {len(d['batches'])} batches for {n} samples"
    items = items_of(case)
    for b, (chunk, batch, hs) in enumerate(zip(chunks, d["batches"], d["helpers"])):
        for k, j in enumerate(chunk):
            if not _match(it["res"][j], batch, k):
                return (f"DataLoader batch {b}: element {k} is not sample {j} of the wrapped dataset "
                        f"({it['res'][j]} vs batch {batch})")
        body = _seq(batch)[0] if case["rc"] else batch
        if len(items) == 1:
            # single-item mode (decided by the mode): the collated batch is the item itself whatever its type -- a tensor,
            # or a list / tuple (strings, multi-view items): get_item hands it back, set_item returns the value
            o = hs[items[0]]
            if o.get("get") != body or o.get("set") != {"s": "V"} or o.get("getset") != {"s": "V"}:
                return f"DataLoader batch {b}: get_item/set_item on the batch of the one-item mode {case['mode']!r} gave {o}"
            continue
        comps = _seq(body)
        for it_name, o in hs.items():
            pos = items.index(it_name)
            if "exc" in o:
                return f"DataLoader batch {b}: get_item/set_item({case['mode']!r}, {it_name!r}) raised {o['exc']}"
            if o["get"] != comps[pos]:
                return f"DataLoader batch {b}: get_item({case['mode']!r}, {it_name!r}) = {o['get']}, position {pos} holds {comps[pos]}"
            exp = {"t": [({"s": "V"} if q == pos else c) for q, c in enumerate(comps)]}
            if o["set"] != exp or o["getset"] != {"s": "V"}:
                return f"DataLoader batch {b}: set_item({case['mode']!r}, {it_name!r}) = {o['set']}, expected {exp}"
    return None


# ---------------------------------------------------------------------------
# Coq rendering
# ---------------------------------------------------------------------------
def cstr(s):
    return Raw('"' + s.replace('"', '""') + '"%string')


def cval(e):
    if "s" in e:
        return C("VStr", cstr(e["s"]))
    if "i" in e:
        return C("VInt", e["i"])
    if "t" in e:
        return C("Tup", [cval(a) for a in e["t"]])
    if "l" in e:
        return C("Tup", [cval(a) for a in e["l"]])      # (list vs tuple is compared by the Python oracle only)
    return Raw("VNone")


def cbatch(e):
    """a batch-shaped object in enc() form: list / tuple -> BTuple, anything else -> BBare"""
    if "t" in e or "l" in e:
        return C("BTuple", [cval(a) for a in (e["t"] if "t" in e else e["l"])])
    return C("BBare", cval(e))


def ccomp(e):
    return Raw("None") if "n" in e else Opt(cval(e))


def cres(e, nitems, rc):
    shape, comps, ctx = parse_sample(e, nitems, rc)
    o = C("Bare", ccomp(comps[0])) if shape == "bare" else C("Tuple", [ccomp(c) for c in comps])
    if rc:
        return C("RItemsCtx", o, Opt([(cstr(k), cval(v)) for k, v in ctx]))
    return C("RItems", o)


def cop(acc):
    if acc["k"] == "iter":
        return C("OpIter", Nat(acc["id"]))
    if acc["k"] == "next":
        return C("OpNext", Nat(acc["id"]))
    if acc["k"] == "rest":
        return C("OpRest", Nat(acc["id"]))
    if acc["k"] == "len":
        return Raw("OpLen")
    return C("OpGet", cindex(acc))


def cindex(acc):
    if acc["k"] == "int":
        return C("IInt", acc["i"])
    if acc["k"] == "list":
        return C("IList", list(acc["l"]))
    return C("ISlice", Opt(acc["a"]), Opt(acc["b"]), Opt(acc["s"]))


def _samples_ok(lst, nitems, rc):
    for e in lst:
        ps = parse_sample(e, nitems, rc)
        if ps is None:
            return False
        if not all(renderable(c) for c in ps[1]):
            return False
        if ps[2] is not None and not all(renderable(v) for _, v in ps[2]):
            return False
    return True


def coq_applicable(case, obs):
    if "harness_exception" in obs:
        return False
    if obs.get("phases"):
        # rendered: the LAST phase (the stack as it is now, the answers of the wrapper built before the changes);
        # the first history of such a case is judged by the Python oracle (and by Coq on the cases without phases)
        k = len(obs["phases"]) - 1
        return _coq_applicable_one(case, obs) and _coq_applicable_one(phase_case(case, k), phase_obs(obs, k))
    return _coq_applicable_one(case, obs)


def _coq_applicable_one(case, obs):
    if not isinstance(obs.get("lenobs", 0), int):
        return False
    if '"' in case["mode"]:
        return False
    # the declared stack is what is rendered: only meaningful when the real stack agrees with it (oracle part 1)
    if obs["init"] != 0:
        return True
    nitems = len(items_of(case))
    for o in obs["hist"]:
        if o["kind"] == 9:
            return False
        if o.get("res") and not _samples_ok(o["res"], nitems, case["rc"]):
            return False
    if obs["iter"]["kind"] == 9:
        return False
    if obs["iter"]["kind"] == 0 and not _samples_ok(obs["iter"]["res"], nitems, case["rc"]):
        return False
    return True


def coq_case(case, obs):
    if obs.get("phases"):
        k = len(obs["phases"]) - 1
        return _coq_case_one(phase_case(case, k), phase_obs(obs, k))
    return _coq_case_one(case, obs)


def _coq_case_one(case, obs):
    n = outer_len(case)
    lvl = n_levels(case)
    names = cand_names(case)
    nitems = len(items_of(case))
    rc = case["rc"]
    tab = []
    for s in names:
        if not avail(case, lvl, s):
            continue
        rows = []
        for i in range(n):
            w = []
            v = exp_load(case, lvl, s, i, w)      # (accesses that run into a raising loader are not evaluated in Coq)
            rows.append((cval(enc(v)), [(cstr(k), C("VStr", cstr(val))) for k, val in w]))
        tab.append((cstr(s), rows))
    hist = []
    if obs["init"] == 0:
        for acc, o in zip(case["hist"], obs["hist"]):
            keep = o["kind"] == 0 or acc["k"] == "rest"     # a for-loop keeps what it was given before an exception
            hist.append(Rec(h_op=cop(acc), h_kind=Nat(o["kind"]), h_many=bool(o.get("many", False)),
                            h_res=[cres(e, nitems, rc) for e in o.get("res", [])] if keep else [],
                            h_log=Raw("None") if is_torch(case) or o["kind"] != 0
                            else Opt([cstr(s) for s in o["log"]]), h_len=o.get("len", 0)))
    helpers = []
    for h, o in zip(case.get("helpers", []), obs["helpers"]):
        single = len(h["mode"].split(" ")) == 1
        cb = cbatch(enc(_helper_batch(h)))
        # single-item mode: what get_item returns is the batch itself (batch-shaped), set_item the value; several-item
        # mode: get_item returns one element, set_item a tuple
        if o["get"] is None:
            cg = Raw("None")
        else:
            cg = Opt(cbatch(o["get"]) if single else C("BBare", cval(o["get"])))
        if o["set"] is None:
            cs = Raw("None")
        else:
            cs = Opt(C("BBare", cval(o["set"])) if single else cbatch(o["set"]))
        helpers.append(Rec(hp_mode=cstr(h["mode"]), hp_item=cstr(h["item"]), hp_batch=cb,
                           hp_value=C("VStr", cstr(h["value"])), hp_has=o["has"],
                           hp_index=Opt(Nat(o["index"])) if o["index"] is not None else Raw("None"),
                           hp_get=cg, hp_set=cs, hp_add=cstr(o["add"])))
    torch = []
    for t, o in zip(case.get("torch", []), obs["torch"]):
        torch.append(([cstr(s) for s in t["tmode"].split(" ")], [C("VStr", cstr(a)) for a in t["tup"]],
                      cstr(t["item"]), Opt(cval(o)) if o is not None else Raw("None")))
    plan = []
    for nm, ix in obs.get("plan", []):
        plan.append((cstr(nm), C("Fused", [Nat(i) for i in ix]) if isinstance(ix, list) else C("Plain", Nat(ix))))
    it = obs["iter"]["res"] if obs["init"] == 0 and obs["iter"]["kind"] == 0 else None
    return coq(Rec(
        c_len=n, c_groups=[[cstr(op) for op in g] for g in declared_groups(case)], c_req=declared_req(case),
        c_has_type=[cstr(s) for s in names if on_type(case, s)],
        c_has=[cstr(s) for s in names if avail(case, lvl, s)],
        c_tab=tab, c_stamp=stamped(case), c_mode=cstr(case["mode"]), c_rc=rc, c_init=Nat(obs["init"]), c_plan=plan,
        c_prop=bool(obs.get("prop", False)), c_hist=hist,
        c_iter=Opt([cres(e, nitems, rc) for e in it]) if it is not None else Raw("None"),
        c_iter_kind=Nat(obs["iter"]["kind"] if obs["init"] == 0 else 0),
        c_lenobs=obs.get("lenobs", n), c_helpers=helpers, c_torch=torch))


# ---------------------------------------------------------------------------
# generation
# ---------------------------------------------------------------------------
def gen_writes(rng, keys=KEYS):
    out = []
    for _ in range(rng.choice([0, 0, 0, 1, 1, 2])):
        out.append([rng.choice(keys), rng.random() < 0.35])
    return out


HUGE = 10 ** 20


def gen_access(rng, n):
    kinds = ["int", "neg", "slice", "slice", "list"] if n > 0 else ["slice", "list"]
    k = rng.choice(kinds)
    if rng.random() < 0.08:
        # out of range: below -len (IndexError by the property), at / above len (handed to the loaders)
        r = rng.choice([-n - 1, -n - 1, -n - 2, -2 * n - 1, -HUGE, n, n, n + 1, 2 * n + 1, HUGE])
        if rng.random() < 0.7:
            return {"k": "int", "i": r}
        l = [rng.randrange(-n, n) for _ in range(rng.choice([0, 1, 2]))] if n > 0 else []
        l.insert(rng.randint(0, len(l)), r)
        return {"k": "list", "l": l}
    if k == "int":
        acc = {"k": "int", "i": rng.randrange(n)}
    elif k == "neg":
        acc = {"k": "int", "i": -rng.randint(1, n)}
    else:
        acc = None
    if acc is not None:
        if rng.random() < 0.1:
            acc["ty"] = "np"      # numpy integer index (what a numpy-based sampler hands over)
        return acc
    if k == "list":
        if n == 0:
            return {"k": "list", "l": []}
        return {"k": "list", "l": [rng.randrange(-n, n) for _ in range(rng.choice([0, 1, 2, 2, 3, 4]))]}

    def bound():
        return None if rng.random() < 0.3 else rng.randint(-n - 3, n + 3)
    return {"k": "slice", "a": bound(), "b": bound(),
            "s": rng.choice([None, None, 1, 1, 2, 3, -1, -1, -2, -3, n + 1, -n - 1, 0])}


def gen_iter_episode(rng, n):
    """iterator objects as first-class steps: 1-3 iterators of the same ModeWrapper alive at once; next() calls on them
    interleaved with each other, with len() and (through weave) with indexing; iterators exhausted, asked again after
    StopIteration, re-created under the same name while another one is half-way, consumed to the end by a for-loop
    after a few next() calls (peek, then list(it)); the textbook shapes zip(mw, mw) and nested loops included"""
    r = rng.random()
    ops = []
    if r < 0.2:
        # zip(mw, mw): two iterators advanced alternately until the first StopIteration
        ops = [{"k": "iter", "id": 0}, {"k": "iter", "id": 1}]
        for _ in range(min(n, 4) + 1):
            ops += [{"k": "next", "id": 0}, {"k": "next", "id": 1}]
        return ops
    if r < 0.35:
        # for a in mw: for b in mw: ...
        ops = [{"k": "iter", "id": 0}]
        for _ in range(min(n, 3) + 1):
            ops += [{"k": "next", "id": 0}, {"k": "iter", "id": 1}, {"k": "rest", "id": 1}]
        return ops
    if r < 0.5:
        # peek at the first sample(s), then consume the rest
        ops = [{"k": "iter", "id": 0}] + [{"k": "next", "id": 0} for _ in range(rng.choice([1, 1, 2, 3]))] + [{"k": "rest", "id": 0}]
        if rng.random() < 0.5:
            ops += [{"k": rng.choice(["next", "rest"]), "id": 0}]
        return ops
    ids = list(range(rng.choice([1, 2, 2, 3])))
    ops = [{"k": "iter", "id": i} for i in ids[:rng.randint(1, len(ids))]]
    for _ in range(rng.randint(2, 2 * n + 5)):
        q = rng.random()
        i = rng.choice(ids)
        if q < 0.68:
            ops.append({"k": "next", "id": i})
        elif q < 0.8:
            ops.append({"k": "iter", "id": i})
        elif q < 0.9:
            ops.append({"k": "rest", "id": i})
        else:
            ops.append({"k": "len"})
    return ops


def weave(rng, a, b):
    """a random interleaving of the two step lists (each keeps its order)"""
    a, b, out = list(a), list(b), []
    while a or b:
        if a and (not b or rng.random() < len(a) / (len(a) + len(b))):
            out.append(a.pop(0))
        else:
            out.append(b.pop(0))
    return out


def gen_helper(rng):
    """static helpers: modes of 1-4 items (40% single-item); the named item in the mode or not (single-item mode with
    ANOTHER item's name: AssertionError); batches: a bare object, or a list / tuple -- in single-item modes too (a
    multi-view item [V0, V1] is the item itself), with the mode's length or another one, elements now and then
    themselves lists of views; a bare batch in a several-item mode (AssertionError)"""
    its = [rng.choice(POOL + ["index"]) for _ in range(rng.choice([1, 1, 1, 2, 2, 3, 4]))]
    if rng.random() < 0.1:
        # whitespace variants: double / leading / trailing spaces give empty items, repeated items
        its.insert(rng.randint(0, len(its)), rng.choice(["", "", its[0]]))
    mode = " ".join(its)
    item = rng.choice(its) if rng.random() < 0.75 else rng.choice(POOL + ["index", "ctx.k"])
    if rng.random() < 0.3:
        batch = {"bare": "B"}
    else:
        ln = len(its) if rng.random() < 0.6 else rng.randint(0, 5)
        if len(its) == 1 and rng.random() < 0.6:
            ln = rng.choice([2, 2, 3, 1, 0])          # the views of a multi-view item
        elems = [f"b{i}" if rng.random() < 0.85 else [f"v{i}.0", f"v{i}.1"] for i in range(ln)]
        batch = {"tuple": elems, "as": rng.choice(["tuple", "list"])}
    return {"mode": mode, "item": item, "batch": batch, "value": "V"}


def gen_torch(rng):
    its = rng.sample(POOL, rng.randint(1, 4))
    if rng.random() < 0.2:
        its.append(rng.choice(its))
    ln = len(its) if rng.random() < 0.8 else rng.randint(0, 4)
    return {"tmode": " ".join(its), "tup": [f"t{i}" for i in range(ln)],
            "item": rng.choice(its) if rng.random() < 0.8 else rng.choice(POOL)}


def gen_mut(rng, cur):
    """one change of the stack below the wrapper: the root grows / shrinks (a replay buffer, a pseudo-label pool), a
    subset layer's `indices` is re-assigned (list / ndarray; same length with another map, longer, shorter, empty) or
    edited in place; layers above a shrunk layer are re-assigned so that the stack stays loadable"""
    muts = []
    subs = [k + 1 for k, L in enumerate(cur["layers"]) if L["t"] == "sub"]
    r = rng.random()
    if not subs or r < 0.45:
        size = cur["size"]
        new = max(0, size + rng.choice([1, 1, 2, 3, -1, -1, -2, -size]))
        muts.append({"op": "root", "size": new if new != size else size + 1})
    if subs and (r >= 0.45 or rng.random() < 0.3):
        level = rng.choice(subs)
        below = level_len(mutated_case(cur, muts), level - 1)
        old = len(cur["layers"][level - 1]["indices"])
        m = rng.choice([old, old, old + 1, old + 2, max(old - 1, 0), max(old - 2, 0), 0, rng.randint(0, 6)]) if below > 0 else 0
        muts.append({"op": rng.choice(["assign", "assign", "inplace"]), "level": level,
                     "indices": [rng.randrange(below) for _ in range(m)], "as": rng.choice(["list", "list", "np"])})
    c2 = mutated_case(cur, muts)
    for level in subs:
        below = level_len(c2, level - 1)
        ind = c2["layers"][level - 1]["indices"]
        if any(i >= below for i in ind):
            muts.append({"op": "assign", "level": level, "indices": [i for i in ind if i < below], "as": "list"})
            c2 = mutated_case(cur, muts)
    return muts


def gen_phases(rng, case):
    """1-2 phases after the first history: change the stack, then use the wrapper that was built before -- always with
    len, the last / first sample by negative index and a full slice among the accesses (they depend on the CURRENT
    length), often with new iterators"""
    phases, cur = [], case
    for _ in range(rng.choice([1, 1, 1, 2])):
        muts = gen_mut(rng, cur)
        cur = mutated_case(cur, muts)
        n2 = outer_len(cur)
        hist = [gen_access(rng, n2) for _ in range(rng.randint(0, 3))]
        extra = [{"k": "len"}, {"k": "slice", "a": None, "b": None, "s": rng.choice([None, None, -1, 2])}]
        if n2 > 0:
            extra += [{"k": "int", "i": -1}, {"k": "int", "i": -n2}, {"k": "list", "l": [-1, 0, -n2]}, {"k": "int", "i": n2 - 1}]
        hist = weave(rng, hist, rng.sample(extra, rng.randint(1, len(extra))))
        if rng.random() < 0.3:
            hist = weave(rng, hist, gen_iter_episode(rng, n2))
        phases.append({"mut": muts, "hist": hist})
    return phases


def gen_case(rng, big=False, dl_p=0.07):
    size = rng.choice([0, 1, 2, 3, 3, 4, 5, 6] + ([8, 11] if big else []))
    torch_root = rng.random() < 0.08
    rnames = rng.sample(POOL, rng.randint(2, 5))
    keys = gen_key_pool(rng)
    root = {"items": {s: ([] if torch_root else gen_writes(rng, keys)) for s in rnames}}
    if not torch_root and keys != KEYS and rng.random() < 0.6:
        # one loader records several related keys at once: a truncated / extended name exists in the same ctx
        root["items"][rng.choice(rnames)] = [[k, False] for k in rng.sample(keys, min(len(keys), rng.choice([2, 2, 3])))]
    if torch_root:
        root["kind"] = "torch"
    fused_stack = rng.random() < 0.5
    nl = rng.choice([0, 1, 1, 2, 2, 3]) if not fused_stack else rng.choice([1, 1, 2, 3])
    layers = []
    have = list(rnames)
    n = size
    for k in range(nl):
        level = k + 1
        last = k == nl - 1
        if rng.random() < 0.25 and not (fused_stack and last):
            m = rng.choice([0, 1, 2, 3, 4, 5]) if n > 0 else 0
            layers.append({"t": "sub", "indices": [rng.randrange(n) for _ in range(m)] if n > 0 else []})
            n = m
            continue
        impl = {}
        for s in have:
            if rng.random() < (0.85 if (fused_stack and last) else 0.4):
                impl[s] = gen_writes(rng, keys)
        if rng.random() < 0.3:
            nm = f"n{level}"
            impl[nm] = gen_writes(rng, keys)
        L = {"t": "wrap", "impl": impl, "fused": [], "joint": {}, "req": rng.random() < 0.12}
        for s in impl:
            if s not in have:
                have.append(s)
        layers.append(L)
    if fused_stack:
        # groups are declared by the outermost wrapper (sometimes by an inner one), over items it can load
        wraps = [L for L in layers if L["t"] == "wrap"]
        decl = wraps[-1] if rng.random() < 0.85 else rng.choice(wraps)
        outer = layers[-1]
        pool = list(outer["impl"]) if rng.random() < 0.9 else list(have)
        rng.shuffle(pool)
        ng = rng.choice([1, 1, 1, 2])
        used = 0
        for _ in range(ng):
            gl = rng.choice([2, 2, 2, 3])
            g = pool[used:used + gl]
            used += gl
            if len(g) < 2:
                break
            if rng.random() < 0.06:
                g.insert(rng.randrange(len(g) + 1), "index")
            if rng.random() < 0.02 and len(g) > 1:
                g[-1] = g[0]
            decl["fused"].append(g)
            if rng.random() < 0.93:
                outer["joint"]["".join(g)] = list(g)
        if rng.random() < 0.01:
            decl["fused"].append([])
        if rng.random() < 0.02 and decl["fused"]:
            decl["fused"].append(list(decl["fused"][0]))
    # the mode
    lvl = len(layers)
    case = {"size": size, "root": root, "layers": layers}
    groups = declared_groups(case)
    if groups and rng.random() < 0.9:
        names = [s for s in have if on_type(case, s)] or list(have)
    else:
        names = list(have)
    items = []
    ln = rng.choice([1, 1, 2, 2, 3, 3, 4, 5, 6, 7])
    if groups and rng.random() < 0.75:
        for g in groups:
            if rng.random() < 0.8:
                items += [op for op in g]
        rng.shuffle(items)
    recorded = set()

    def note(s):
        # keys some layer records when loading s: candidates for a later ctx.<key> (index-dependent ones: the key of
        # one sample -- the others end in KeyError)
        for ws in [case["root"]["items"].get(s, [])] + [Lr["impl"].get(s, []) for Lr in layers if Lr["t"] == "wrap"]:
            for key, per in ws:
                if not per:
                    recorded.add(key)
                elif rng.random() < 0.15:
                    recorded.add(wkey(key, True, rng.randrange(max(size, 1))))
    for s0 in items:
        note(s0)
    while len(items) < ln:
        r = rng.random()
        if r < 0.12:
            items.append("index")
        elif r < 0.27:
            if recorded and rng.random() < 0.8:
                items.append("ctx." + rng.choice(sorted(recorded)))
            elif rng.random() < 0.6:
                items.append("ctx." + rng.choice(keys))
            else:
                # a relative of a recorded key that may or may not be recorded itself
                items.append("ctx." + rng.choice(key_family(rng.choice(sorted(recorded) or keys))))
        elif r < 0.29:
            items.append(rng.choice(["", "w", "indexx", "ctx."] + ["".join(g) for g in groups]))
        elif r < 0.32:
            items.append(rng.choice(POOL))
        else:
            items.append(rng.choice(names))
        note(items[-1])
    if rng.random() < 0.5:
        # re-order: ctx items keep following their producers only sometimes
        if rng.random() < 0.5:
            rng.shuffle(items)
        else:
            named = [s for s in items if not s.startswith("ctx.")]
            rng.shuffle(named)
            items = named + [s for s in items if s.startswith("ctx.")]
    case["mode"] = " ".join(items)
    case["rc"] = rng.random() < 0.5
    n = outer_len(case)
    case["hist"] = [gen_access(rng, n) for _ in range(rng.randint(1, 6))]
    if rng.random() < 0.4:
        case["hist"] = weave(rng, case["hist"], gen_iter_episode(rng, n))
    case["helpers"] = [gen_helper(rng) for _ in range(rng.choice([0, 0, 1, 2, 3]))]
    case["torch"] = [gen_torch(rng) for _ in range(rng.choice([0, 0, 0, 1, 2]))]
    # marker attributes defined at random layers (shadowing included): ModeWrapper.__getattr__ delegation
    for a in ATTR_POOL:
        for Lr in ([] if torch_root else [root]) + layers:
            if rng.random() < 0.3:
                Lr.setdefault("attrs", []).append(a)
    # loaders raising mid-sample (after their ctx writes): the next access must start from a fresh ctx
    if not torch_root and n > 0 and rng.random() < 0.12:
        cands = [(0, s0) for s0 in root["items"]] + [(k + 1, s0) for k, Lr in enumerate(layers) if Lr["t"] == "wrap"
                                                      for s0 in Lr["impl"]]
        case["raises"] = [[lv, nm, rng.randrange(max(level_len(case, lv), 1))]
                          for lv, nm in rng.sample(cands, min(len(cands), rng.choice([1, 1, 2])))]
    if not torch_root and rng.random() < 0.4 and not any("index" in g for g in groups):
        # call stamps need a ctx on every call: some layer requires ctx propagation
        case["stamp"] = True
        wraps = [L for L in layers if L["t"] == "wrap"]
        if not declared_req(case):
            if wraps and rng.random() < 0.5:
                rng.choice(wraps)["req"] = True
            else:
                root["req"] = True
    if n > 0 and not case.get("raises") and rng.random() < dl_p and dl_eligible(case):
        case["dl"] = {"bs": rng.choice([1, 2, 2, 3, 4]), "drop_last": rng.random() < 0.3, "workers": 0}
    if not case.get("dl") and rng.random() < 0.3:
        case["phases"] = gen_phases(rng, case)
    return case


def dl_eligible(case):
    """default_collate needs uniform samples: no index-dependent ctx keys, every ctx.<key> item and every loader
    available (the constructor accepts the mode), no sample ends in KeyError"""
    ws = [w for ws_ in case["root"]["items"].values() for w in ws_]
    ws += [w for L in case["layers"] if L["t"] == "wrap" for ws_ in L["impl"].values() for w in ws_]
    if any(per for _, per in ws) or not in_domain(case) or "" in items_of(case):
        return False
    try:
        return all(keyerror_status(case, j) == "never" for j in range(outer_len(case)))
    except (LookupError, IndexError):
        return False


def _mk(size, root_items, layers, mode, rc, hist, stamp=False):
    c = {"size": size, "root": {"items": root_items}, "layers": layers, "mode": mode, "rc": rc, "hist": hist,
         "helpers": [], "torch": []}
    if stamp:
        c["stamp"] = True
        c["root"]["req"] = True
    return c


def directed_cases():
    """every arrangement of a fused pair / triple with index and a ctx item, both rc; the examples of the property"""
    out = []
    root = {"x": [["k", False]], "class": [["m", True]], "semseg": []}
    hist = [{"k": "int", "i": 1}, {"k": "int", "i": -1}, {"k": "slice", "a": None, "b": None, "s": -1},
            {"k": "list", "l": [2, 0, -3]}, {"k": "int", "i": 0}]

    def fused_layer(groups):
        return {"t": "wrap", "impl": {"x": [["q", False]], "class": [], "semseg": [["k", True]]},
                "fused": groups, "joint": {"".join(g): list(g) for g in groups}, "req": False}
    pools = [(["x", "class"], ["x", "class", "index"]), (["x", "class"], ["x", "class", "x"]),
             (["x", "class"], ["class", "x", "class"]), (["x", "class"], ["x", "class", "ctx.k", "semseg"]),
             (["x", "semseg", "class"], ["x", "class", "semseg", "index"]), (["x", "class"], ["x", "x", "class", "class"])]
    for g, its in pools:
        for perm in sorted(set(itertools.permutations(its))):
            for rc in (False, True):
                out.append(_mk(3, root, [fused_layer([g])], " ".join(perm), rc, hist, stamp=rc))
            out.append(_mk(3, root, [fused_layer([g])], " ".join(perm), False, hist[:2], stamp=True))
    for its in (["x"], ["class"], ["x", "semseg"], ["index"], ["ctx.q", "x"], ["x", "ctx.q"], ["x", "class", "ctx.m.1"]):
        for rc in (False, True):
            out.append(_mk(3, root, [fused_layer([["x", "class"]])], " ".join(its), rc, hist))
            out.append(_mk(3, root, [], " ".join(its), rc, hist))
    # two groups, singleton group, group declared by an inner wrapper and re-implemented outside
    two = {"t": "wrap", "impl": {"x": [], "class": [["k", False]], "semseg": [], "y": [["m", False]]},
           "fused": [["x", "class"], ["semseg", "y"]], "joint": {"xclass": ["x", "class"], "semsegy": ["semseg", "y"]},
           "req": False}
    root4 = dict(root)
    root4["y"] = []
    for md in ("y class x semseg index", "semseg x y class", "y semseg class x y", "x y", "class ctx.k y x semseg ctx.m"):
        out.append(_mk(4, root4, [two], md, True, hist))
        out.append(_mk(4, root4, [two], md, False, hist, stamp=True))
    inner = fused_layer([["x", "class"]])
    outer = {"t": "wrap", "impl": {"x": [], "class": []}, "fused": [], "joint": {"xclass": ["x", "class"]}, "req": True}
    out.append(_mk(3, root, [inner, outer], "class index x", False, hist))
    out.append(_mk(3, root, [inner, {"t": "wrap", "impl": {}, "fused": [], "joint": {}, "req": False}], "x class", False, hist))
    out.append(_mk(5, root, [{"t": "sub", "indices": [4, 4, 0]}, fused_layer([["x", "class"]])], "class x index", True, hist))
    # whitespace in the mode string: split(" ") yields empty items, which no dataset can load -> rejected
    for md in ("x  class", " x", "x ", "", " ", "x class ", "  ", "index  index", "x\u00a0class"):
        out.append(_mk(3, root, [], md, False, hist[:1]))
        out.append(_mk(3, root, [fused_layer([["x", "class"]])], md, True, hist[:1]))
    # out-of-range ints: below -len (IndexError), at / above len (handed to the loaders), huge, inside lists, numpy ints
    oor = [{"k": "int", "i": -4}, {"k": "int", "i": -3}, {"k": "int", "i": 3}, {"k": "int", "i": -HUGE},
           {"k": "int", "i": HUGE}, {"k": "list", "l": [0, -4, 1]}, {"k": "list", "l": [2, 3]},
           {"k": "int", "i": -1, "ty": "np"}, {"k": "int", "i": 2, "ty": "np"}, {"k": "int", "i": -4, "ty": "np"},
           {"k": "int", "i": 1}]
    for md, lay in (("x index", []), ("index", []), ("class x index ctx.k", [fused_layer([["x", "class"]])]),
                    ("x index", [{"t": "sub", "indices": [2, 0, 1]}]), ("index x", [{"t": "sub", "indices": []}])):
        for rc in (False, True):
            out.append(_mk(3, root, lay, md, rc, oor))
    # loaders raising mid-sample after their ctx writes, in the middle of a history: fresh ctx afterwards
    hist2 = [{"k": "int", "i": 0}, {"k": "int", "i": 1}, {"k": "int", "i": 2}, {"k": "list", "l": [0, 1, 2]},
             {"k": "slice", "a": None, "b": None, "s": -1}, {"k": "int", "i": 0}]
    for md in ("x class ctx.k", "class x", "x index"):
        for rs in ([[0, "class", 1]], [[1, "x", 1]], [[0, "x", 0], [1, "class", 2]]):
            for rc in (False, True):
                c = _mk(3, root, [fused_layer([]) if md != "class x" else fused_layer([["x", "class"]])], md, rc, hist2,
                        stamp=rc)
                c["raises"] = rs
                out.append(c)
    # ctx keys from the whole alphabet: every base name together with relatives that a wrong key computation would
    # confuse it with, recorded by the SAME loader with different values; every one of them requested
    for base in KEY_BASES:
        fam = key_family(base)
        for lo in range(0, len(fam), 4):
            ks = [base] + [k for k in fam[lo:lo + 4] if k != base]
            kroot = {"x": [[k, False] for k in ks], "class": [[ks[-1], True]]}
            md = " ".join(["x"] + ["ctx." + k for k in ks] + ["index"])
            out.append(_mk(2, kroot, [], md, lo % 8 == 0, hist[:2]))
    # iterator objects: zip(mw, mw), nested loops, a second iter() while the first is half-way, peek + list(it),
    # next() after exhaustion, indexing / len between the next() calls
    def I(i):
        return {"k": "iter", "id": i}

    def N(i):
        return {"k": "next", "id": i}

    def R(i):
        return {"k": "rest", "id": i}
    eps = [[I(0), I(1), N(0), N(1), N(0), N(1), N(0), N(1), N(0), N(1)],
           [I(0), N(0), I(1), R(1), N(0), I(1), R(1), N(0), I(1), R(1), N(0)],
           [I(0), N(0), N(0), I(1), N(1), N(0), N(1), N(1), N(1), N(0)],
           [I(0), N(0), R(0), N(0), R(0)],
           [I(0), N(0), {"k": "int", "i": 2}, {"k": "len"}, N(0), {"k": "slice", "a": None, "b": None, "s": -1}, N(0), N(0), N(0)],
           [I(0), N(0), I(0), N(0), R(0), I(0), R(0)],
           [N(3), R(3), I(0), R(0), I(0), R(0)]]
    for md, lay in (("x index", []), ("class x ctx.k", [fused_layer([["x", "class"]])]), ("index", [{"t": "sub", "indices": [2, 0, 1]}]),
                    ("x ctx.m.1", [])):
        for ep in eps:
            for rc in (False, True):
                out.append(_mk(3, root, lay, md, rc, ep, stamp=rc and bool(lay) and lay[0]["t"] == "wrap"))
    c = _mk(3, root, [fused_layer([])], "x class", True, eps[0] + eps[3])
    c["raises"] = [[0, "class", 1]]
    out.append(c)
    out.append(_mk(0, root, [], "x", False, eps[0][:6] + eps[3]))
    # the stack below the wrapper changes between accesses: root grows / shrinks, subset indices re-assigned (same
    # length / longer / shorter / empty) or edited in place, below a fused wrapper too; several changes in a row
    ph_hist = [{"k": "len"}, {"k": "int", "i": -1}, {"k": "slice", "a": None, "b": None, "s": None},
               {"k": "list", "l": [-1, 0]}, I(0), N(0), R(0), {"k": "int", "i": 0}]
    for md, lay, rc in (("index x ctx.k", [], True), ("x", [], False), ("class x index", [fused_layer([["x", "class"]])], False),
                        ("x index", [{"t": "sub", "indices": [2, 0, 1]}], False),
                        ("class x", [{"t": "sub", "indices": [2, 0, 1]}, fused_layer([["x", "class"]])], True)):
        muts = [[{"op": "root", "size": 5}], [{"op": "root", "size": 2}], [{"op": "root", "size": 3}]]
        if lay and lay[0]["t"] == "sub":
            muts = [[{"op": "assign", "level": 1, "indices": [1, 2, 0], "as": "list"}],
                    [{"op": "assign", "level": 1, "indices": [0, 1, 2, 2, 1], "as": "np"}],
                    [{"op": "inplace", "level": 1, "indices": [2]}],
                    [{"op": "root", "size": 6}, {"op": "assign", "level": 1, "indices": [5, 4, 3, 2], "as": "list"}],
                    [{"op": "inplace", "level": 1, "indices": []}]]
        for a in range(len(muts)):
            c = _mk(3, root, lay, md, rc, hist[:2] + [I(0), N(0)])
            c["phases"] = [{"mut": m, "hist": ph_hist} for m in muts[a:a + 2]]
            out.append(c)
    # static helpers: "single item" is decided by the mode.  Single-item modes with bare / list / tuple / empty / nested
    # batches (multi-view items) and with another item's name (AssertionError); several-item modes with a bare batch
    # (AssertionError), an absent item (ValueError), a short batch (IndexError for get_item only), list batches,
    # elements that are lists of views, repeated items, the empty mode
    hp = []
    batches = [{"bare": "B"}, {"tuple": ["V0", "V1"], "as": "list"}, {"tuple": ["V0", "V1"], "as": "tuple"},
               {"tuple": [], "as": "list"}, {"tuple": ["b0"], "as": "list"}, {"tuple": ["b0"], "as": "tuple"},
               {"tuple": [["v0", "v1"], "b1"], "as": "tuple"}, {"tuple": ["b0", ["v0", "v1"], "b2"], "as": "list"}]
    for md, its_ in (("x", ["x", "class", "index"]), ("", ["", "x"]), ("index", ["index", "x"]),
                     ("x class", ["x", "class", "y"]), ("x x", ["x", "y"]), ("class index x", ["x", "class", "index", "z"]),
                     ("x ", ["x", ""])):
        for it_ in its_:
            for bt in batches:
                hp.append({"mode": md, "item": it_, "batch": bt, "value": "V"})
    for lo in range(0, len(hp), 24):
        c = _mk(3, root, [], "x", False, hist[:1])
        c["helpers"] = hp[lo:lo + 24]
        out.append(c)
    # real DataLoader, every batch size, with / without ctx, over a subset (the __getitems__ of torch Subset must not be used)
    plain = {"x": [["k", False]], "class": [], "semseg": []}
    for md in ("x", "index", "x class index", "index x x", "class ctx.k x"):
        for rc in (False, True):
            for bs, dlast in ((1, False), (2, False), (2, True), (5, False)):
                for lay in ([], [{"t": "sub", "indices": [4, 0, 2, 2, 1]}],
                            [{"t": "wrap", "impl": {"x": [["k", False]], "class": []}, "fused": [["x", "class"]],
                              "joint": {"xclass": ["x", "class"]}, "req": False}]):
                    if "ctx.k" in md and not (lay and lay[0]["t"] == "wrap") and md.index("ctx.k") < md.index("x"):
                        continue
                    c = _mk(5, plain, lay, md, rc, hist[:2])
                    c["dl"] = {"bs": bs, "drop_last": dlast, "workers": 0}
                    out.append(c)
    return out


def gen_cases(rng, tier):
    n = 700 if tier == "quick" else 9000
    out = directed_cases()
    out += [gen_case(rng) for _ in range(n)]
    if tier == "thorough":
        out += [gen_case(rng, big=True) for _ in range(1500)]
        # DataLoader with worker processes
        k = 0
        for c in [gen_case(rng, big=True, dl_p=1.0) for _ in range(120)] + [c for c in directed_cases() if c.get("dl")][::7]:
            if c.get("dl") and k < 14:
                c = dict(c)
                c["dl"] = dict(c["dl"], workers=2)
                out.append(c)
                k += 1
    return out


def search_cases(rng, tier):
    for c in directed_cases():
        yield c
    for _ in range(40000):
        yield gen_case(rng, big=rng.random() < 0.2)


# ---------------------------------------------------------------------------
# evidence
# ---------------------------------------------------------------------------
def _pattern(case):
    groups = declared_groups(case)
    pat = []
    for s in items_of(case):
        if s == "index":
            pat.append("i")
        elif s.startswith("ctx."):
            pat.append("c")
        else:
            tag = "n"
            for gi, g in enumerate(groups):
                if s in g:
                    tag = f"g{gi}.{g.index(s)}"
            pat.append(tag)
    return tuple(pat)


def features(case, obs):
    yield "layers=%d" % len(case["layers"])
    yield "root=" + ("torch" if is_torch(case) else "kd")
    yield "groups=%d" % len(declared_groups(case))
    yield "items=%d" % len(items_of(case))
    yield "rc=%s" % case["rc"]
    yield "stamped=%s" % stamped(case)
    yield "in_domain=%s" % in_domain(case)
    yield "init=%s" % obs.get("init")
    if any(L["t"] == "sub" for L in case["layers"]):
        yield "has_subset"
    if case.get("raises"):
        yield "raising-loader"
    cur = case
    for ph in case.get("phases") or []:
        yield "stack-changed-below-wrapper"
        n_a = outer_len(cur)
        cur = mutated_case(cur, ph["mut"])
        n_b = outer_len(cur)
        yield "stack-change:len-" + ("grows" if n_b > n_a else "shrinks" if n_b < n_a else "same")
        for m in ph["mut"]:
            yield "stack-change:" + m["op"] + ("-" + m["as"] if m["op"] == "assign" else "")
    if case.get("dl"):
        yield "dataloader:workers=%d" % case["dl"]["workers"]
        if "dl" in obs and "exc" not in obs["dl"]:
            yield "dataloader:batches=%d" % min(len(obs["dl"]["batches"]), 4)
    if any(x == "" for x in items_of(case)):
        yield "mode:empty-item(whitespace)"
    if any(attr_provider(case, a) not in (None, n_levels(case)) for a in ATTR_POOL):
        yield "attr-delegated-below-outermost"
    if obs.get("iter", {}).get("kind"):
        yield "iter-kind=%d" % obs["iter"]["kind"]
    its = items_of(case)
    if "index" in its:
        yield "mode:index"
    if any(s.startswith("ctx.") for s in its):
        yield "mode:ctx"
    if len(set(its)) < len(its):
        yield "mode:duplicates"
    for acc in case["hist"]:
        raw = [acc["i"]] if acc["k"] == "int" else (acc["l"] if acc["k"] == "list" else [])
        n_ = outer_len(case)
        if any(r < -n_ for r in raw):
            yield "idx:below-range"
        if any(r >= n_ for r in raw):
            yield "idx:above-range"
        if acc.get("ty") == "np":
            yield "idx:numpy-int"
        if acc["k"] in ("iter", "next", "rest", "len"):
            yield "step:" + acc["k"]
        elif acc["k"] == "int":
            yield "idx:negative" if acc["i"] < 0 else "idx:int"
        elif acc["k"] == "slice":
            yield "idx:slice" + ("-neg-step" if (acc["s"] or 1) < 0 else "")
        else:
            yield "idx:list"
    for o in obs.get("hist", []):
        yield "access-kind=%d" % o["kind"]
    live = {}
    for acc in case["hist"]:
        if acc["k"] == "iter":
            if any(v for i, v in live.items() if i != acc["id"]):
                yield "iter:created-while-another-is-half-way"
            live[acc["id"]] = 0
        elif acc["k"] == "next":
            if acc["id"] in live:
                live[acc["id"]] += 1
                if sum(1 for v in live.values() if v) > 1:
                    yield "iter:two-iterators-advanced"
        elif acc["k"] == "rest":
            if live.get(acc["id"]):
                yield "iter:for-loop-over-partially-consumed"
            live.pop(acc["id"], None)
    for s_ in its:
        if s_.startswith("ctx."):
            key = s_[4:]
            if key[:1] in ("c", "t", "x", "."):
                yield "ctxkey:starts-with-ctx.-letter"
            if "." in key:
                yield "ctxkey:dotted"
            if key in POOL or key == "index":
                yield "ctxkey:equals-item-name"
    allk = {wk for ws in list(case["root"]["items"].values()) + [w for L in case["layers"] if L["t"] == "wrap" for w in L["impl"].values()]
            for wk, _ in ws}
    if any(a != b and (a.endswith(b) or a.startswith(b)) for a in allk for b in allk if b):
        yield "ctxkeys:one-is-prefix/suffix-of-another"
    for nm, ix in obs.get("plan", []):
        if isinstance(ix, list):
            yield "fired-group"
            if ix != sorted(ix):
                yield "fired-group-out-of-order"
    if obs.get("init") == 0 and case["mode"] and declared_groups(case):
        plain = {ix for _, ix in obs.get("plan", []) if not isinstance(ix, list)}
        fused = {i for _, ix in obs.get("plan", []) if isinstance(ix, list) for i in ix}
        if plain & fused:
            yield "position-loaded-then-overwritten"


def nontrivial_key(case, obs):
    if obs.get("init") != 0 or not any(o["kind"] == 0 and o.get("res") for o in obs.get("hist", [])):
        return None
    return (_pattern(case), tuple(L["t"] for L in case["layers"]), case["rc"],
            tuple(sorted({a["k"] + ("-" if a["k"] == "int" and a["i"] < 0 else "") for a in case["hist"]})))


def shrink(case):
    def cp(**kw):
        c = dict(case)
        c.update(kw)
        return c
    if case.get("dl"):
        yield cp(dl=None)
        if case["dl"]["workers"]:
            yield cp(dl=dict(case["dl"], workers=0))
    if case.get("phases"):
        phs = case["phases"]
        if len(phs) > 1:
            yield cp(phases=phs[:1])
            yield cp(phases=[{"mut": phs[0]["mut"] + phs[1]["mut"], "hist": phs[1]["hist"]}])
        for k, ph in enumerate(phs):
            for i in range(len(ph["hist"])):
                yield cp(phases=phs[:k] + [dict(ph, hist=ph["hist"][:i] + ph["hist"][i + 1:])] + phs[k + 1:])
    if case.get("raises"):
        yield cp(raises=[])
        for i in range(len(case["raises"])):
            yield cp(raises=case["raises"][:i] + case["raises"][i + 1:])
    if case.get("helpers"):
        yield cp(helpers=[])
        for i in range(len(case["helpers"])):
            yield cp(helpers=[case["helpers"][i]])
    if case.get("torch"):
        yield cp(torch=[])
        for i in range(len(case["torch"])):
            yield cp(torch=[case["torch"][i]])
    h = case["hist"]
    if len(h) > 1:
        for i in range(len(h)):
            yield cp(hist=h[:i] + h[i + 1:])
    elif h:
        yield cp(hist=[])
    its = items_of(case)
    if len(its) > 1:
        for i in range(len(its)):
            yield cp(mode=" ".join(its[:i] + its[i + 1:]))
    for acc_i, acc in enumerate(h):
        if acc["k"] == "list" and len(acc["l"]) > 1:
            for i in range(len(acc["l"])):
                yield cp(hist=h[:acc_i] + [{"k": "list", "l": acc["l"][:i] + acc["l"][i + 1:]}] + h[acc_i + 1:])
    if case["layers"] and case["layers"][-1]["t"] == "wrap" and not case["layers"][-1]["fused"] \
            and not case["layers"][-1]["joint"]:
        yield cp(layers=case["layers"][:-1])
    for k, L in enumerate(case["layers"]):
        if L["t"] == "wrap":
            for s in L["impl"]:
                if L["impl"][s]:
                    L2 = dict(L)
                    L2["impl"] = dict(L["impl"])
                    L2["impl"][s] = []
                    yield cp(layers=case["layers"][:k] + [L2] + case["layers"][k + 1:])
    for s, w in case["root"]["items"].items():
        if w:
            r = dict(case["root"])
            r["items"] = dict(r["items"])
            r["items"][s] = []
            yield cp(root=r)
