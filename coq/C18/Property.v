(* C18 — collator pipeline keeps the batch layout and context contract.
   Statements only; proofs are in Proofs.v.  All theorems speak about the model of the
   REPAIRED code (fixes/C18_*.patch applied). *)
From Coq Require Import ZArith List Bool.
Import ListNotations.
From KD Require Import C18.Model C18.Spec C18.Check C18.Proofs.
Open Scope Z_scope.

(* For every list of members (any modes, any collate functions, also failing runs),
   any input: the batch is default-collated at most once. *)
Theorem default_collate_at_most_once :
  forall rc ms b, (count_dc (fst (call_impl rc ms b)) <= 1)%nat.
Proof. exact at_most_once. Qed.
Print Assumptions default_collate_at_most_once.

(* A call that returns had its modes ordered None* [(Before|After) Before*] and performed
   exactly the specified operations in the specified order: every member called once in
   order, DefaultCollate once — right before the first "before" member or right after the
   first "after" member — iff some member asks for it, contexts split/unpacked once. *)
Theorem default_collate_exactly_once_where_asked :
  forall rc ms b t bo xo,
    call_impl rc ms b = (t, Ok bo xo) ->
    well_ordered (map mmode ms) = true /\
    t = spec_trace rc (map mmode ms) /\
    count_dc t = (if all_none (map mmode ms) then 0 else 1)%nat.
Proof. exact exactly_once_where_asked. Qed.
Print Assumptions default_collate_exactly_once_where_asked.

Theorem returns_ctx_iff_configured :
  forall rc ms b t bo xo, call_impl rc ms b = (t, Ok bo xo) -> (xo <> None <-> rc = true).
Proof. exact ctx_iff_configured. Qed.
Print Assumptions returns_ctx_iff_configured.

(* members that do not touch the context: the returned context is exactly the collation of
   the per-sample contexts — same keys (those of the samples), same values *)
Theorem ctx_keys_preserved :
  forall m ms c0 l t bo xo,
    Forall keeps_ctx (m :: ms) ->
    call_impl true (m :: ms) (BRaw (c0 :: l)) = (t, Ok bo xo) ->
    xo = collate_ctx (map snd (c0 :: l)) /\
    exists x, xo = Some x /\ keys x = map fst (snd c0).
Proof. exact ctx_keys_exact. Qed.
Print Assumptions ctx_keys_preserved.

(* members that only add keys (e.g. a mask collator): no sample key is lost *)
Theorem ctx_keys_not_lost :
  forall m ms l t bo xo,
    Forall extends_ctx (m :: ms) ->
    call_impl true (m :: ms) (BRaw l) = (t, Ok bo xo) ->
    exists x0 x', collate_ctx (map snd l) = Some x0 /\ xo = Some x' /\ incl (keys x0) (keys x').
Proof. exact ctx_keys_kept. Qed.
Print Assumptions ctx_keys_not_lost.

(* the merge of the per-sample contexts itself (default_collate of the list of dicts).
   Samples with one common key list: the merge succeeds, has exactly the samples' keys, and under
   every key the value of every sample, in batch order -- nothing lost, nothing invented. *)
Theorem ctx_merge_lossless_for_uniform_keys :
  forall c0 l,
    (forall c, In c (c0 :: l) -> map fst c = map fst c0) -> NoDup (map fst c0) ->
    exists x, collate_ctx (c0 :: l) = Some x /\ keys x = map fst c0 /\
      forall i c k v, nth_error (c0 :: l) i = Some c -> In (k, v) c ->
        exists vs, In (k, vs) x /\ nth_error vs i = Some v /\ length vs = length (c0 :: l).
Proof. exact collate_ctx_lossless_lem. Qed.
Print Assumptions ctx_merge_lossless_for_uniform_keys.

(* ANY samples: every key of the merged context is a key of the first sample, and every value
   under it is the value the corresponding sample holds under that key *)
Theorem ctx_merge_invents_nothing :
  forall l x k vs,
    collate_ctx l = Some x -> In (k, vs) x ->
    length vs = length l /\
    forall i v, nth_error vs i = Some v -> exists c, nth_error l i = Some c /\ lookup k c = Some v.
Proof. exact collate_ctx_sound_lem. Qed.
Print Assumptions ctx_merge_invents_nothing.

(* the same through the whole pipeline *)
Theorem pipeline_ctx_lossless_for_uniform_keys :
  forall m ms s0 l t bo xo,
    Forall keeps_ctx (m :: ms) ->
    (forall s, In s (s0 :: l) -> map fst (snd s) = map fst (snd s0)) -> NoDup (map fst (snd s0)) ->
    call_impl true (m :: ms) (BRaw (s0 :: l)) = (t, Ok bo xo) ->
    exists x, xo = Some x /\ keys x = map fst (snd s0) /\
      forall i s k v, nth_error (s0 :: l) i = Some s -> In (k, v) (snd s) ->
        exists vs, In (k, vs) x /\ nth_error vs i = Some v /\ length vs = length (s0 :: l).
Proof. exact pipeline_ctx_lossless_lem. Qed.
Print Assumptions pipeline_ctx_lossless_for_uniform_keys.

(* layout: with members that keep the layout they are given, the result has the layout of
   the dataset mode — n entries in mode order over B samples, collated iff some member asks
   for collation — and no context is left inside the batch *)
Theorem layout_preserved :
  forall n B rc ms b t bo xo,
    ms <> [] -> raw_input n B rc b -> Forall (keeps_layout n B) ms ->
    call_impl rc ms b = (t, Ok bo xo) ->
    has_layout n B (negb (all_none (map mmode ms))) bo.
Proof. exact call_layout. Qed.
Print Assumptions layout_preserved.

(* padding collator: every field, position by position: a column of sequences (tensors
   (L_i, *trailing) of one dtype) = tensor of the same dtype and trailing shape, row i =
   original steps ++ all-zero steps up to the batch maximum of the NUMBER OF STEPS (attained
   by some row), all rows equally long, every step still a block of prod(trailing) numbers;
   other fields as default collation *)
Theorem pad_to_batch_max_with_zeros :
  forall s0 l cs,
    pad_items (s0 :: l) = Some cs ->
    length cs = length s0 /\
    forall i, (i < length s0)%nat ->
      exists col out, column i (s0 :: l) = Some col /\ nth_error cs i = Some out /\ padded_field col out.
Proof. exact pad_items_fieldwise. Qed.
Print Assumptions pad_to_batch_max_with_zeros.

Theorem pad_other_fields_as_default :
  forall d z col out, pad_col (FScalar d z :: col) = Some out -> collate_col (FScalar d z :: col) = Some out.
Proof. exact pad_scalar_as_default. Qed.
Print Assumptions pad_other_fields_as_default.

(* the same through the pipeline, with and without per-sample contexts *)
Theorem pad_with_and_without_ctx :
  (forall l t bo xo, call_impl true [pad_member] (BRaw l) = (t, Ok bo xo) ->
     exists c, pad_items (map fst l) = Some c /\ bo = BColl c /\ xo = collate_ctx (map snd l)) /\
  (forall l t bo xo, call_impl false [pad_member] (BItems l) = (t, Ok bo xo) ->
     exists c, pad_items l = Some c /\ bo = BColl c /\ xo = None).
Proof. exact pad_pipelines. Qed.
Print Assumptions pad_with_and_without_ctx.

(* the member collators used by the correspondence run (identity, marking, context-writing,
   "real collator seen through its contract", padding) meet the contracts the theorems above
   assume: none loses a context key, none adds a key it does not announce, the ones that are not
   context writers leave the context alone, all but the (self-collating) padding collator keep
   the layout they are given *)
Theorem harness_members_meet_their_contracts :
  forall mk,
    extends_ctx (member_of mk) /\
    (forall b x b' x', mcollate (member_of mk) b x = Some (b', x') -> incl (keys x') (keys x ++ written_keys (snd mk))) /\
    (is_ctxw (snd mk) = false -> keeps_ctx (member_of mk)) /\
    (is_pad (snd mk) = false -> forall n B, keeps_layout n B (member_of mk)).
Proof.
  exact (fun mk => conj (member_of_extends_ctx mk) (conj (member_of_adds_only_announced mk)
           (conj (member_of_keeps_ctx mk) (fun H n B => member_of_keeps_layout n B mk H)))).
Qed.
Print Assumptions harness_members_meet_their_contracts.

(* the boolean padding test the correspondence run evaluates on the REAL output tensors
   (Check.padded_fieldb: same dtype, same trailing shape, all rows equally long, row i = sample i
   followed by steps of exactly prod(trailing) zeros, length attained by some sample) implies the
   padding clause of the spec *)
Theorem padding_test_implies_spec :
  forall col out, padded_fieldb col out = true -> padded_field col out.
Proof. exact padded_fieldb_sound. Qed.
Print Assumptions padding_test_implies_spec.

(* ---- non-vacuity and the defects of the old code ---- *)
Definition ex_items : list (list field) :=
  [[FScalar DI64 0; FSeq DI64 [] [[5]; [6]]]; [FScalar DI64 1; FSeq DI64 [] [[7]]]].
Definition ex_raw : batch :=
  BRaw [([FScalar DI64 0; FSeq DI64 [] [[5]; [6]]], [(1, 10)]); ([FScalar DI64 1; FSeq DI64 [] [[7]; [8]]], [(1, 11)])].
(* float32 sequences of feature vectors, shapes (2,3) and (1,3), and a Python float *)
Definition ex_items_nd : list (list field) :=
  [[FSeq DF32 [3%nat] [[1; 2; 3]; [4; 5; 6]]; FScalar DF64 2]; [FSeq DF32 [3%nat] [[7; 8; 9]]; FScalar DF64 3]].

(* successful runs exist for [After; Before] (with ctx) and [None; Before] (with ctx) *)
Example ok_after_before :
  call_impl true [id_member MAfter; id_member MBefore] ex_raw =
  ([SplitCtx; CollateCtx; Call 0; DefaultCollate; Call 1],
   Ok (BColl [CVec DI64 [0; 1]; CMat DI64 [] [[[5]; [6]]; [[7]; [8]]]]) (Some [(1, [10; 11])])).
Proof. vm_compute. reflexivity. Qed.
Example ok_none_before :
  snd (call_impl true [id_member MNone; id_member MBefore] ex_raw) =
  Ok (BColl [CVec DI64 [0; 1]; CMat DI64 [] [[[5]; [6]]; [[7]; [8]]]]) (Some [(1, [10; 11])]).
Proof. vm_compute. reflexivity. Qed.
(* D22 on the old code: [After; Before] default-collates twice *)
Example at_most_once_refuted_on_old_code :
  count_dc (fst (call_impl_old true [id_member MAfter; id_member MBefore] ex_raw)) = 2%nat.
Proof. vm_compute. reflexivity. Qed.
(* old code: [None; Before] with contexts fails to unpack *)
Example none_before_ctx_refuted_on_old_code :
  snd (call_impl_old true [id_member MNone; id_member MBefore] ex_raw) = Fail EUnpack.
Proof. vm_compute. reflexivity. Qed.
(* padding *)
Example pad_example :
  call_impl false [pad_member] (BItems ex_items) =
  ([Call 0], Ok (BColl [CVec DI64 [0; 1]; CMat DI64 [] [[[5]; [6]]; [[7]; [0]]]]) None).
Proof. vm_compute. reflexivity. Qed.
(* trailing dimensions: padded to 2 steps (not 6 numbers), one zero step of 3 numbers *)
Example pad_example_trailing :
  pad_items ex_items_nd =
  Some [CMat DF32 [3%nat] [[[1; 2; 3]; [4; 5; 6]]; [[7; 8; 9]; [0; 0; 0]]]; CVec DF64 [2; 3]].
Proof. vm_compute. reflexivity. Qed.
Example layout_premises_satisfiable :
  raw_input 2 2 true ex_raw /\ Forall (keeps_layout 2 2) [id_member MAfter; id_member MBefore].
Proof.
  split.
  - simpl. split; [reflexivity|]. split; [reflexivity|]. repeat constructor.
  - repeat constructor; intros b x b' x' c H Hl; simpl in H; inversion H; subst; exact Hl.
Qed.

(* ---- entry points built around SHARED member collator objects ---- *)
(* For every history of constructions and calls on one set of member objects (any entry point kinds, any
   configurations, any batches, in any order): every call is answered exactly as a FRESH configuration would --
   the entry point as its own constructor arguments (dataset_mode, return_ctx, member list) describe it, over the
   members as they were before the history began -- and the member objects are what they were. *)
Theorem entry_point_independent_of_other_entry_points :
  forall ops h eps, run_hist h eps ops = (h, calls_fresh h eps ops).
Proof. exact run_hist_fresh. Qed.
Print Assumptions entry_point_independent_of_other_entry_points.

Theorem building_and_calling_leave_member_configuration :
  forall ops h eps, fst (run_hist h eps ops) = h.
Proof. exact run_hist_heap. Qed.
Print Assumptions building_and_calling_leave_member_configuration.

(* a compose / wrapper entry point's behaviour is a function of ITS OWN configuration and member list *)
Theorem entry_point_function_of_own_configuration : forall h e b,
  ep_kind e <> EKSingle ->
  ep_call h e b = match ep_kind e, ep_ids e with
                  | EKCompose, _ :: _ | EKWrapper, [_] => run_cfg (ep_cfg e) (map (impl_at h) (ep_ids e)) b
                  | _, _ => fail_out
                  end.
Proof. exact ep_call_own_cfg. Qed.
Print Assumptions entry_point_function_of_own_configuration.

(* what was built / called before (ops1) only determines WHICH entry points exist, not how they answer *)
Theorem calls_after_any_prefix : forall ops1 h eps ops2,
  calls_fresh h eps (ops1 ++ ops2) =
  calls_fresh h eps ops1 ++
  calls_fresh h (eps ++ flat_map (fun o => match o with HBuild k c ids => [ep_of k c ids] | _ => [] end) ops1) ops2.
Proof. exact calls_fresh_app. Qed.
Print Assumptions calls_after_any_prefix.

(* contrast (NOT the code that exists): a wrapper that writes its configuration into the member and delegates to it.
   One member, wrapped for a loader with contexts (entry 0) and then for one without (entry 1): entry 0 silently
   follows the last-written configuration (no context returned), and the member's attributes have changed *)
Definition ex_heap : heap := [{| mo_cfg := None; mo_impl := id_member MBefore |}].
Definition ex_ops : list hop :=
  [HBuild EKWrapper {| c_mode := 0; c_rc := true |} [0%nat]; HBuild EKWrapper {| c_mode := 0; c_rc := false |} [0%nat];
   HCall 0 ex_raw].
Example shared_member_history_on_the_code_that_exists :
  run_hist ex_heap [] ex_ops =
  (ex_heap, [(0%nat, ([DefaultCollate; UnpackCtx; Call 0],
                      Ok (BColl [CVec DI64 [0; 1]; CMat DI64 [] [[[5]; [6]]; [[7]; [8]]]]) (Some [(1, [10; 11])])))]).
Proof. vm_compute. reflexivity. Qed.
Example config_written_into_member_breaks_the_earlier_entry_point :
  map (fun o => match snd (snd o) with Ok _ (Some _) => true | _ => false end)
      (snd (run_hist_gen true ex_heap [] ex_ops)) = [false] /\
  map mo_cfg (fst (run_hist_gen true ex_heap [] ex_ops)) = [Some {| c_mode := 0; c_rc := false |}].
Proof. vm_compute. split; reflexivity. Qed.

(* FINDING (fixes/C18_ragged_ctx_keys.txt): samples whose contexts have DIFFERENT keys (e.g. behind
   KDRandomApply, whose skip path writes nothing) -- the merge follows the first sample: a key only
   later samples have is silently lost, a key a later sample lacks raises KeyError *)
Example ragged_ctx_key_silently_lost :
  collate_ctx [[(1, 10)]; [(1, 11); (2, 5)]] = Some [(1, [10; 11])].
Proof. vm_compute. reflexivity. Qed.
Example ragged_ctx_key_error : collate_ctx [[(1, 10); (2, 5)]; [(1, 11)]] = None.
Proof. vm_compute. reflexivity. Qed.
Example ctx_merge_premises_satisfiable :
  (forall c, In c [[(1, 10); (2, 5)]; [(1, 11); (2, 6)]] -> map fst c = map fst [(1, 10); (2, 5)]) /\
  NoDup (map fst [(1, 10); (2, 5)]).
Proof.
  split.
  - intros c [<-|[<-|[]]]; reflexivity.
  - repeat constructor; simpl; intuition discriminate.
Qed.
