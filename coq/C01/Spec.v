(* Specification of property C01: what a mode-wrapped dataset returns, stated without the
   constructor's temp_items bookkeeping and without the scatter loop.
   - which loader calls happen, in which order, and which output positions they fill is
     given by occurrence counting ([spec_plan]): the k-th joint load of a declared group takes
     the k-th occurrence of each of its members and happens where the k-th occurrence of the
     group's first member stands;
   - position p of a sample is what the LAST call that fills p returned ([last_write]);
   - Python sequence semantics for negative indices, slices, lists, iteration ([py_*]). *)
From Coq Require Import ZArith List Bool String Ascii.
Import ListNotations.
From KD Require Import C01.Model.
Open Scope Z_scope.

(* ---------- which positions an entry fills ---------- *)
(* last j with idxs[j] = p *)
Fixpoint last_slot_index (p : nat) (j : nat) (idxs : list nat) (cur : option nat) : option nat :=
  match idxs with
  | [] => cur
  | fi :: r => last_slot_index p (S j) r (if Nat.eqb fi p then Some j else cur)
  end.

(* None: the entry does not fill p; Some None: with the whole loaded value; Some (Some j): with component j *)
Definition slot_write (sl : slot) (p : nat) : option (option nat) :=
  match sl with
  | Plain i => if Nat.eqb i p then Some None else None
  | Fused idxs => option_map Some (last_slot_index p 0 idxs None)
  end.

Definition slot_writes (sl : slot) (p : nat) : bool :=
  match sl with
  | Plain i => Nat.eqb i p
  | Fused idxs => existsb (Nat.eqb p) idxs
  end.

Definition writers (p : nat) (plan : list entry) : list entry :=
  filter (fun e => slot_writes (snd e) p) plan.

(* the only three ways a position is filled: by its own loader; by one joint load; by its
   own loader first and then overwritten by one joint load *)
Inductive writers_shape (items : list string) (p : nat) : list entry -> Prop :=
| WPlain : forall s, nth_error items p = Some s -> writers_shape items p [(s, Plain p)]
| WFused : forall name idxs, In p idxs -> writers_shape items p [(name, Fused idxs)]
| WBoth : forall s name idxs, nth_error items p = Some s -> In p idxs ->
    writers_shape items p [(s, Plain p); (name, Fused idxs)].

(* an entry of the plan names the right loader for the positions it fills *)
Definition entry_ok (groups : list (list string)) (items : list string) (e : entry) : Prop :=
  match e with
  | (name, Plain i) => nth_error items i = Some name
  | (name, Fused idxs) =>
      exists g, In g groups /\ name = String.concat "" g /\
                Forall2 (fun idx op => nth_error items idx = Some op) idxs g
  end.

(* the constructor's two assertions on fused_operations, plus: no empty group *)
Definition groups_ok (groups : list (list string)) : Prop :=
  Forall (fun g => NoDup g /\ g <> []) groups /\ NoDup (List.concat groups).

(* what the constructor's plan guarantees: every entry names the right loader for the positions it fills, and every
   position of the mode is filled in one of the three ways *)
Definition plan_ok (groups : list (list string)) (items : list string) (plan : list entry) : Prop :=
  Forall (entry_ok groups items) plan /\
  forall p, (p < List.length items)%nat -> writers_shape items p (writers p plan).

(* without declared groups every item is its own loader call, in mode order *)
Definition plain_plan (items : list string) : list entry :=
  map (fun ps => (snd ps, Plain (fst ps))) (combine (seq 0 (List.length items)) items).

(* zip(fused_items, fused_to_idxs) is empty when nothing is declared: the calls are then the items themselves *)
Definition eff_plan (items : list string) (plan : list entry) : list entry :=
  match plan with [] => plain_plan items | _ => plan end.

(* components of a sample as a list *)
Definition out_list {value} (o : out value) : list (option value) :=
  match o with Bare x => [x] | Tuple l => l end.
Definition is_bare {value} (o : out value) : bool := match o with Bare _ => true | Tuple _ => false end.

(* " ".join(items) *)
Fixpoint join_space (items : list string) : string :=
  match items with
  | [] => EmptyString
  | [s] => s
  | s :: r => (s ++ " " ++ join_space r)%string
  end.
Fixpoint no_space (s : string) : bool :=
  match s with EmptyString => true | String c r => negb (Ascii.eqb c " "%char) && no_space r end.

(* ---------- the plan by occurrence counting ---------- *)
Fixpoint occ (s : string) (l : list string) : nat :=
  match l with [] => O | x :: r => (if String.eqb s x then 1 else 0) + occ s r end.

(* position of the k-th (0-based) occurrence of s *)
Fixpoint nth_occ (s : string) (k : nat) (base : nat) (l : list string) : option nat :=
  match l with
  | [] => None
  | x :: r => if String.eqb s x
              then match k with O => Some base | S k' => nth_occ s k' (S base) r end
              else nth_occ s k (S base) r
  end.

Definition group_of (groups : list (list string)) (s : string) : option (list string) :=
  find (fun g => mem String.eqb s g) groups.

(* how many times a group is loaded jointly: as often as its rarest member occurs *)
Definition joint_loads (items : list string) (g : list string) : nat :=
  match g with
  | [] => O
  | h :: tl => fold_left Nat.min (map (fun op => occ op items) tl) (occ h items)
  end.

Definition spec_entry (groups : list (list string)) (items : list string) (p : nat) (s : string) : list entry :=
  let k := occ s (firstn p items) in
  match group_of groups s with
  | Some (h :: tl) =>
      let g := h :: tl in
      if (k <? joint_loads items g)%nat then
        if String.eqb s h
        then [(String.concat "" g, Fused (map (fun op => match nth_occ op k 0 items with Some q => q | None => O end) g))]
        else match nth_occ h k 0 items with
             | Some hk => if (p <? hk)%nat then [(s, Plain p)] else []
             | None => [(s, Plain p)]
             end
      else [(s, Plain p)]
  | _ => [(s, Plain p)]
  end.

Fixpoint spec_plan_from (groups : list (list string)) (items : list string) (p : nat) (rest : list string) : list entry :=
  match rest with
  | [] => []
  | s :: r => spec_entry groups items p s ++ spec_plan_from groups items (S p) r
  end.

Definition spec_plan (groups : list (list string)) (items : list string) : list entry :=
  spec_plan_from groups items 0 items.

Section Spec.
  Variable value : Type.
  Variable vint : Z -> value.
  Variable proj : value -> nat -> value.

  (* the value position p ends up with: what the last entry that fills p delivered *)
  Fixpoint last_write (es : list (slot * value)) (p : nat) (cur : option value) : option value :=
    match es with
    | [] => cur
    | (sl, v) :: r =>
        last_write r p (match slot_write sl p with
                        | None => cur
                        | Some None => Some v
                        | Some (Some j) => Some (proj v j)
                        end)
    end.

  (* the calls of one sample, left to right, sharing one ctx; None = a ctx.<key> item whose key nobody recorded *)
  Fixpoint thread (st : stack value) (names : list string) (idx : Z) (c : octx value)
    : option (list value * octx value) :=
    match names with
    | [] => Some ([], c)
    | s :: r =>
        match call value vint st (classify s) idx c with
        | None => None
        | Some (v, c') =>
            match thread st r idx c' with
            | None => None
            | Some (vs, c'') => Some (v :: vs, c'')
            end
        end
    end.

  Definition spec_propagate (st : stack value) (names : list string) (return_ctx : bool) : bool :=
    return_ctx || s_req_ctx value st || existsb (fun s => is_ctx (classify s)) names.

  (* one item -> bare value, several -> tuple *)
  Definition wrap_out (comps : list (option value)) : out value :=
    match comps with [x] => Bare x | _ => Tuple comps end.

  (* sample idx (already a valid non-negative index) when the loader calls and the positions they fill are [plan]:
     the calls happen left to right on one ctx that starts empty (or None when no ctx is propagated); position p holds
     what the last call filling p delivered *)
  Definition sample_with_plan (st : stack value) (items : list string) (plan : list entry)
             (return_ctx : bool) (idx : Z) : res value :=
    let names := map fst plan in
    let c0 : octx value := if spec_propagate st names return_ctx then Some [] else None in
    match thread st names idx c0 with
    | None => RErr
    | Some (vals, c) =>
        let comps := map (fun p => last_write (combine (map snd plan) vals) p None) (seq 0 (List.length items)) in
        if return_ctx then RItemsCtx (wrap_out comps) c else RItems (wrap_out comps)
    end.

  (* sample idx of the wrapped dataset *)
  Definition spec_sample (st : stack value) (items : list string) (return_ctx : bool) (idx : Z) : res value :=
    sample_with_plan st items (spec_plan (s_fused_ops value st) items) return_ctx idx.

  (* where position p of a sample comes from: the k-th loader call of THIS sample -- made on the ctx the k earlier calls
     of this sample left, starting from the fresh ctx c0 -- is the loader of the item at p (own load) or the joint
     loader of a declared group whose j-th member is the item at p (component j) *)
  Definition delivered (st : stack value) (items : list string) (plan : list entry) (idx : Z) (c0 : octx value)
             (p : nat) (r : option value) : Prop :=
    exists k name sl v vs ct ct',
      nth_error plan k = Some (name, sl) /\
      thread st (firstn k (map fst plan)) idx c0 = Some (vs, ct) /\
      call value vint st (classify name) idx ct = Some (v, ct') /\
      ((sl = Plain p /\ nth_error items p = Some name /\ r = Some v) \/
       (exists idxs g j op, sl = Fused idxs /\ In g (s_fused_ops value st) /\ name = String.concat "" g /\
          nth_error idxs j = Some p /\ nth_error g j = Some op /\ nth_error items p = Some op /\
          r = Some (proj v j))).

  (* ---------- the simple reading for loaders whose value does not depend on ctx ---------- *)
  (* value_of s i: what item s of sample i is *)
  Definition pure_loaders (st : stack value) (value_of : string -> Z -> value)
             (upd : string -> Z -> octx value -> octx value) : Prop :=
    forall s i c, s_load value st s i c = (value_of s i, upd s i c).

  (* component j of a joint load is the member's own item *)
  Definition joint_consistent (st : stack value) (value_of : string -> Z -> value) : Prop :=
    forall g, In g (s_fused_ops value st) -> forall j op i, nth_error g j = Some op ->
      proj (value_of (String.concat "" g) i) j = value_of op i.
End Spec.

(* the names used in declared groups and the names of the joint loaders are loader names (not "index" / "ctx.<key>") *)
Definition groups_named (groups : list (list string)) : Prop :=
  forall g, In g groups ->
    classify (String.concat "" g) = Named (String.concat "" g) /\ forall op, In op g -> classify op = Named op.

Section CtxSpec.
  Variable value : Type.
  (* loaders mutate the dict they are handed (they cannot replace it) and record only keys of W item index *)
  Definition writes_within (st : stack value) (W : string -> Z -> list string) : Prop :=
    forall s i d, exists d', snd (s_load value st s i (Some d)) = Some d' /\
      forall k, In k (map fst d') -> In k (map fst d) \/ In k (W s i).
End CtxSpec.

(* ---------- Python sequence semantics ---------- *)
(* s[i] for i < 0 is s[len + i] *)
Definition py_index (len i : Z) : Z := if i <? 0 then len + i else i.

(* Python reference, "Common Sequence Operations", notes 3-5: negative bounds are relative to
   the end; for a positive step bounds are reduced to len if greater, for a negative step to
   len-1; omitted bounds are the "end" values depending on the sign of the step *)
Definition py_bound (len : Z) (neg : bool) (v : Z) : Z :=
  let lower := if neg then -1 else 0 in
  let upper := if neg then len - 1 else len in
  Z.min upper (if v <? 0 then Z.max lower (v + len) else v).

Definition py_start (len : Z) (step : Z) (a : option Z) : Z :=
  match a with
  | Some v => py_bound len (step <? 0) v
  | None => if step <? 0 then len - 1 else 0
  end.
Definition py_stop (len : Z) (step : Z) (b : option Z) : Z :=
  match b with
  | Some v => py_bound len (step <? 0) v
  | None => if step <? 0 then -1 else len
  end.

(* "the indices are i, i+k, i+2k, ... stopping when j is reached (but never including j)" *)
Definition py_before (step x stop : Z) : bool := if 0 <? step then x <? stop else stop <? x.

Definition py_slice_spec (len : Z) (a b s : option Z) (l : list Z) : Prop :=
  let step := match s with None => 1 | Some k => k end in
  step <> 0 /\
  forall n : nat,
    nth_error l n =
    (let x := py_start len step a + Z.of_nat n * step in
     if py_before step x (py_stop len step b) then Some x else None).

(* ---------- iterator protocol, read off the history by counting ---------- *)
(* Python's iterator protocol for a sequence-like container: every iter(ds) is a NEW iterator over the samples
   0, 1, ..., len-1; an iterator owns its position; once it has raised (StopIteration or any exception out of the
   sample it was loading) it stays finished; iter(it) is it.  Stated WITHOUT a state: what a step on iterator k must
   deliver is read off the steps before it (most recent first, each with how it ended: 0 = it returned normally) --
   walk back to the creation of iterator k, counting the samples it has handed out since.  Steps on other iterators,
   indexing and len() in between are skipped: they cannot matter. *)
Fixpoint yielded_since_iter (k : nat) (past : list (op * nat)) (cnt : nat) : option nat :=
  match past with
  | [] => None                                        (* never created: like a finished iterator *)
  | (OpIter j, _) :: r => if Nat.eqb j k then Some cnt else yielded_since_iter k r cnt
  | (OpNext j, kd) :: r =>
      if Nat.eqb j k then (if Nat.eqb kd 0 then yielded_since_iter k r (S cnt) else None)
      else yielded_since_iter k r cnt
  | (OpRest j, _) :: r => if Nat.eqb j k then None else yielded_since_iter k r cnt
  | _ :: r => yielded_since_iter k r cnt
  end.

(* next(it_k): Some j = sample j is due, None = StopIteration *)
Definition next_due (len : Z) (k : nat) (past : list (op * nat)) : option nat :=
  match yielded_since_iter k past 0 with
  | Some j => if Z.of_nat j <? len then Some j else None
  | None => None
  end.

(* for s in it_k: the samples still due *)
Definition rest_due (len : Z) (k : nat) (past : list (op * nat)) : list nat :=
  match yielded_since_iter k past 0 with
  | Some j => seq j (Z.to_nat len - j)
  | None => []
  end.
