(* C16 — proofs.  Everything here is by induction on lists / case analysis on the wrapper;
   no axioms. *)
From Coq Require Import ZArith List Bool Lia ZifyBool QArith Arith PeanoNat Permutation.
Import ListNotations.
From KD Require Import C16.Model C16.Spec.
Open Scope Z_scope.
Ltac Zify.zify_post_hook ::= Z.to_euclidean_division_equations.

(* ------------------------------------------------------------------ *)
(* generic list lemmas                                                 *)
(* ------------------------------------------------------------------ *)
Lemma mapi_from_spec : forall A B (f : nat -> A -> B) (d : A) l k,
  mapi_from k f l = map (fun i => f (k + i)%nat (nth i l d)) (seq 0 (length l)).
Proof.
  induction l as [|a l IH]; intros k; simpl; [reflexivity|].
  f_equal; [now rewrite Nat.add_0_r|].
  rewrite IH, <- seq_shift, map_map.
  apply map_ext; intros i. now rewrite Nat.add_succ_r.
Qed.

Lemma mapi_spec : forall A B (f : nat -> A -> B) (d : A) l,
  mapi f l = map (fun i => f i (nth i l d)) (seq 0 (length l)).
Proof. intros. unfold mapi. now rewrite (mapi_from_spec _ _ f d). Qed.

Lemma map_nth_seq : forall A (d : A) l, l = map (fun i => nth i l d) (seq 0 (length l)).
Proof.
  induction l as [|a l IH]; simpl; [reflexivity|].
  f_equal. rewrite <- seq_shift, map_map. exact IH.
Qed.

Lemma map_nth_seq_len : forall A (d : A) l n, length l = n -> l = map (fun i => nth i l d) (seq 0 n).
Proof. intros; subst; apply map_nth_seq. Qed.

Lemma nth_firstn_lt : forall A (d : A) k l j, (j < k)%nat -> nth j (firstn k l) d = nth j l d.
Proof.
  induction k; intros l j H; [lia|].
  destruct l; simpl; [now destruct j|]. destruct j; [reflexivity|]. apply IHk; lia.
Qed.

Lemma firstn_incl : forall A k (l : list A) x, In x (firstn k l) -> In x l.
Proof.
  induction k; intros l x H; simpl in H; [contradiction|].
  destruct l; simpl in *; [contradiction|]. destruct H; auto.
Qed.

Lemma nth_set_nth : forall A (d v : A) l i j, (j < length l)%nat ->
  nth j (set_nth i v l) d = if Nat.eqb j i then v else nth j l d.
Proof.
  induction l as [|a l IH]; intros i j H; simpl in H; [lia|].
  destruct i, j; simpl; try reflexivity. apply IH; lia.
Qed.

Lemma set_nth_length : forall A (v : A) l i, length (set_nth i v l) = length l.
Proof. induction l; intros i; destruct i; simpl; auto. Qed.

Lemma flat_map_const_length : forall A B (f : A -> list B) K l,
  (forall x, length (f x) = K) -> length (flat_map f l) = (length l * K)%nat.
Proof.
  intros A B f K l H. induction l; simpl; [reflexivity|].
  now rewrite app_length, H, IHl.
Qed.

Lemma nth_flat_map_blocks : forall A (d : A) (f : nat -> list A) K,
  (forall w, length (f w) = K) ->
  forall W a w s, (w < W)%nat -> (s < K)%nat ->
  nth (w * K + s) (flat_map f (seq a W)) d = nth s (f (a + w)%nat) d.
Proof.
  intros A d f K Hlen. induction W; intros a w s Hw Hs; [lia|].
  simpl. destruct w.
  - simpl. rewrite app_nth1 by (rewrite Hlen; lia). now rewrite Nat.add_0_r.
  - rewrite app_nth2 by (rewrite Hlen; simpl; lia).
    rewrite Hlen. replace (S w * K + s - K)%nat with (w * K + s)%nat by (simpl; lia).
    rewrite IHW by lia. f_equal. f_equal. lia.
Qed.

Lemma zrange_in : forall n x, In x (zrange n) -> 0 <= x < n.
Proof.
  unfold zrange. intros n x H. apply in_map_iff in H. destruct H as [k [<- Hk]].
  apply in_seq in Hk. lia.
Qed.

Lemma zrange_length : forall n, length (zrange n) = Z.to_nat n.
Proof. intros. unfold zrange. now rewrite map_length, seq_length. Qed.

Lemma in_rangeb_true : forall hi y, in_rangeb hi y = true <-> 0 <= y < hi.
Proof. intros. unfold in_rangeb. lia. Qed.

Lemma nthZ_in_or_default : forall A i (l : list A) d, In (nthZ i l d) l \/ nthZ i l d = d.
Proof.
  intros. unfold nthZ. destruct (i <? 0); [now right|].
  destruct (nth_in_or_default (Z.to_nat i) l d); auto.
Qed.

(* ------------------------------------------------------------------ *)
(* (1) bulk accessor = per-sample accessor, wrapper by wrapper         *)
(* ------------------------------------------------------------------ *)
Lemma cg_coherent : forall C p labels,
  cg_getall C p labels = map (cg_getitem C p labels) (seq 0 (length labels)).
Proof. intros. unfold cg_getall, cg_getitem. now rewrite (mapi_spec _ _ _ 0). Qed.

Lemma sc_coherent : forall C p labels,
  sc_getall C p labels = map (sc_getitem C p labels) (seq 0 (length labels)).
Proof. intros. unfold sc_getall, sc_getitem. now rewrite (mapi_spec _ _ _ 0). Qed.

Lemma where3_length : forall a x y n,
  length a = n -> length x = n -> length y = n -> length (where3 a x y) = n.
Proof.
  induction a as [|b a IH]; intros x y n Ha Hx Hy; simpl in *; [now subst|].
  destruct x, y; simpl in *; try lia. destruct n; [lia|]. f_equal. apply IH; lia.
Qed.

Lemma len_is_true : forall A n (l : list A), len_is n l = true <-> length l = n.
Proof. intros. unfold len_is. apply Nat.eqb_eq. Qed.

Lemma sw_coherent : forall p labels,
  length (sw_apply p) = length labels -> length (sw_new p) = length labels ->
  sw_getall p labels = map (sw_getitem p labels) (seq 0 (length labels)).
Proof.
  intros p labels Ha Hn. unfold sw_getall, sw_getitem.
  apply map_nth_seq_len. now apply where3_length.
Qed.

Lemma ow_coherent : forall classes n,
  length classes = n -> ow_getall classes = map (ow_getitem classes) (seq 0 n).
Proof. intros. unfold ow_getall, ow_getitem. now apply map_nth_seq_len. Qed.

Lemma ag_coherent : forall W labels,
  ag_getall W labels = map (ag_getitem W labels) (seq 0 (length labels)).
Proof. reflexivity. Qed.

Lemma pl_coherent : forall p n l,
  match p with
  | PLHard pl => length pl = n
  | PLSoft am => length am = n
  | _ => True
  end ->
  pl_getall p n = Some l -> l = map (pl_getitem p) (seq 0 n).
Proof.
  intros p n l Hlen H. destruct p; simpl in *; inversion H; subst; clear H.
  - now apply map_nth_seq_len.
  - now apply map_nth_seq_len.
  - reflexivity.
Qed.

Lemma fold_set_nth_length : forall semi (labels : list Z),
  length (fold_left (fun cls i => set_nth i (-1) cls) semi labels) = length labels.
Proof.
  induction semi; intros labels; simpl; [reflexivity|]. now rewrite IHsemi, set_nth_length.
Qed.

Lemma fold_set_nth_nth : forall semi (labels : list Z) j, (j < length labels)%nat ->
  nth j (fold_left (fun cls i => set_nth i (-1) cls) semi labels) 0 =
  if existsb (Nat.eqb j) semi then -1 else nth j labels 0.
Proof.
  induction semi as [|a semi IH]; intros labels j Hj; simpl; [reflexivity|].
  rewrite IH by (now rewrite set_nth_length).
  rewrite nth_set_nth by assumption.
  destruct (Nat.eqb j a); simpl; [now destruct (existsb _ semi)|reflexivity].
Qed.

Lemma se_coherent : forall k perm labels,
  se_getall k perm labels = map (se_getitem k perm labels) (seq 0 (length labels)).
Proof.
  intros. unfold se_getall, se_getitem.
  rewrite (map_nth_seq_len _ 0 _ (length labels) (fold_set_nth_length _ _)) at 1.
  apply map_ext_in. intros j Hj. apply in_seq in Hj. apply fold_set_nth_nth. lia.
Qed.

(* ------------------------------------------------------------------ *)
(* pad / rearrange / cut (all-gather order)                            *)
(* ------------------------------------------------------------------ *)
Lemma pad_of_lt : forall n W, (1 <= W)%nat -> (pad_of n W < W)%nat.
Proof. intros. unfold pad_of. apply Nat.mod_upper_bound. lia. Qed.

Lemma pad_of_mod : forall n W, (1 <= W)%nat -> ((n + pad_of n W) mod W = 0)%nat.
Proof.
  intros n W HW. unfold pad_of.
  pose proof (Nat.div_mod n W ltac:(lia)) as Hdm.
  pose proof (Nat.mod_upper_bound n W ltac:(lia)) as Hub.
  destruct (Nat.eq_dec (n mod W) 0) as [e|ne].
  - rewrite e, Nat.sub_0_r, Nat.mod_same, Nat.add_0_r by lia. exact e.
  - rewrite (Nat.mod_small (W - n mod W) W) by lia.
    replace (n + (W - n mod W))%nat with ((n / W + 1) * W)%nat by lia.
    apply Nat.mod_mul. lia.
Qed.

Lemma pad_of_exact : forall n W, (1 <= W)%nat -> (W * ((n + pad_of n W) / W) = n + pad_of n W)%nat.
Proof.
  intros n W HW. symmetry. apply Nat.div_exact; [lia|]. now apply pad_of_mod.
Qed.

Lemma rearr_length : forall A W K (l : list A) d, length (rearr W K l d) = (W * K)%nat.
Proof.
  intros. unfold rearr.
  rewrite (flat_map_const_length _ _ _ K) by (intros; now rewrite map_length, seq_length).
  now rewrite seq_length.
Qed.

Lemma rearr_nth : forall A W K (l : list A) d w s, (w < W)%nat -> (s < K)%nat ->
  nth (w * K + s) (rearr W K l d) d = nth (s * W + w) l d.
Proof.
  intros. unfold rearr.
  rewrite (nth_flat_map_blocks _ d _ K) by (intros; try (now rewrite map_length, seq_length); assumption).
  simpl.
  rewrite (nth_indep _ d (nth (0 * W + w) l d)) by (now rewrite map_length, seq_length).
  rewrite (map_nth (fun s0 => nth (s0 * W + w) l d)).
  now rewrite seq_nth by assumption.
Qed.

(* the list that is rearranged: l padded with its first elements *)
Definition padded {A} (W : nat) (l : list A) : list A :=
  if (0 <? pad_of (length l) W)%nat then l ++ firstn (pad_of (length l) W) l else l.

Lemma padded_length : forall A W (l : list A), (1 <= W <= length l)%nat ->
  length (padded W l) = (length l + pad_of (length l) W)%nat.
Proof.
  intros A W l H. unfold padded. pose proof (pad_of_lt (length l) W ltac:(lia)).
  destruct (0 <? pad_of (length l) W)%nat eqn:E.
  - rewrite app_length, firstn_length. lia.
  - apply Nat.ltb_ge in E. lia.
Qed.

Lemma gather_order_unfold : forall A W (l : list A) d,
  gather_order W l d =
  let l2 := rearr W (length (padded W l) / W) (padded W l) d in
  if (0 <? pad_of (length l) W)%nat then firstn (length l2 - pad_of (length l) W) l2 else l2.
Proof. reflexivity. Qed.

Lemma gather_order_length : forall A W (l : list A) d, (1 <= W <= length l)%nat ->
  length (gather_order W l d) = length l.
Proof.
  intros A W l d H. rewrite gather_order_unfold. cbv zeta.
  destruct (0 <? pad_of (length l) W)%nat eqn:E.
  - rewrite firstn_length, !rearr_length, !padded_length, !pad_of_exact by lia. lia.
  - apply Nat.ltb_ge in E. rewrite rearr_length, padded_length, pad_of_exact by lia. lia.
Qed.

Lemma gather_order_nth : forall A W (l : list A) d j, (1 <= W <= length l)%nat -> (j < length l)%nat ->
  let K := ((length l + pad_of (length l) W) / W)%nat in
  nth j (gather_order W l d) d = nth ((j mod K) * W + j / K) (padded W l) d.
Proof.
  intros A W l d j H Hj K.
  assert (HK : (W * K = length l + pad_of (length l) W)%nat) by (apply pad_of_exact; lia).
  assert (K0 : (0 < K)%nat) by (destruct K; [lia|lia]).
  rewrite gather_order_unfold. cbv zeta.
  rewrite padded_length by assumption. fold K.
  assert (E : nth j (rearr W K (padded W l) d) d = nth (j mod K * W + j / K) (padded W l) d).
  { pose proof (Nat.div_mod j K ltac:(lia)) as Hdm.
    pose proof (Nat.mod_upper_bound j K ltac:(lia)) as Hub.
    assert ((j / K < W)%nat) by (apply Nat.div_lt_upper_bound; lia).
    replace j with ((j / K) * K + j mod K)%nat at 1 by lia.
    apply rearr_nth; assumption. }
  destruct (0 <? pad_of (length l) W)%nat.
  - rewrite nth_firstn_lt; [exact E|]. rewrite rearr_length. lia.
  - exact E.
Qed.

Lemma gather_order_in : forall A W (l : list A) d x, In x (gather_order W l d) -> In x l \/ x = d.
Proof.
  intros A W l d x H. rewrite gather_order_unfold in H. cbv zeta in H.
  assert (R : forall K, In x (rearr W K (padded W l) d) -> In x l \/ x = d).
  { intros K HK. unfold rearr in HK. apply in_flat_map in HK. destruct HK as [w [_ HK]].
    apply in_map_iff in HK. destruct HK as [s [<- _]].
    destruct (nth_in_or_default (s * W + w) (padded W l) d) as [Hin | ->]; [|now right].
    left. revert Hin. unfold padded. destruct (0 <? pad_of (length l) W)%nat; intros Hin; [|assumption].
    apply in_app_or in Hin. destruct Hin; [assumption|]. eapply firstn_incl; eassumption. }
  revert H. destruct (0 <? pad_of (length l) W)%nat; intros H.
  - apply firstn_incl in H. eapply R; eassumption.
  - eapply R; eassumption.
Qed.

(* all-gather indices: position j = w*K + s shows padded sample s*W + w *)
Lemma ag_indices_length : forall n W, (1 <= W <= n)%nat -> length (ag_indices n W) = n.
Proof. intros. unfold ag_indices. rewrite gather_order_length; rewrite seq_length; auto. Qed.

Lemma ag_indices_nth : forall n W j, (1 <= W <= n)%nat -> (j < n)%nat ->
  nth j (ag_indices n W) O = ag_spec n W j.
Proof.
  intros n W j H Hj. unfold ag_indices, ag_spec.
  rewrite gather_order_nth by (rewrite seq_length; lia). cbv zeta. rewrite seq_length.
  set (K := ((n + pad_of n W) / W)%nat).
  assert (HK : (W * K = n + pad_of n W)%nat) by (apply pad_of_exact; lia).
  assert (K0 : (0 < K)%nat) by (destruct K; lia).
  pose proof (Nat.mod_upper_bound j K ltac:(lia)) as Hub.
  assert ((j / K < W)%nat) by (apply Nat.div_lt_upper_bound; lia).
  set (i := (j mod K * W + j / K)%nat).
  assert (Hi : (i < n + pad_of n W)%nat) by (unfold i; nia).
  pose proof (pad_of_lt n W ltac:(lia)) as Hp.
  unfold padded. rewrite seq_length.
  destruct (i <? n)%nat eqn:E.
  - apply Nat.ltb_lt in E.
    destruct (0 <? pad_of n W)%nat; [rewrite app_nth1 by (rewrite seq_length; lia)|];
      now rewrite seq_nth by lia.
  - apply Nat.ltb_ge in E.
    destruct (0 <? pad_of n W)%nat eqn:E2; [|apply Nat.ltb_ge in E2; lia].
    rewrite app_nth2 by (rewrite seq_length; lia). rewrite seq_length.
    rewrite nth_firstn_lt by lia. now rewrite seq_nth by lia.
Qed.

Lemma ag_spec_lt : forall n W j, (1 <= W <= n)%nat -> (j < n)%nat -> (ag_spec n W j < n)%nat.
Proof.
  intros n W j H Hj. unfold ag_spec.
  set (K := ((n + pad_of n W) / W)%nat).
  assert (HK : (W * K = n + pad_of n W)%nat) by (apply pad_of_exact; lia).
  assert (K0 : (0 < K)%nat) by (destruct K; lia).
  pose proof (Nat.mod_upper_bound j K ltac:(lia)) as Hub.
  assert ((j / K < W)%nat) by (apply Nat.div_lt_upper_bound; lia).
  pose proof (pad_of_lt n W ltac:(lia)) as Hp.
  set (i := (j mod K * W + j / K)%nat).
  assert (Hi : (i < n + pad_of n W)%nat) by (unfold i; nia).
  destruct (i <? n)%nat eqn:E; [now apply Nat.ltb_lt in E|apply Nat.ltb_ge in E; lia].
Qed.

(* ------------------------------------------------------------------ *)
(* KDRandomClassWrapper: the generated list has the dataset's length   *)
(* ------------------------------------------------------------------ *)
Lemma ceil_cover : forall (n : nat) C, 0 < C ->
  (n <= Z.to_nat (ceil_div (Z.of_nat n) C) * Z.to_nat C)%nat.
Proof.
  intros n C HC. unfold ceil_div.
  assert (H : Z.of_nat n <= (Z.of_nat n + C - 1) / C * C) by (pose proof (Z.div_mod (Z.of_nat n + C - 1) C ltac:(lia)); pose proof (Z.mod_pos_bound (Z.of_nat n + C - 1) C HC); lia).
  assert (0 <= (Z.of_nat n + C - 1) / C) by (apply Z.div_pos; lia).
  rewrite <- Z2Nat.inj_mul by lia. lia.
Qed.

Lemma concat_repeat_length : forall A (p : list A) m, length (concat (repeat p m)) = (m * length p)%nat.
Proof. induction m; simpl; [reflexivity|]. now rewrite app_length, IHm. Qed.

Lemma rc_base_length : forall (n : nat) C, 0 < C ->
  length (firstn n (flat_map (fun c => repeat c (Z.to_nat (ceil_div (Z.of_nat n) C))) (zrange C))) = n.
Proof.
  intros n C HC. rewrite firstn_length.
  rewrite (flat_map_const_length _ _ _ (Z.to_nat (ceil_div (Z.of_nat n) C))) by (intros; apply repeat_length).
  rewrite zrange_length. pose proof (ceil_cover n C HC). lia.
Qed.

Lemma rc_length : forall nc (labels : list Z) m C,
  contractb (WRandomClass nc m) C labels = true -> length (rc_classes nc (length labels) m) = length labels.
Proof.
  intros nc labels m C H. destruct m as [d|p|W]; simpl in H.
  - apply andb_prop in H. destruct H as [H _]. now apply len_is_true in H.
  - apply andb_prop in H. destruct H as [H _]. apply andb_prop in H. destruct H as [Hnc Hl].
    apply len_is_true in Hl. simpl. rewrite firstn_length, concat_repeat_length, Hl.
    pose proof (ceil_cover (length labels) nc ltac:(lia)). lia.
  - apply andb_prop in H. destruct H as [H HW2]. apply andb_prop in H. destruct H as [Hnc HW1].
    apply Z.ltb_lt in Hnc. apply Nat.leb_le in HW1. apply Nat.leb_le in HW2.
    simpl. pose proof (rc_base_length (length labels) nc Hnc) as Hb.
    rewrite firstn_length, gather_order_length; rewrite Hb; lia.
Qed.

Lemma rc_coherent : forall nc (labels : list Z) m C,
  contractb (WRandomClass nc m) C labels = true ->
  rc_getall nc (length labels) m = map (rc_getitem nc (length labels) m) (seq 0 (length labels)).
Proof.
  intros. unfold rc_getall, rc_getitem. apply map_nth_seq_len. eapply rc_length; eassumption.
Qed.

(* ------------------------------------------------------------------ *)
(* (1) combined                                                        *)
(* ------------------------------------------------------------------ *)
Lemma getall_eq_map_getitem_all : forall w C labels,
  contractb w C labels = true -> coherent (w_items w C labels) (w_getall w C labels).
Proof.
  intros w C labels Hc l Hl. unfold w_items.
  destruct w; simpl in Hl.
  - inversion Hl; subst. apply cg_coherent.
  - inversion Hl; subst. apply sc_coherent.
  - inversion Hl; subst. simpl in Hc.
    repeat (apply andb_prop in Hc; destruct Hc as [Hc ?]).
    apply len_is_true in Hc. apply sw_coherent; [assumption|]. now apply len_is_true.
  - inversion Hl; subst. simpl in Hc. apply andb_prop in Hc. destruct Hc as [Hc _].
    apply ow_coherent. now apply len_is_true.
  - inversion Hl; subst. apply ag_coherent.
  - eapply pl_coherent; [|eassumption].
    destruct p; simpl in Hc; auto;
      repeat (apply andb_prop in Hc; destruct Hc as [Hc ?]); now apply len_is_true.
  - inversion Hl; subst. eapply rc_coherent; eassumption.
  - inversion Hl; subst. apply se_coherent.
Qed.
