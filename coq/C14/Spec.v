(* C14 — the property, in terms of observable parameters only. *)
From Coq Require Import ZArith List Bool QArith.
Import ListNotations.
From KD Require Import C14.Model.
Open Scope Z_scope.

(* contract of numpy Generator.integers(lo, hi): lo <= v < hi *)
Definition draw_ok (d : draw) : Prop := let '(lo, hi, v) := d in lo <= v < hi.
Definition draws_ok (ds : list draw) : Prop := Forall draw_ok ds.
Definition draw_okb (d : draw) : bool := let '(lo, hi, v) := d in (lo <=? v) && (v <? hi).

(* a window (i, j, h, w) lies inside an H x W image *)
Definition in_bounds (H W : Z) (p : rect) : Prop :=
  let '(i, j, h, w) := p in 0 <= i /\ 0 <= j /\ 0 <= h /\ 0 <= w /\ i + h <= H /\ j + w <= W.
Definition in_boundsb (H W : Z) (p : rect) : bool :=
  let '(i, j, h, w) := p in (0 <=? i) && (0 <=? j) && (0 <=? h) && (0 <=? w) && (i + h <=? H) && (j + w <=? W).
Definition positive (p : rect) : Prop := let '(_, _, h, w) := p in 0 < h /\ 0 < w.
Definition positiveb (p : rect) : bool := let '(_, _, h, w) := p in (0 <? h) && (0 <? w).
Definition has_size (th tw : Z) (p : rect) : Prop := let '(_, _, h, w) := p in h = th /\ w = tw.
Definition has_sizeb (th tw : Z) (p : rect) : bool := let '(_, _, h, w) := p in (h =? th) && (w =? tw).

Definition pad_nonneg (p : pad4) : Prop := let '(l, t, r, b) := p in 0 <= l /\ 0 <= t /\ 0 <= r /\ 0 <= b.

(* r is the value of a monotone, integer-fixing rounding of the fraction a / b (b > 0):
   floor(a/b) <= r <= ceil(a/b).  Holds for int(round(fl(x))) with correctly rounded fl. *)
Definition round_ok (a b r : Z) : Prop := (r - 1) * b < a < (r + 1) * b.
Definition round_okb (a b r : Z) : bool := ((r - 1) * b <? a) && (a <? (r + 1) * b).

(* contract of the fallback oracle of the resized crop: the float comparison that chose the
   branch implies the exact comparison (rounding is monotone), r rounds the exact quotient/product *)
Definition fb_contract (H W : Z) (rmin rmax : qz) (fb : fb_branch) (r : Z) : Prop :=
  match fb with
  | FbLo => W * snd rmin < fst rmin * H /\ round_ok (W * snd rmin) (fst rmin) r       (* W/H < rmin, r ~ W / rmin *)
  | FbHi => fst rmax * H < W * snd rmax /\ round_ok (H * fst rmax) (snd rmax) r       (* W/H > rmax, r ~ H * rmax *)
  | FbWhole => True
  end.
Definition fb_contractb (H W : Z) (rmin rmax : qz) (fb : fb_branch) (r : Z) : bool :=
  match fb with
  | FbLo => (W * snd rmin <? fst rmin * H) && round_okb (W * snd rmin) (fst rmin) r
  | FbHi => (fst rmax * H <? W * snd rmax) && round_okb (H * fst rmax) (snd rmax) r
  | FbWhole => true
  end.

(* erasing: in bounds and strictly smaller than the image in both directions *)
Definition erase_ok (H W : Z) (p : rect) : Prop :=
  let '(_, _, h, w) := p in in_bounds H W p /\ h < H /\ w < W.
Definition erase_okb (H W : Z) (p : rect) : bool :=
  let '(_, _, h, w) := p in in_boundsb H W p && (h <? H) && (w <? W).

(* contract of the spec-augment oracle values (the float32 results as exact rationals):
   value = fl(u1 * P) with u1 in [0,1);  y = fl(size - value) (off by less than 1);
   minv = fl(u2 * y) with u2 in [0,1), i.e. between 0 and y *)
Definition specaug_contract (size P : Z) (value y minv : Q) : Prop :=
  (0 <= value /\ value <= inject_Z P /\
   inject_Z size - value - 1 < y /\ y < inject_Z size - value + 1 /\
   ((0 <= minv /\ minv <= y) \/ (y <= minv /\ minv <= 0)))%Q.
Definition specaug_contractb (size P : Z) (value y minv : Q) : bool :=
  Qle_bool 0 value && Qle_bool value (inject_Z P) &&
  negb (Qle_bool y (inject_Z size - value - 1)) && negb (Qle_bool (inject_Z size - value + 1) y) &&
  ((Qle_bool 0 minv && Qle_bool minv y) || (Qle_bool y minv && Qle_bool minv 0)).

(* image and mask went through the same geometry *)
Definition same_geometry (x seg : gimg) : Prop :=
  gh x = gh seg /\ gw x = gw seg /\ forall a b, gsrc x a b = gsrc seg a b.

Definition geom_ok (g : geom) (H W : Z) : Prop :=
  match g with
  | GPad p => pad_nonneg p
  | GCrop p => in_bounds H W p
  | GResize nh nw _ _ => 0 <= nh /\ 0 <= nw
  | GFlip | GId => True
  end.
Definition geom_okb (g : geom) (H W : Z) : bool :=
  match g with
  | GPad (l, t, r, b) => (0 <=? l) && (0 <=? t) && (0 <=? r) && (0 <=? b)
  | GCrop p => in_boundsb H W p
  | GResize nh nw _ _ => (0 <=? nh) && (0 <=? nw)
  | GFlip | GId => true
  end.
Definition geom_dims (g : geom) (hw : Z * Z) : Z * Z :=
  match g with
  | GPad p => pad_dims hw p
  | GCrop (_, _, h, w) => (h, w)
  | GResize nh nw _ _ => (nh, nw)
  | GFlip | GId => hw
  end.
Fixpoint geoms_ok (gs : list geom) (hw : Z * Z) : Prop :=
  match gs with
  | [] => True
  | g :: gs' => geom_ok g (fst hw) (snd hw) /\ geoms_ok gs' (geom_dims g hw)
  end.
Fixpoint geoms_okb (gs : list geom) (hw : Z * Z) : bool :=
  match gs with
  | [] => true
  | g :: gs' => geom_okb g (fst hw) (snd hw) && geoms_okb gs' (geom_dims g hw)
  end.

Definition sop_wf (o : sop) : Prop :=
  match o with
  | SPad th tw | SCrop th tw _ => 0 <= th /\ 0 <= tw
  | SRandResize nh nw _ _ _ | SResize nh nw _ _ _ => 0 <= nh /\ 0 <= nw
  | SFlip _ | SOther => True
  end.

(* every pixel an image shows comes from inside the H0 x W0 input it was derived from *)
Definition sources_inside (H0 W0 : Z) (im : gimg) : Prop :=
  forall y x, inside (gh im) (gw im) y x = true ->
    match gsrc im y x with Some (a, b) => inside H0 W0 a b = true | None => True end.

(* permutation of 0..L-1 as numpy.random.Generator.permutation(L) returns it *)
Definition is_perm (perm : list Z) : Prop :=
  forall l, 0 <= l < Z.of_nat (length perm) -> In l perm.

(* contract of a recorded nearest-neighbour index map (Prop version of Model.nn_okb): one entry per output index,
   each the nominal source index of the library, or one below it where the nominal quotient is an exact integer *)
Definition nn_ok (k : nn_kind) (n_in n_out : Z) (m : list Z) : Prop :=
  Z.of_nat (length m) = n_out /\
  forall i, 0 <= i < n_out ->
    0 <= nn_at m i /\
    (nn_at m i = nn_nominal k n_in n_out i \/
     (nn_at m i = nn_nominal k n_in n_out i - 1 /\ nn_tie k n_in n_out i = true)).
