(* C02 — executable model of attribute lookup and introspection through stacked layers:
   KDDataset / KDWrapper / KDSubset / KDConcatDataset / ModeWrapper  __getattr__  delegation
   (kd_dataset.py, kd_wrapper.py, kd_subset.py, kd_concat_dataset.py, wrappers/mode_wrapper.py),
   the getdim_<kind> alias, fused_operations / requires_propagate_ctx / collators,
   worker_init_fn reach, dispose / context manager.  No proofs in this file.

   Every node of a stack has an attribute environment: the definitions Python's normal
   lookup finds on the node itself BEFORE __getattr__ is consulted --
     class level:    methods, properties (a data descriptor: wins over the instance dict),
                     properties whose getter raises AttributeError (Python then calls
                     __getattr__), plain class attributes;
     instance level: entries of the instance __dict__.
   Names defined by the kappadata base classes themselves (dataset, indices, root_dataset, ...)
   are not part of an environment; getitem_* / getall_* are modelled in Model.v. *)
From Coq Require Import ZArith List Bool String.
Import ListNotations.
Open Scope Z_scope.

(* how a name is defined on a class.  For getshape_<kind> methods the form of the returned
   shape matters to getdim: KMethod returns the 1-tuple (token,), KShape2 a 2-tuple,
   KShapeNT something that is not a tuple *)
Inductive akind := KMethod | KProp | KPropRaise | KCattr | KShape2 | KShapeNT.

(* what an observer gets: the definition that answered, as (node uid, code of the kind) *)
Definition kcode (k : akind) : nat :=
  match k with KMethod => 0 | KProp => 1 | KCattr => 2 | KShape2 => 4 | KShapeNT => 5 | KPropRaise => 6 end%nat.
Definition kinst : nat := 3%nat.

Definition cenv : Type := list (string * akind).

(* overrides of the introspection properties a node's class may carry *)
Record bo := {
  bo_fo : list Z;        (* root: its fused_operations; wrapper: what it appends to super().fused_operations (group ids) *)
  bo_req : bool;         (* requires_propagate_ctx overridden to True *)
  bo_coll : list Z       (* root: the collators registered on it (ids) *)
}.

Record node := {
  n_uid : Z;
  n_cls : cenv;
  n_inst : list string;
  n_bo : bo
}.

Inductive astack : Type :=
| ARoot (n : node)
| ASub (n : node) (s : astack)
| ACat (n : node) (parts : list astack)
| AWrap (n : node) (s : astack)
| AMode (n : node) (s : astack).       (* ModeWrapper(s, mode="index") *)

Inductive ares :=
| AFound (uid : Z) (kc : nat)      (* a definition on node uid answered *)
| AMissing                         (* AttributeError *)
| AAssert                          (* AssertionError (getdim: no getshape / shape not a 1-tuple) *)
| ASpecial.                        (* a name the layer intercepts (getitem_* / getall_* / __getitems__): see Model.v *)

Fixpoint cfind (name : string) (c : cenv) : option akind :=
  match c with
  | [] => None
  | (n, k) :: r => if String.eqb name n then Some k else cfind name r
  end.

Definition smem (name : string) (l : list string) : bool := existsb (String.eqb name) l.

(* Python's object.__getattribute__ on the node itself: Some r = answered, None = AttributeError
   inside normal lookup, i.e. __getattr__ is called next *)
Definition own (n : node) (name : string) : option ares :=
  match cfind name (n_cls n) with
  | Some KProp => Some (AFound (n_uid n) (kcode KProp))          (* data descriptor first *)
  | Some KPropRaise => None                                      (* getter raises AttributeError *)
  | Some k => if smem name (n_inst n) then Some (AFound (n_uid n) kinst)   (* instance dict before non-data descriptors *)
              else Some (AFound (n_uid n) (kcode k))
  | None => if smem name (n_inst n) then Some (AFound (n_uid n) kinst) else None
  end.

Definition is_getdim (name : string) : bool := prefix "getdim_" name.
Definition is_getitem (name : string) : bool := prefix "getitem_" name.
Definition is_getall (name : string) : bool := prefix "getall_" name.
Definition dim_kind (name : string) : string := substring 7 (String.length name - 7) name.

Definition first_part (parts : list astack) (dflt : astack) : astack :=
  match parts with p :: _ => p | [] => dflt end.

(* getattr(stack, name) for a name that is not a getdim_ alias request answered by a
   KDDataset-family layer; ADimHere marks "partial(self.getdim, kind) of THIS node" *)
Inductive lres := LRes (r : ares) | LDimHere.

Fixpoint alookup (s : astack) (name : string) {struct s} : lres :=
  match s with
  | ARoot n =>
      match own n name with
      | Some r => LRes r
      | None => if is_getdim name then LDimHere else LRes AMissing      (* KDDataset.__getattr__ *)
      end
  | AWrap n s' =>
      match own n name with
      | Some r => LRes r
      | None => if is_getdim name then LDimHere else alookup s' name    (* KDWrapper.__getattr__ *)
      end
  | ASub n s' =>
      match own n name with
      | Some r => LRes r
      | None => if is_getitem name || is_getall name then LRes ASpecial
                else alookup s' name                                    (* KDSubset.__getattr__ *)
      end
  | ACat n parts =>
      match own n name with
      | Some r => LRes r
      | None => if is_getitem name || is_getall name then LRes ASpecial
                else match parts with
                     | p :: _ => alookup p name                         (* getattr(self.datasets[0], item) *)
                     | [] => LRes AMissing
                     end
      end
  | AMode n s' =>
      match own n name with
      | Some r => LRes r
      | None => if String.eqb name "__getitems__" then LRes ASpecial
                else alookup s' name                                    (* ModeWrapper.__getattr__ *)
      end
  end.

(* the node at which a getdim_ alias request is answered, as the sub-stack rooted there *)
Fixpoint dim_site (s : astack) (name : string) {struct s} : option astack :=
  match s with
  | ARoot n => match own n name with Some _ => None | None => Some s end
  | AWrap n s' => match own n name with Some _ => None | None => Some s end
  | ASub n s' => match own n name with Some _ => None | None => dim_site s' name end
  | ACat n parts => match own n name with
                    | Some _ => None
                    | None => match parts with p :: _ => dim_site p name | [] => None end
                    end
  | AMode n s' => match own n name with Some _ => None | None => dim_site s' name end
  end.

(* KDDataset.getdim(kind) evaluated on the sub-stack `site`:
     assert hasattr(self, "getshape_" + kind); shape = getattr(self, ...)();
     assert isinstance(shape, tuple) and len(shape) == 1; return shape[0] *)
Definition getdim_at (site : astack) (kind : string) : ares :=
  match alookup site ("getshape_" ++ kind) with
  | LRes (AFound uid kc) => if Nat.eqb kc (kcode KMethod) then AFound uid kc else AAssert
  | _ => AAssert
  end.

(* what an observer of  getattr(stack, name)  (called when it is a method / partial) sees *)
Definition aquery (s : astack) (name : string) : ares :=
  match alookup s name with
  | LRes r => r
  | LDimHere =>
      match dim_site s name with
      | Some site => getdim_at site (dim_kind name)
      | None => AMissing
      end
  end.

(* KDDataset.__init__ asserts that no attribute of the new object starts with getdim_
   (instance attributes are set later by the harness, so only class-level names count);
   it runs for every KDDataset-family node: root, KDWrapper, ModeWrapper *)
Definition cls_has_getdim (n : node) : bool := existsb (fun e => is_getdim (fst e)) (n_cls n).

Fixpoint actor_ok (s : astack) : bool :=
  match s with
  | ARoot n => negb (cls_has_getdim n)
  | AWrap n s' => negb (cls_has_getdim n) && actor_ok s'
  | ASub _ s' => actor_ok s'
  | ACat _ parts => forallb actor_ok parts
  | AMode n s' => negb (cls_has_getdim n) && actor_ok s'
  end.

(* fused_operations; None = RuntimeError (ModeWrapper refuses) *)
Fixpoint afused (s : astack) : option (list Z) :=
  match s with
  | ARoot n => Some (bo_fo (n_bo n))
  | AWrap n s' => match afused s' with Some l => Some (l ++ bo_fo (n_bo n)) | None => None end   (* super().fused_operations + [...] *)
  | ASub _ s' => afused s'
  | ACat _ parts => match parts with p :: _ => afused p | [] => Some [] end
  | AMode _ _ => None
  end.

(* requires_propagate_ctx; None = RuntimeError *)
Fixpoint areq (s : astack) : option bool :=
  match s with
  | ARoot n => Some (bo_req (n_bo n))
  | AWrap n s' => if bo_req (n_bo n) then Some true else areq s'
  | ASub _ s' => areq s'
  | ACat _ parts =>                     (* any(ds.requires_propagate_ctx for ds in self.datasets) *)
      (fix go (ps : list astack) : option bool :=
         match ps with
         | [] => Some false
         | p :: r => match areq p with
                     | Some true => Some true
                     | Some false => go r
                     | None => None
                     end
         end) parts
  | AMode _ _ => None
  end.

(* collators *)
Fixpoint acoll (s : astack) : list Z :=
  match s with
  | ARoot n => bo_coll (n_bo n)
  | AWrap _ s' => acoll s'
  | ASub _ s' => acoll s'
  | ACat _ _ => []
  | AMode _ s' => acoll s'
  end.

(* worker_init_fn(rank): uids of the KDWrapper nodes whose _worker_init_fn ran and of the root
   datasets whose worker_init_fn ran, in call order *)
Fixpoint awreach (s : astack) : list Z :=
  match s with
  | ARoot n => [n_uid n]
  | AWrap n s' => n_uid n :: awreach s'
  | ASub _ s' => awreach s'
  | ACat _ parts => flat_map awreach parts
  | AMode _ s' => awreach s'
  end.

(* dispose() (also what leaving a `with stack:` block runs): uids of the roots disposed *)
Fixpoint adispose (s : astack) : list Z :=
  match s with
  | ARoot n => [n_uid n]
  | AWrap _ s' => adispose s'
  | ASub _ s' => adispose s'
  | ACat _ parts => flat_map adispose parts
  | AMode _ s' => adispose s'               (* fixes/C02_mode_wrapper_dispose.patch *)
  end.

(* root_dataset as the uid of the node *)
Fixpoint aroot (s : astack) : Z :=
  match s with
  | ARoot n => n_uid n
  | AWrap _ s' => aroot s'
  | ASub _ s' => aroot s'
  | ACat _ parts => match parts with p :: _ => aroot p | [] => -1 end
  | AMode _ s' => aroot s'
  end.

(* all_wrappers as uids (identity of the wrapper objects), outermost first *)
Fixpoint awrappers (s : astack) : list Z :=
  match s with
  | ARoot _ => []
  | AWrap n s' => n_uid n :: awrappers s'
  | ASub n s' => n_uid n :: awrappers s'
  | ACat _ parts => match parts with p :: _ => awrappers p | [] => [] end
  | AMode n s' => n_uid n :: awrappers s'
  end.

(* has_wrapper(w) for the wrapper object with uid w *)
Fixpoint ahas_wrapper (w : Z) (s : astack) : bool :=
  match s with
  | ARoot _ => false
  | AWrap n s' => if n_uid n =? w then true else ahas_wrapper w s'
  | ASub n s' => if n_uid n =? w then true else ahas_wrapper w s'
  | ACat _ parts => match parts with p :: _ => ahas_wrapper w p | [] => false end
  | AMode n s' => if n_uid n =? w then true else ahas_wrapper w s'
  end.

(* get_wrapper_of_type(T) given get_wrappers_of_type(T) (as positions in all_wrappers):
   inl None = returns None, inl (Some p) = the wrapper at p, inr tt = AssertionError (not unique) *)
Definition wrapper_of_type (ws : list nat) : option nat + unit :=
  match ws with
  | [] => inl None
  | [p] => inl (Some p)
  | _ => inr tt
  end.
