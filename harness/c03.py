"""C03 — each dataset-manipulation wrapper selects exactly the promised samples.

One case = one class layout + one constructor call.  The real wrapper is built over a
dataset whose item x is the sample id; the selection [w.getitem_x(i) for i in range(len(w))]
is compared with the Coq model (coq/C03/Model.v, evaluated with vm_compute, fed with the
recorded generator outputs) and with the Coq spec (Spec.v / Check.v); an independent Python
oracle states the promise of each wrapper directly on the real selection."""
import collections
import math
import random as pyrandom
import signal

from .common import C, Nat, Opt, Raw, coq

ID = "C03"
COQ_FILES = ["C03/Model.v", "C03/ModelFloat.v", "C03/Spec.v", "C03/Check.v", "C03/Proofs.v", "C03/Property.v"]
COQ_PRELUDE = ("From Coq Require Import ZArith List Bool Floats.\nImport ListNotations.\n"
               "From KD Require Import C03.Model C03.ModelFloat C03.Spec C03.Check.\nOpen Scope Z_scope.\n")
COQ_CHECK = "check"
COQ_CASE_TYPE = "case_t"
SHARD = 200
ALLOWED_AXIOMS = []
TRUSTED = [
    "hand-written model coq/C03/Model.v of the ten wrapper constructors and get_class_counts; tied to KD_REPO by "
    "this run's correspondence evaluation",
    "percent -> index: binary64 product then int()/np.ceil, evaluated in Coq with PrimFloat (bit-exact under "
    "vm_compute, model instance float_ops); the theorems are stated over abstract percent operations with the contract "
    "Proofs.pct_contract (0. and 1. admissible and extremal, cut 0. = 0, cut 1. = n, 0 <= cut p <= n; proved for exact "
    "fractions, rat_ops); that binary64 meets these clauses (and p <= q -> cut p <= cut q) is evaluated on every "
    "generated case (Check.float_contract_ok, code 3), not proved",
    "RepeatWrapper: int(np.ceil(min_size / len)) is modelled as the integer ceiling (exact below 2**53)",
    "generator contract: rng.shuffle / rng.permutation return a permutation of their argument (the recorded outputs "
    "are fed to the model; theorems quantify over all permutations)",
    "numpy/torch primitives used by the constructors: arange, isin, tile, nonzero, unique(return_counts), boolean "
    "mask indexing, concat; float32 division max/count in OversamplingWrapper and float32 percent*count in "
    "ClasswiseSubsetWrapper are exact for the sizes generated (counts < 2**24, dyadic percents)",
    "selection_is_function_of_args_and_draws is true of the model by construction; that the real constructors read "
    "nothing but labels, arguments and their own seeded generator is checked per case (second construction under "
    "another global RNG state, global RNG state tripwire, three label providers)",
    "harness/c03.py: dataset with x = sample id, spy around numpy.random.default_rng, alarm (2 s, 0.5 s after two "
    "confirmed hangs) that classifies a non-returning constructor as RUNAWAY",
]
ASSUMPTIONS = [
    "labels in [0, C) for the class-based wrappers (a few cases with -1 / out-of-range labels are run for "
    "model-vs-code agreement only; IntraClassShuffleWrapper with a label -1 is not generated: Python's negative "
    "indexing makes it reuse the last class's permutation, outside the property and not modelled)",
    "start_index >= 0, num_shots >= 0; non-empty dataset for OversamplingWrapper",
    "seeded wrappers are constructed with an explicit seed (seed=None draws from the global generator by design)",
    "ClasswiseSubsetWrapper percents are dyadic (k/8): the code multiplies in float32",
]
RULE = ("class layouts of size 0-40 (thorough -80) over C in 1..6 with absent, single-sample and dominant classes; "
        "13 constructor kinds; percents from {0, 1, k/n, k/n +- ulp, k/8, random}; index bounds incl. 0, n, beyond n; "
        "seeds 0-9999; non-trivial = constructor succeeded with a non-empty selection; distinct by (kind, layout, args)")

EXPECTED_ERRORS = (AssertionError, RuntimeError, ValueError, IndexError, NotImplementedError, ZeroDivisionError)
KINDS = ["class_filter", "percent", "subset_idx", "subset_range", "subset_percent", "shuffle", "repeat",
         "oversample", "sort", "intra", "fewshot", "cw_range", "cw_percent"]


# ---------------------------------------------------------------------------
# running the real code
# ---------------------------------------------------------------------------
_K = {}


def _classes():
    if _K:
        return _K
    import numpy as np
    import torch
    from kappadata.datasets.kd_dataset import KDDataset
    from kappadata.wrappers.dataset_wrappers.class_filter_wrapper import ClassFilterWrapper
    from kappadata.wrappers.dataset_wrappers.classwise_subset_wrapper import ClasswiseSubsetWrapper
    from kappadata.wrappers.dataset_wrappers.fewshot_wrapper import FewshotWrapper
    from kappadata.wrappers.dataset_wrappers.intra_class_shuffle_wrapper import IntraClassShuffleWrapper
    from kappadata.wrappers.dataset_wrappers.oversampling_wrapper import OversamplingWrapper
    from kappadata.wrappers.dataset_wrappers.percent_filter_wrapper import PercentFilterWrapper
    from kappadata.wrappers.dataset_wrappers.repeat_wrapper import RepeatWrapper
    from kappadata.wrappers.dataset_wrappers.shuffle_wrapper import ShuffleWrapper
    from kappadata.wrappers.dataset_wrappers.sort_by_class_wrapper import SortByClassWrapper
    from kappadata.wrappers.dataset_wrappers.subset_wrapper import SubsetWrapper

    class DS(KDDataset):
        def __init__(self, classes, n_classes):
            super().__init__()
            self.c = list(classes)
            self.n_classes = n_classes

        def __len__(self):
            return len(self.c)

        def getitem_x(self, idx, ctx=None):
            if not -len(self.c) <= idx < len(self.c):
                raise IndexError(idx)
            return int(idx) % len(self.c)

        def getitem_class(self, idx, ctx=None):
            return self.c[idx]

        def getshape_class(self):
            return (self.n_classes,)

    class DSList(DS):
        def getall_class(self):
            return list(self.c)

    class DSTorch(DS):
        def getall_class(self):
            return torch.tensor(self.c, dtype=torch.long)

    class Spy:
        """records what the wrapper's generator returned"""

        def __init__(self, real, trace):
            self.real = real
            self.trace = trace

        def shuffle(self, x):
            self.real.shuffle(x)
            self.trace.append([int(v) for v in x])

        def permutation(self, x):
            r = self.real.permutation(x)
            self.trace.append([int(v) for v in r])
            return r

        def __getattr__(self, name):
            raise AssertionError("unexpected generator method " + name)

    _K.update(np=np, torch=torch, ds={"none": DS, "list": DSList, "torch": DSTorch}, Spy=Spy,
              ClassFilterWrapper=ClassFilterWrapper, ClasswiseSubsetWrapper=ClasswiseSubsetWrapper,
              FewshotWrapper=FewshotWrapper, IntraClassShuffleWrapper=IntraClassShuffleWrapper,
              OversamplingWrapper=OversamplingWrapper, PercentFilterWrapper=PercentFilterWrapper,
              RepeatWrapper=RepeatWrapper, ShuffleWrapper=ShuffleWrapper, SortByClassWrapper=SortByClassWrapper,
              SubsetWrapper=SubsetWrapper)
    return _K


class _Runaway(Exception):
    pass


def _alarm(signum, frame):
    raise _Runaway()


# a construction on <= 80 samples takes about a millisecond; the first hangs are given 2 s, once two constructors
# have been seen not to return the remaining ones get 0.5 s (the run is failing anyway; keeps it short)
_RUNAWAYS = [0]


def _alarm_seconds():
    return 2.0 if _RUNAWAYS[0] < 2 else 0.5


def _construct(case, ds):
    K = _classes()
    w = case["w"]
    if w == "class_filter":
        return K["ClassFilterWrapper"](ds, **{("valid_classes" if case["valid"] else "invalid_classes"): list(case["cls"])})
    if w == "percent":
        return K["PercentFilterWrapper"](ds, from_percent=case["from"], to_percent=case["to"],
                                         ceil_from_index=case["cf"], ceil_to_index=case["ct"])
    if w == "subset_idx":
        return K["SubsetWrapper"](ds, indices=list(case["idxs"]))
    if w == "subset_range":
        return K["SubsetWrapper"](ds, start_index=case["s"], end_index=case["e"])
    if w == "subset_percent":
        return K["SubsetWrapper"](ds, start_percent=case["s"], end_percent=case["e"])
    if w == "shuffle":
        return K["ShuffleWrapper"](ds, seed=case["seed"])
    if w == "repeat":
        return K["RepeatWrapper"](ds, repetitions=case["reps"], min_size=case["min_size"])
    if w == "oversample":
        return K["OversamplingWrapper"](ds, mode=case["mode"])
    if w == "sort":
        return K["SortByClassWrapper"](ds)
    if w == "intra":
        return K["IntraClassShuffleWrapper"](ds, seed=case["seed"])
    if w == "fewshot":
        return K["FewshotWrapper"](ds, num_shots=case["shots"], seed=case["seed"])
    if w == "cw_range":
        return K["ClasswiseSubsetWrapper"](ds, start_index=case["s"], end_index=case["e"],
                                           check_enough_samples=case["check"])
    if w == "cw_percent":
        return K["ClasswiseSubsetWrapper"](ds, start_percent=case["s"], end_percent=case["e"])
    raise KeyError(w)


def _select(case, trace=None):
    """(selection or None, error name)"""
    K = _classes()
    np = K["np"]
    ds = K["ds"][case.get("prov", "list")](case["classes"], case["C"])
    real_default_rng = np.random.default_rng
    if trace is not None:
        np.random.default_rng = lambda *a, **kw: K["Spy"](real_default_rng(*a, **kw), trace)
    old = signal.signal(signal.SIGALRM, _alarm)
    signal.setitimer(signal.ITIMER_REAL, _alarm_seconds())
    try:
        w = _construct(case, ds)
        out = [int(w.getitem_x(i)) for i in range(len(w))]
        return out, None
    except _Runaway:
        _RUNAWAYS[0] += 1
        return None, "RUNAWAY"
    except EXPECTED_ERRORS as e:
        return None, type(e).__name__
    finally:
        signal.setitimer(signal.ITIMER_REAL, 0)
        signal.signal(signal.SIGALRM, old)
        np.random.default_rng = real_default_rng


def run_impl(case):
    import warnings
    warnings.filterwarnings("ignore")
    K = _classes()
    np, torch = K["np"], K["torch"]
    np.random.seed(11)
    torch.manual_seed(11)
    pyrandom_state = pyrandom.getstate()
    g0 = np.random.get_state()[1].tolist()[:8], torch.get_rng_state()[:16].tolist()
    trace = []
    out, err = _select(case, trace)
    g1 = np.random.get_state()[1].tolist()[:8], torch.get_rng_state()[:16].tolist()
    obs = {"out": out, "err": err, "draws": trace, "global_rng_touched": g0 != g1 or pyrandom.getstate() != pyrandom_state}
    if err == "RUNAWAY":
        return obs
    # same arguments, other global generator states: the selection must not change
    np.random.seed(977)
    torch.manual_seed(5)
    obs["again"] = _select(case)[0]
    # complementary ranges
    n = len(case["classes"])
    if out is not None and case["w"] in ("percent", "subset_range", "subset_percent"):
        w = case["w"]
        if w == "percent":
            lo = dict(case, **{"from": None, "to": case["from"], "cf": False, "ct": case["cf"]}) if case["from"] is not None else None
            hi = dict(case, **{"from": case["to"], "to": None, "cf": case["ct"], "ct": False}) if case["to"] is not None else None
        else:
            lo = dict(case, s=None, e=case["s"]) if case["s"] is not None else None
            hi_start = case["e"] if w == "subset_percent" or case["e"] is None else min(case["e"], n)
            hi = dict(case, s=hi_start, e=None) if case["e"] is not None else None
        obs["before"] = _select(lo)[0] if lo else []
        obs["after"] = _select(hi)[0] if hi else []
    return obs


# ---------------------------------------------------------------------------
# independent oracle
# ---------------------------------------------------------------------------
def _labels_ok(case, eff=False):
    c = case["C"]
    if eff and c == 1:
        c = 2
    return all(0 <= x < c for x in case["classes"])


def oracle(case, obs):
    if "harness_exception" in obs:
        return "harness exception: " + obs["harness_exception"] + obs.get("tb", "")
    w, cl, n = case["w"], case["classes"], len(case["classes"])
    out = obs["out"]
    if obs["err"] == "RUNAWAY":
        return f"{w}: construction does not terminate (alarm fired, the constructor did not return)"
    if out is not None:
        if obs.get("again") != out:
            return f"{w}: same arguments, different global generator state -> different selection {out} vs {obs.get('again')}"
        if obs["global_rng_touched"]:
            return f"{w}: construction consumed a global random generator"
        if any(not 0 <= i < n for i in out):
            return f"{w}: selection {out} leaves the dataset (n={n})"
    cnt = collections.Counter(cl)
    occ = collections.Counter(out or [])

    def need(expected, what):
        if out is None:
            return f"{w}: raised {obs['err']} but {what} = {expected} was promised"
        if out != expected:
            return f"{w}: selection {out}, promised {what} = {expected}"
        return None

    if w == "class_filter":
        keep = set(case["cls"])
        return need([i for i in range(n) if (cl[i] in keep) == case["valid"]], "the samples of the allowed classes in order")
    if w in ("percent", "subset_range", "subset_percent"):
        if w == "percent":
            p0 = 0.0 if case["from"] is None else case["from"]
            p1 = 1.0 if case["to"] is None else case["to"]
            if not (0 <= p0 <= 1 and 0 <= p1 <= 1):
                return None
            a = math.ceil(p0 * n) if case["cf"] else int(p0 * n)
            b = math.ceil(p1 * n) if case["ct"] else int(p1 * n)
            ordered = a <= b
        elif w == "subset_range":
            if case["s"] is None and case["e"] is None:
                return None
            a = case["s"] or 0
            b = min(n if case["e"] is None else case["e"], n)
            if a < 0 or a > b:
                return None
            ordered = True
        else:
            if case["s"] is None and case["e"] is None:
                return None
            p0 = 0.0 if case["s"] is None else case["s"]
            p1 = 1.0 if case["e"] is None else case["e"]
            if not (0 <= p0 <= p1 <= 1):
                return None
            a, b = int(p0 * n), int(p1 * n)
            ordered = True
        r = need(list(range(a, b)), f"the contiguous range [{a},{b})")
        if r:
            return r
        if ordered and obs["before"] is not None and obs["after"] is not None:
            if obs["before"] + out + obs["after"] != list(range(n)):
                return (f"{w}: complementary ranges do not partition the dataset: before={obs['before']} "
                        f"selection={out} after={obs['after']} (n={n})")
        return None
    if w == "subset_idx":
        if any(not -n <= i < n for i in case["idxs"]):
            return None
        return need([i % n for i in case["idxs"]], "the given indices")
    if w == "shuffle":
        if out is None or sorted(out) != list(range(n)):
            return f"shuffle: {out} is not a permutation of range({n})"
        return None
    if w == "repeat":
        if n == 0 or (case["reps"] is None) == (case["min_size"] is None):
            return None
        if case["reps"] is not None:
            return None if case["reps"] <= 0 else need(list(range(n)) * case["reps"], f"{case['reps']} whole copies")
        m = case["min_size"]
        if m <= 0:
            return None
        if out is None or len(out) % n or out != list(range(n)) * (len(out) // n) or not m <= len(out) < m + n:
            return f"repeat: {out} is not the smallest number of whole copies reaching min_size={m} (n={n})"
        return None
    if w == "oversample":
        if not _labels_ok(case, eff=True) or n == 0 or case["C"] < 1:
            return None
        if out is None:
            return f"oversample: raised {obs['err']} on a labelled non-empty dataset"
        mx = max(cnt.values())
        for i in range(n):
            if occ[i] < 1:
                return f"oversample: sample {i} was dropped: {out}"
        for c, k in cnt.items():
            total = sum(occ[i] for i in range(n) if cl[i] == c)
            per = [occ[i] for i in range(n) if cl[i] == c]
            if case["mode"] == "multiply":
                if not (mx < 2 * total <= 2 * mx) or any(p != mx // k for p in per):
                    return (f"oversample(multiply): class {c} has {k} samples, majority {mx}: selected {total} "
                            f"({per} per sample), promised floor({mx}/{k}) = {mx // k} copies of each")
            else:
                if total != mx or any(not mx // k <= p <= mx // k + 1 for p in per):
                    return f"oversample(exact): class {c} selected {total} times ({per} per sample), majority has {mx}"
        return None
    if w == "sort":
        if not _labels_ok(case):
            return None
        return need(sorted(range(n), key=lambda i: cl[i]), "the stable sort by class")
    if w == "intra":
        if not _labels_ok(case):
            return None
        if out is None or sorted(out) != list(range(n)) or [cl[i] for i in out] != cl:
            return f"intra-class shuffle: {out} is not a permutation keeping the class sequence {cl}"
        return None
    if w == "fewshot":
        if n == 0 or case["shots"] < 0 or min(cl) < 0:
            return None
        if out is None:
            return f"fewshot: raised {obs['err']}"
        if len(set(out)) != len(out):
            return f"fewshot: a sample was selected twice: {out}"
        if [cl[i] for i in out] != sorted(cl[i] for i in out):
            return f"fewshot: not grouped by class: {out}"
        for c in range(max(cl) + 1):
            got = sum(1 for i in out if cl[i] == c)
            if got != min(case["shots"], cnt[c]):
                return f"fewshot: class {c} has {cnt[c]} samples, {case['shots']} shots requested, {got} selected"
        return None
    if w in ("cw_range", "cw_percent"):
        if not _labels_ok(case, eff=True):
            return None
        if case["s"] is None and case["e"] is None:
            return None
        exp = []
        for c in range(case["C"]):
            members = [i for i in range(n) if cl[i] == c]
            if w == "cw_range":
                s = case["s"] or 0
                e = min(n if case["e"] is None else case["e"], n)
                if s < 0 or s > e:
                    return None
                if case["check"] and len(members) < e:
                    return None
                exp += members[s:e]
            else:
                p0 = 0.0 if case["s"] is None else case["s"]
                p1 = 1.0 if case["e"] is None else case["e"]
                if not (0 <= p0 <= p1 <= 1):
                    return None
                exp += members[int(p0 * len(members)):int(p1 * len(members))]
        return need(exp, "the per-class slices")
    return None


# ---------------------------------------------------------------------------
# rendering into Coq
# ---------------------------------------------------------------------------
def _f(p):
    return Raw("None") if p is None else Raw("(Some (" + float(p).hex() + ")%float)")


def coq_wcase(case, obs):
    w = case["w"]
    d = obs["draws"]
    if w == "class_filter":
        return C("WClassFilter", bool(case["valid"]), list(case["cls"]))
    if w == "percent":
        return C("WPercent", _f(case["from"]), _f(case["to"]), bool(case["cf"]), bool(case["ct"]))
    if w == "subset_idx":
        return C("WSubsetIdx", list(case["idxs"]))
    if w == "subset_range":
        return C("WSubsetRange", Opt(case["s"]), Opt(case["e"]))
    if w == "subset_percent":
        return C("WSubsetPercent", _f(case["s"]), _f(case["e"]))
    if w == "shuffle":
        return C("WShuffle", d[0] if d else [])
    if w == "repeat":
        return C("WRepeat", Opt(case["reps"]), Opt(case["min_size"]))
    if w == "oversample":
        return C("WOversample", case["mode"] == "exact")
    if w == "sort":
        return Raw("WSortByClass")
    if w == "intra":
        return C("WIntraClass", d)
    if w == "fewshot":
        return C("WFewshot", case["shots"], d)
    if w == "cw_range":
        return C("WClasswiseRange", Opt(case["s"]), Opt(case["e"]), bool(case["check"]))
    return C("WClasswisePercent", _f(case["s"]), _f(case["e"]))


def coq_applicable(case, obs):
    return "harness_exception" not in obs


def coq_case(case, obs):
    compl = []
    if obs.get("before") is not None and obs.get("after") is not None and "before" in obs:
        compl = [obs["before"], obs["after"]]
    return coq((list(case["classes"]), case["C"], coq_wcase(case, obs), Opt(obs["out"]), compl))


# ---------------------------------------------------------------------------
# generation
# ---------------------------------------------------------------------------
def gen_layout(rng, big=False):
    c = rng.choice([1, 2, 2, 3, 3, 4, 5, 6])
    n = rng.choice([0, 1, 2, 3, 4, 5, 6, 8, 10, 12, 16, 20, 27, 40] if not big else list(range(0, 81)))
    style = rng.random()
    if style < 0.25:            # some classes absent
        present = rng.sample(range(c), rng.randint(1, c))
        cl = [rng.choice(present) for _ in range(n)]
    elif style < 0.45:          # one dominant class, single-sample minorities
        dom = rng.randrange(c)
        cl = [dom] * n
        for other in range(c):
            if other != dom and n > 1 and rng.random() < 0.7:
                cl[rng.randrange(n)] = other
    elif style < 0.55:          # sorted blocks
        cl = sorted(rng.randrange(c) for _ in range(n))
    else:
        cl = [rng.randrange(c) for _ in range(n)]
    return cl, c


def gen_percent(rng, n, dyadic=False):
    if dyadic:
        return rng.choice([None, 0.0, 1.0, 0.5, 0.25, 0.75, 0.125, 0.375, 0.625, 0.875])
    r = rng.random()
    if r < 0.12:
        return None
    if r < 0.24:
        return 0.0
    if r < 0.34:
        return 1.0
    if r < 0.36:
        return rng.choice([0, 1])                    # ints are accepted too
    if r < 0.60 and n > 0:
        return rng.randint(0, n) / n
    if r < 0.80 and n > 0:
        p = rng.randint(0, n) / n
        p = math.nextafter(p, rng.choice([0.0, 1.0]))
        return min(max(p, 0.0), 1.0)
    if r < 0.84:
        return rng.choice([-0.25, 1.5, 1.0000000000000002])
    return rng.random()


def gen_bound(rng, n):
    return rng.choice([None, None, 0, 0, 1, n, n, n + 3, max(0, n - 1), rng.randint(0, n + 2), rng.randint(0, max(n, 1))])


def gen_case(rng, big=False, kind=None):
    cl, c = gen_layout(rng, big)
    n = len(cl)
    w = kind or rng.choice(KINDS)
    case = {"w": w, "classes": cl, "C": c, "prov": rng.choice(["list", "list", "torch", "none"])}
    if rng.random() < 0.03 and n > 0 and w in ("oversample", "sort", "intra", "fewshot", "cw_range", "cw_percent"):
        # outside the property's domain: model-vs-code only (intra: a label -1 indexes the LAST class's permutation
        # through Python's negative indexing, which the model does not mirror -> only the too-large label there)
        cl[rng.randrange(n)] = rng.choice([-1, c]) if w != "intra" else c
    if w == "class_filter":
        case["valid"] = rng.random() < 0.5
        case["cls"] = [rng.randrange(c + 1) for _ in range(rng.choice([0, 1, 1, 2, 3]))]
    elif w == "percent":
        case.update({"from": gen_percent(rng, n), "to": gen_percent(rng, n), "cf": rng.random() < 0.4, "ct": rng.random() < 0.4})
        if rng.random() < 0.7 and case["from"] is not None and case["to"] is not None and case["from"] > case["to"]:
            case["from"], case["to"] = case["to"], case["from"]
    elif w == "subset_idx":
        m = rng.choice([0, 1, 2, 3, 5, 8])
        case["idxs"] = [rng.randint(-n, n - 1) for _ in range(m)] if n else []
        if rng.random() < 0.08:
            case["idxs"].append(rng.choice([n, -n - 1]))
    elif w in ("subset_range", "cw_range"):
        s, e = gen_bound(rng, n), gen_bound(rng, n)
        if s is not None and e is not None and s > e and rng.random() < 0.8:
            s, e = e, s
        case["s"], case["e"] = s, e
        if w == "cw_range":
            case["check"] = rng.random() < 0.4
            if case["check"] and rng.random() < 0.7 and n:
                case["e"] = rng.randint(0, max(0, min(collections.Counter(cl).get(k, 0) for k in range(c))))
                if case["s"] is not None and case["s"] > case["e"]:
                    case["s"] = rng.choice([None, 0, case["e"]])
    elif w in ("subset_percent", "cw_percent"):
        s, e = gen_percent(rng, n, w == "cw_percent"), gen_percent(rng, n, w == "cw_percent")
        if s is not None and e is not None and s > e and rng.random() < 0.85:
            s, e = e, s
        case["s"], case["e"] = s, e
    elif w in ("shuffle", "intra"):
        case["seed"] = rng.randint(0, 9999)
    elif w == "repeat":
        if rng.random() < 0.5:
            case["reps"], case["min_size"] = rng.choice([1, 2, 3, 5, 0]), None
        else:
            case["reps"], case["min_size"] = None, rng.choice([1, n, n + 1, 2 * n, 2 * n - 1, 3 * n + 2, rng.randint(1, 4 * n + 3), 0])
        if rng.random() < 0.03:
            case["reps"], case["min_size"] = rng.choice([(None, None), (2, 5)])
    elif w == "oversample":
        case["mode"] = rng.choice(["multiply", "exact"])
        if n == 0:
            case["classes"] = cl = [rng.randrange(c)]
    elif w == "fewshot":
        case["shots"] = rng.choice([0, 1, 1, 2, 3, 5, 50])
        case["seed"] = rng.randint(0, 9999)
    return case


def gen_cases(rng, tier):
    n = 1300 if tier == "quick" else 9000
    out = [gen_case(rng, kind=KINDS[i % len(KINDS)]) for i in range(n)]
    if tier == "thorough":
        out += [gen_case(rng, big=True) for _ in range(3000)]
    return out


def search_cases(rng, tier):
    for i in range(40000):
        yield gen_case(rng, big=(i % 5 == 4))


def features(case, obs):
    yield "kind=" + case["w"]
    yield "result=" + ("ok" if obs.get("out") is not None else str(obs.get("err", "harness_exception")))
    cl = case["classes"]
    yield "n=" + ("0" if not cl else "1" if len(cl) == 1 else "2-10" if len(cl) <= 10 else ">10")
    if case["w"] in ("oversample", "sort", "intra", "fewshot", "cw_range", "cw_percent", "class_filter"):
        yield "absent_class=%s" % (len(set(cl)) < case["C"])
        yield "single_sample_class=%s" % (1 in collections.Counter(cl).values())
    for k in ("from", "to", "s", "e"):
        if k in case and case["w"] in ("percent", "subset_percent", "cw_percent"):
            v = case[k]
            yield f"percent_{k}=" + ("None" if v is None else "0" if v == 0 else "1" if v == 1 else "out" if not 0 <= v <= 1 else "inner")
    if case["w"] in ("subset_range", "cw_range"):
        yield "end=" + ("None" if case["e"] is None else "0" if case["e"] == 0 else ">=n" if case["e"] >= len(cl) else "inner")


def nontrivial_key(case, obs):
    if not obs.get("out"):
        return None
    return (case["w"], tuple(case["classes"]), case["C"],
            tuple(sorted((k, str(v)) for k, v in case.items() if k not in ("w", "classes", "C", "prov"))))


def shrink(case):
    cl = case["classes"]
    n = len(cl)
    for i in range(n):
        c2 = dict(case, classes=cl[:i] + cl[i + 1:])
        if "idxs" in case:
            c2["idxs"] = [j for j in case["idxs"] if -(n - 1) <= j < n - 1]
        yield c2
    if case["C"] > 1 and all(x < case["C"] - 1 for x in cl):
        yield dict(case, C=case["C"] - 1)
    for i, x in enumerate(cl):
        if x > 0:
            yield dict(case, classes=cl[:i] + [x - 1] + cl[i + 1:])
    for k in ("idxs", "cls"):
        if k in case:
            for i in range(len(case[k])):
                yield dict(case, **{k: case[k][:i] + case[k][i + 1:]})
    for k in ("s", "e", "reps", "min_size", "shots"):
        if isinstance(case.get(k), int) and case[k] > 0:
            yield dict(case, **{k: case[k] - 1})
    for k in ("from", "to", "s", "e"):
        if isinstance(case.get(k), float) and case[k] not in (0.0, 1.0, 0.5):
            yield dict(case, **{k: 0.5})
    if case.get("prov") != "list":
        yield dict(case, prov="list")
    if case.get("seed"):
        yield dict(case, seed=0)
