#!/bin/bash
# tools/seed_detect.sh <seeded dir name>  — applies seeded/<name>/patch.diff to /repo, runs the property's quick check, restores /repo, writes meta.json
set -u
cd /verif; d=seeded/$1; [ -f $d/patch.diff ] || { echo "no $d/patch.diff"; exit 2; }
pid=${1%%_*}
[ -z "$(git -C /repo status --porcelain)" ] || { echo "/repo not clean"; exit 2; }
git -C /repo apply $PWD/$d/patch.diff || { echo "patch does not apply"; exit 3; }
res=$(./check $pid --tier quick 2>&1); rc=$?
git -C /repo checkout -- .
nv=$(echo "$res" | grep -c '^VIOLATION'); nf=$(echo "$res" | grep '^VIOLATION' | grep -c 'no-failing-input-found')
echo "$1: check $pid exit=$rc violations=$nv no-failing-input=$nf"; echo "$res" | grep -A1 '^VIOLATION' | head -4 | cut -c1-260
python3 - "$pid" "$1" "$d" "$rc" "$nv" "$nf" <<'PY'
import json,sys,os
pid,name,dst,rc,nv,nf=sys.argv[1:]
rd=lambda f: open(os.path.join(dst,f)).read().strip() if os.path.exists(os.path.join(dst,f)) else ''
json.dump({"id":name,"property":pid,"needs_to_manifest":rd('notes.txt'),
 "confirmed":"tools/seed_confirm.sh in a scratch worktree: "+rd('confirmed.txt'),
 "detected_by":f"./check {pid} --tier quick with the change applied to /repo: exit={rc}, {nv} VIOLATION lines ({nf} of them no-failing-input-found)",
 "origin":"independent sub-agent given only the property text and a scratch worktree"},open(os.path.join(dst,'meta.json'),'w'),indent=1)
PY
