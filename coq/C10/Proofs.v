From KD Require Import C10.Model C10.Spec.
Lemma tmp : True. Proof. exact I. Qed.
