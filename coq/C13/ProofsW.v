(* Proofs for C13, part 3: WeightedSampler (model in C12.Model). *)
From Coq Require Import ZArith List Bool Arith Lia Permutation.
Import ListNotations.
From KD Require Import C12.Model C12.Spec C12.Proofs C13.Model C13.Spec C13.ProofsCB.

(* contract of torch.multinomial(weights, E, replacement=False) for len(weights) = n
   and E <= n (positive weights): E distinct category indices *)
Definition multinomial_oracle (n : nat) (draw : oracle) : Prop :=
  forall s h E, E <= n ->
    length (draw s h E) = E /\ NoDup (draw s h E) /\ Forall (fun x => x < n) (draw s h E).

Lemma w_E_le : forall c E, w_E c = Ok E -> E <= w_n c.
Proof.
  intros c E. unfold w_E. destruct (w_size c) as [s|].
  - destruct (Nat.ltb_spec (w_n c) s); intro HE; inversion HE; subst. lia.
  - intro HE; inversion HE; subst. lia.
Qed.

Lemma rank_split_NoDup : forall E W rank G, 1 <= W -> rank < W -> length G = E -> NoDup G ->
    NoDup (rank_split E W rank G).
Proof.
  intros E W rank G HW Hr HG Hnd. destruct (rank_split_spec E W rank G HW Hr HG) as [Hl Hn].
  apply NoDup_nth_error. intros i j Hi Hij. rewrite Hl in Hi.
  assert (j < E / W) as Hj.
  { rewrite <- Hl. apply nth_error_Some. rewrite <- Hij. apply nth_error_Some. lia. }
  rewrite !Hn in Hij by auto.
  pose proof (floor_div_bounds E W HW) as [Hb _].
  assert (rank + i * W = rank + j * W); [|nia].
  apply (proj1 (NoDup_nth_error G) Hnd); auto. nia.
Qed.

Lemma w_epoch_spec : forall c draw E, multinomial_oracle (w_n c) draw -> 1 <= w_W c -> w_E c = Ok E ->
    let W := w_W c in
    let G := draw (w_seed c + w_epoch c)%Z [] E in
    let streams := map (fun rank => stream_of (r_out (w_run c draw rank))) (seq 0 W) in
    w_global c draw = Ok G /\ length G = E /\ NoDup G /\
    split_of true W (E / W) G streams /\
    interleave streams = firstn (W * (E / W)) G /\
    NoDup (interleave streams) /\
    Forall (fun s => NoDup s /\ indices_valid (w_n c) s /\ length s = E / W) streams /\
    (forall rank, r_len (w_run c draw rank) = E / W).
Proof.
  intros c draw E Hd HW HE W G streams.
  destruct (Hd (w_seed c + w_epoch c)%Z [] E (w_E_le c E HE)) as (Hlen & Hnd & Hv). fold G in Hlen, Hnd, Hv.
  assert (streams = map (fun rank => rank_split E W rank G) (seq 0 W)) as Hs.
  { unfold streams. apply map_ext. intro rank. unfold w_run. rewrite HE. reflexivity. }
  pose proof (rank_split_split_of E W G HW Hlen) as Hsplit. rewrite <- Hs in Hsplit.
  assert (interleave streams = firstn (W * (E / W)) G) as Hpre.
  { destruct Hsplit as (_ & _ & H3 & H4 & _). rewrite H3. apply wrap_take_prefix. exact H4. }
  split; [unfold w_global; rewrite HE; reflexivity|].
  split; auto. split; auto. split; auto. split; auto.
  split; [rewrite Hpre; apply NoDup_firstn; exact Hnd|]. split.
  - rewrite Hs. apply Forall_forall. intros s Hin. apply in_map_iff in Hin. destruct Hin as [rank [<- Hr]].
    apply in_seq in Hr. split; [|split].
    + apply rank_split_NoDup; auto. lia.
    + apply Forall_forall. intros x Hx. apply rank_split_incl in Hx; auto; [|lia].
      rewrite Forall_forall in Hv. auto.
    + apply rank_split_spec; auto. lia.
  - intro rank. unfold w_run. rewrite HE. reflexivity.
Qed.
