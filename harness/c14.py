"""C14 — geometric transforms stay in bounds; recorded parameters tell the truth; paired image/mask
transforms share geometry; patchify/unpatchify, patch shuffle and norm/denorm are mutual inverses.

Real objects: KDRandomCrop / KDTwoRandomCrop / KDSimpleRandomCrop / KDRandomResizedCrop / KDRandomErasing /
KDSpecAugment, the semseg transforms inside whole SemsegTransformWrapper pipelines (and KDSemsegOverlappedMultiCrop),
PatchifyImage / PatchwiseShuffle / UnpatchifyImage, Patchify / Unpatchify, KDImageNorm / KDImageRangeNorm — run on
tensor and PIL inputs with a spy generator injected through set_rng (or through the wrapper's own seeding) that
records every draw.  The output is compared with the torchvision.functional operation applied by hand with the
recorded parameters; id-encoded image/mask pairs show which source pixel lands where."""
import contextlib
from fractions import Fraction

from .common import C, Nat, Opt, Raw, Rec, coq

ID = "C14"
COQ_FILES = ["C14/Model.v", "C14/Spec.v", "C14/Check.v", "C14/Proofs.v", "C14/Property.v"]
COQ_PRELUDE = ("From Coq Require Import ZArith List Bool QArith.\nImport ListNotations.\n"
               "From KD Require Import C14.Model C14.Spec C14.Check.\nOpen Scope Z_scope.\n")
COQ_CHECK = "check"
COQ_CASE_TYPE = "case_t"
SHARD = 120
ALLOWED_AXIOMS = []
TRUSTED = [
    "semseg pipelines: the draws consumed inside image-only ('other') transforms are cut out of the recorded trace before "
    "it is handed to the Coq model (they are not geometry parameters; semseg_geometry_trace); that every request path of "
    "a seeded wrapper consumes the same draws is checked by the Python oracle on the outputs (all 7 request paths equal "
    "the fused result), not by a Coq theorem; the semseg transforms record nothing in ctx (nothing to compare there)",
    "hand-written model coq/C14/Model.v of the parameter arithmetic of the crop / resized-crop / erasing / spec-augment "
    "/ semseg transforms, of SemsegTransformWrapper.getitem_xsemseg (same parameters applied to image and mask), of the "
    "einops patterns of (Un)Patchify(Image) as index maps, of x[:, permutation] and of norm/denorm over Q; tied to "
    "KD_REPO by this run's correspondence evaluation (every recorded draw's bounds, the parameters in ctx / in the "
    "spied torchvision.functional calls, the padded/resized sizes, pixel maps of id-encoded inputs)",
    "oracle values (not modelled, re-computed by the harness from the recorded uniform draws with the code's own float "
    "formulas, contract checked by Check.v on every case): candidate (w,h) of a resized crop / erasing rectangle, the "
    "rounded side and the branch of the resized crop's fallback, float32 products of a spec-augment mask, the target "
    "size of a random resize, the number of re-draws of the category-ratio loop, rng.random() < p outcomes",
    "generator contract: integers(lo, hi) in [lo, hi); permutation(n) is a permutation of 0..n-1 (checked per case)",
    "torchvision.functional pad/crop/hflip/resize/resized_crop/normalize and einops.rearrange themselves (the output is "
    "compared with them applied by hand)",
    "nearest-neighbour resizes (KDSemsegResize / KDSemsegRandomResize): the index map of every resize call is a recorded "
    "oracle value, measured by the functional spy on an id image of the same type, dtype and size with the very call "
    "the code made, and accepted by the model only under the contract nn_okb (per output index: the library's nominal "
    "source index - torch floor(i*in/out), PIL floor((i+1/2)*in/out) - or one below it where the nominal quotient is an "
    "exact integer; measured against torch 2.14 / torchvision 0.29 / Pillow 12.3 for all sizes 1..70 and some up to 500: "
    "no other deviation occurs, float / int64 / uint8 tensors and modes F / I / L give the same maps).  With the maps "
    "the Coq model reproduces the pixel map of whole pipelines WITH resizes (id-encoded pairs, nearest image "
    "interpolation) and image/mask alignment is compared pixel by pixel; the maps measured for the image call and "
    "for the mask call are compared with each other",
    "image resized bilinearly (the transforms' default), mask nearest: interpolation numerics are not modelled; what is "
    "proved is where the mask's nominal source pixel lies relative to the image's sampling centre "
    "(nearest_vs_bilinear_grid_pil: within half a source pixel; nearest_vs_bilinear_grid_torch: torch's legacy NEAREST "
    "is corner-anchored, the mask lags the image by (in/out - 1)/2 source pixels = less than half an output pixel)",
    "float32 fact behind the assert of KDSpecAugment._mask_along_axis: proved over Q for a product rounded to nearest "
    "(specaug_float32_product_below_param: u <= 1 - 2^-24, 2^(e-1) < P <= 2^e <= 2^24, v at least as close to u*P as "
    "the float below P => v < P) and specaug_assert_never_fires; that torch's float32 product is rounded to nearest and "
    "that np_random_as_tensor returns a float32 in [0, 1 - 2^-24] is trusted and probed every run: kind 'specprobe' "
    "evaluates the real np_random_as_tensor at the largest float64 / float32 below 1 (and four more factors) and "
    "torch's product for EVERY mask_param 1..2^24; Check.v additionally rejects (code 3) any recorded value >= P",
    "PatchwiseTransform: model = patchify -> merge (sh sw) -> per-patch transform in call order -> split -> unpatchify "
    "(patchwise_composition_index_map); tied by a wrapped transform that flips its patch and adds 1000 * call number",
    "KDTwoRandomCrop overlap thresholds are dyadic rationals in the correspondence run so that the float comparison "
    "equals the exact one; the theorem holds for all thresholds",
    "harness/c14.py spies (generator, torch.Tensor subclass recording __setitem__/masked_fill, wrapped functional ops in "
    "the semseg modules) and case rendering",
]
ASSUMPTIONS = [
    "image sides >= 1 (semseg pipelines, multi crop: >= 1 after every step), crop/pad/resize targets >= 0, "
    "padding >= 0, ratio/scale bounds positive with lo <= hi, erasing candidates >= 0 (square roots)",
    "explicit library errors count as rejected input: ValueError for a crop larger than the (padded) image (also the "
    "one-pixel-smaller case, raised by numpy), AssertionError for sizes not divisible by the patch/crop size, "
    "ZeroDivisionError for zero-area two-crops / zero rectangles, torchvision's ValueError for std == 0, RuntimeError "
    "of resized_crop / resize when the fallback crop of KDRandomResizedCrop or the target of KDSemsegRandomResize "
    "rounds a side to 0 (1-pixel-wide inputs)",
    "float rounding in sqrt/exp/round and float32 products is outside the theorems (oracle values with a checked contract)",
    "non-semseg transforms inside a SemsegTransformWrapper pipeline are geometry preserving",
    "request paths (image alone / mask alone / fused / ModeWrapper item orders) are compared for SEEDED wrappers only: "
    "an unseeded wrapper draws from its transforms' own generators, separate requests legitimately differ",
    "spec-augment 'in bounds' claim 0 <= start, end <= size needs mask_param <= size (for larger parameters the "
    "mask is clipped by the axis, proved as masked_inside); mask_param <= 2^24 for the float32 theorem",
    "KDSemsegRandomResize rounds a side to 0 for 1-pixel-wide pairs scaled down (15x1, base 8x4, ratio 0.5 -> new "
    "width round(0.27) = 0): torchvision's resize raises an explicit error, counted as rejected input like the "
    "resized-crop fallback (histogram key 'semseg:resize target rounds a side to 0 (torchvision rejects)', directed "
    "cases in every run); 'return the requested output size for every input size' is therefore claimed for pairs whose "
    "scaled sides round to >= 1",
    "KDRandomErasing draws the rectangle count from integers(min_count, max_count), upper bound EXCLUSIVE, so max_count "
    "itself is never reached (min_count=1, max_count=2 always erases 1 rectangle); the timm original it adapts uses "
    "random.randint(min_count, max_count), inclusive ('max_count: maximum number of erasing blocks per image').  Not a "
    "bounds matter: the model mirrors the code (erase_in_bounds states length <= max(min_count, max_count - 1)); reported only",
]
RULE = ("kinds crop/two/simple/rrc/erase/spec/semseg/multi/patch/patch5/norm; image sides 1..48 (thorough ..200) incl. "
        "smaller than / equal to / one pixel off the target and aspect ratios up to 1:200, tensor and PIL inputs, paddings "
        "none/int/2/4-lists, pad_if_needed, semseg pipelines of 1-6 ops through SemsegTransformWrapper (seeded and "
        "unseeded, direct and via ModeWrapper; 'other' ops are Identity or STOCHASTIC image-only transforms -- a "
        "KDStochasticTransform consuming 1-5 random()/uniform()/normal()/integers()/permutation() draws of the sample's "
        "generator, or the real KDAdditiveGaussianNoise -- placed before / between / after the random geometry ops; for "
        "every seeded wrapper sample idx is requested again through getitem_x, getitem_semseg, getitem_xsemseg and "
        "ModeWrapper modes 'x', 'semseg', 'x semseg', 'semseg x' and compared with the fused result); non-trivial = the transform returned and made a draw or moved a pixel; "
        "distinct by (kind, result code, sizes, targets, input type); every run: directed resize-only pairs (tie-heavy "
        "size pairs such as 2->7, 14->46, 26->22, tensor and PIL), 1-pixel-wide pairs through KDSemsegRandomResize, one "
        "exhaustive float32 probe of mask_param 1..2^24, PatchwiseTransform on 1..5 x 1..5 patch grids; crops and "
        "resized crops on further input families (PIL L / I;16 / I, uint8 tensors, batched (B,C,H,W) tensors): 100 "
        "cases quick, 2500 thorough")

MAXU = 400       # cap on generator calls per case


# ---------------------------------------------------------------------------
# small helpers
# ---------------------------------------------------------------------------
def frac(x):
    if hasattr(x, "item"):
        x = x.item()
    f = Fraction(x)
    return [f.numerator, f.denominator]


def Q(fr):
    n, d = fr
    return Raw(f"(({n}) # {d})%Q" if n < 0 else f"({n} # {d})%Q")


def QZ(fr):
    return (int(fr[0]), int(fr[1]))


def two(v):
    return [v, v] if isinstance(v, int) else list(v)


class Runaway(Exception):
    pass


class SpyGen:
    """the np.random.Generator methods the anchored transforms use, delegating to a real default_rng and
    appending every call to a trace"""

    def __init__(self, seed, trace):
        import numpy as np
        self.g = np.random.Generator(np.random.PCG64(seed))     # = default_rng(seed); not looked up by name (patched in semseg runs)
        self.trace = trace

    def _tick(self):
        if len(self.trace) > MAXU:
            raise Runaway()

    def integers(self, low, high=None, **kw):
        self._tick()
        lo, hi = (0, low) if high is None else (low, high)
        try:
            v = self.g.integers(low, high, **kw)
        except ValueError:
            self.trace.append(["I!", int(lo), int(hi)])
            raise
        self.trace.append(["I", int(lo), int(hi), int(v)])
        return v

    def random(self, *a, **kw):
        self._tick()
        v = self.g.random(*a, **kw)
        self.trace.append(["R", float(v)])
        return v

    def uniform(self, lo=0.0, hi=1.0):
        self._tick()
        v = self.g.uniform(lo, hi)
        self.trace.append(["U", float(lo), float(hi), float(v)])
        return v

    def permutation(self, n):
        self._tick()
        v = self.g.permutation(n)
        self.trace.append(["P", [int(a) for a in v]])
        return v

    def standard_normal(self, *a, **kw):
        self._tick()
        self.trace.append(["N"])
        return self.g.standard_normal(*a, **kw)

    def normal(self, *a, **kw):
        self._tick()
        self.trace.append(["N"])
        return self.g.normal(*a, **kw)


def classify(e):
    """small enum of the explicit library errors (codes of coq/C14/Model.v)"""
    s = str(e)
    if isinstance(e, Runaway):
        return 8
    if isinstance(e, ValueError) and "Required crop size" in s:
        return 1
    if isinstance(e, ValueError) and ("high <= 0" in s or "low >= high" in s or "high - low" in s):
        return 2
    if isinstance(e, AssertionError):
        return 3
    if isinstance(e, ZeroDivisionError):
        return 4
    if isinstance(e, ValueError) and "std evaluated to zero" in s:
        return 5
    if isinstance(e, RuntimeError) and ("non-zero size" in s or "should be greater than 0" in s
                                        or "Input and output sizes" in s or "must be greater than 0" in s):
        return 6
    if isinstance(e, ValueError) and ("height and width must be > 0" in s or "must be > 0" in s):
        return 6
    return 9


def ints(trace):
    return [(t[1], t[2], t[3]) for t in trace if t[0] == "I"]


def uniforms(trace):
    return [t[3] for t in trace if t[0] == "U"]


def pad4(p):
    """torchvision padding argument -> (left, top, right, bottom)"""
    if p is None:
        return None
    if isinstance(p, int):
        return [p, p, p, p]
    p = list(p)
    if len(p) == 1:
        return [p[0]] * 4
    if len(p) == 2:
        return [p[0], p[1], p[0], p[1]]
    return p


def make_image(H, W, inp, rnd):
    """id-encoded image (value = 1 + row-major pixel id; 0 is left for fill values)"""
    import numpy as np
    import torch
    from PIL import Image
    ids = np.arange(H * W, dtype=np.int64).reshape(H, W)
    if inp == "tensor1":
        return torch.tensor(ids + 1, dtype=torch.float32)[None]
    if inp == "tensor3":
        return torch.tensor(ids + 1, dtype=torch.float32)[None].repeat(3, 1, 1) + torch.tensor([0., 0.25, 0.5])[:, None, None]
    if inp == "pilF":
        return Image.fromarray((ids + 1).astype(np.float32), mode="F")
    if inp == "pilRGB":
        arr = np.stack([(ids * 7 + 3) % 251, (ids * 13 + 5) % 241, (ids // 3) % 256], axis=-1).astype(np.uint8)
        return Image.fromarray(arr, mode="RGB")
    # further input families (thorough tier; a few in the quick tier)
    if inp == "pilL":
        return Image.fromarray(((ids * 7 + 3) % 251).astype(np.uint8), mode="L")
    if inp == "pilI16":
        return Image.fromarray(((ids * 257 + 11) % 65521).astype(np.uint16), mode="I;16")
    if inp == "pilI":
        return Image.fromarray((ids + 1).astype(np.int32), mode="I")
    if inp == "tensor_u8":
        arr = np.stack([(ids * 7 + 3) % 251, (ids * 13 + 5) % 241, (ids // 3) % 256], axis=0).astype(np.uint8)
        return torch.tensor(arr)
    if inp == "tensor_b":      # batched (B, C, H, W)
        base = torch.tensor(ids + 1, dtype=torch.float32)[None, None].repeat(2, 3, 1, 1)
        return base + torch.tensor([0., 0.5])[:, None, None, None] + torch.tensor([0., 0.125, 0.25])[None, :, None, None]
    raise ValueError(inp)


def same_img(a, b):
    import numpy as np
    import torch
    if torch.is_tensor(a) != torch.is_tensor(b):
        return False
    if torch.is_tensor(a):
        return a.shape == b.shape and bool(torch.equal(a, b))
    a, b = np.array(a), np.array(b)
    return a.shape == b.shape and bool(np.array_equal(a, b))


def hw_of(img):
    import torch
    if torch.is_tensor(img):
        return [int(img.shape[-2]), int(img.shape[-1])]
    return [int(img.height), int(img.width)]


def expected_padded(case):
    """independent statement of KDRandomCrop's padding: explicit padding first, then pad_if_needed adds the
    missing amount on BOTH sides of a too small dimension.  Returns the list of paddings and the final size."""
    H, W = case["H1W1"] if "H1W1" in case else (case["H"], case["W"])
    th, tw = two(case["size"])
    steps = []
    p = pad4(case.get("padding"))
    if p is not None:
        steps.append(p)
        H, W = H + p[1] + p[3], W + p[0] + p[2]
    H0 = H
    if case.get("pin") and W < tw:
        steps.append([tw - W, 0, tw - W, 0])
        W = W + 2 * (tw - W)
    if case.get("pin") and H0 < th:
        steps.append([0, th - H0, 0, th - H0])
        H = H0 + 2 * (th - H0)
    return steps, H, W


# ---------------------------------------------------------------------------
# run_impl per kind
# ---------------------------------------------------------------------------
def _mk_crop(case, cls, **extra):
    kw = dict(size=case["size"] if isinstance(case["size"], int) else tuple(case["size"]),
              padding=case.get("padding"), pad_if_needed=bool(case.get("pin")),
              fill=0, padding_mode=case.get("mode", "constant"))
    kw.update(extra)
    return cls(**kw)


def run_crop(case):
    import torchvision.transforms.functional as F
    from kappadata.transforms.kd_random_crop import KDRandomCrop
    from kappadata.transforms.kd_two_random_crop import KDTwoRandomCrop
    from kappadata.transforms.kd_simple_random_crop import KDSimpleRandomCrop
    kind = case["kind"]
    trace = []
    obs = {"trace": trace}
    img = make_image(case["H"], case["W"], case["inp"], None)
    seen = []
    if kind == "crop":
        t = _mk_crop(case, KDRandomCrop)
        inner = t
    elif kind == "two":
        t = _mk_crop(case, KDTwoRandomCrop, overlap_min=case["omin"], overlap_max=case["omax"], tries=case["tries"])
        inner = t
        obs["cfg"] = {"tries": t.tries, "omin": frac(t.overlap_min), "omax": frac(t.overlap_max)}
    else:
        t = KDSimpleRandomCrop(size=case["size"] if isinstance(case["size"], int) else tuple(case["size"]),
                               padding=case.get("padding"), interpolation=case.get("interp", "nearest"),
                               padding_mode=case.get("mode", "reflect"), fill=0, pad_if_needed=bool(case.get("pin")))
        inner = t.random_crop
        real_resize = t.resize

        def spy_resize(x):
            r = real_resize(x)
            obs["H1W1"] = hw_of(r)
            obs["resized_by_hand"] = same_img(r, F.resize(x, case["size"] if isinstance(case["size"], int) else list(case["size"]),
                                                          real_resize.interpolation))
            seen.append(("resized", r))
            return r
        t.resize = spy_resize
    t.set_rng(SpyGen(case["seed"], trace))
    real_gp = inner.get_params

    def spy_gp(im):
        seen.append(("padded", im))
        obs.setdefault("padded", hw_of(im))
        return real_gp(im)
    inner.get_params = spy_gp
    ctx = {}
    try:
        out = t(img, ctx)
        obs["code"] = 0
    except Exception as e:  # noqa
        obs["code"] = classify(e)
        obs["exc"] = repr(e)[:200]
        return obs
    obs["ctx"] = {k: {a: (b if isinstance(b, (bool, int)) else float(b)) for a, b in v.items()} for k, v in ctx.items()}
    obs["ctx_types_ok"] = all(type(b) in (int, bool, float) for v in ctx.values() for b in v.values())
    # by hand: pad as documented, crop with the recorded parameters
    base = img
    for tag, im in seen:
        if tag == "resized":
            base = im
    case2 = dict(case)
    if kind == "simple":
        case2["H1W1"] = obs["H1W1"]
    steps, _, _ = expected_padded(case2)
    ph = base
    for p in steps:
        ph = F.pad(ph, list(p), 0, case.get("mode", "reflect" if kind == "simple" else "constant"))
    if kind == "two":
        c = ctx["two_random_crop"]
        obs["out_hw"] = [hw_of(out[0]), hw_of(out[1])]
        obs["by_hand"] = (same_img(out[0], F.crop(ph, c["i0"], c["j0"], c["h0"], c["w0"]))
                          and same_img(out[1], F.crop(ph, c["i1"], c["j1"], c["h1"], c["w1"])))
    else:
        c = ctx["random_crop"]
        obs["out_hw"] = hw_of(out)
        obs["by_hand"] = same_img(out, F.crop(ph, c["i"], c["j"], c["h"], c["w"]))
    return obs


def rrc_cands(case, trace):
    """the candidate (w, h) of every attempt, computed from the recorded uniform draws with the code's formulas"""
    import numpy as np
    us = uniforms(trace)
    area = case["H"] * case["W"]
    out = []
    for k in range(0, len(us) - 1, 2):
        target_area = area * us[k]
        aspect_ratio = np.exp(us[k + 1])
        w = int(round(np.sqrt(target_area * aspect_ratio)))
        h = int(round(np.sqrt(target_area / aspect_ratio)))
        out.append([w, h])
    return out


def rrc_fallback(case):
    W, H = case["W"], case["H"]
    ratio = case["ratio"]
    in_ratio = float(W) / float(H)
    if in_ratio < min(ratio):
        return "FbLo", int(round(W / min(ratio)))
    if in_ratio > max(ratio):
        return "FbHi", int(round(H * max(ratio)))
    return "FbWhole", 0


def run_rrc(case):
    import torchvision.transforms.functional as F
    from kappadata.transforms.kd_random_resized_crop import KDRandomResizedCrop
    trace = []
    obs = {"trace": trace}
    img = make_image(case["H"], case["W"], case["inp"], None)
    t = KDRandomResizedCrop(size=case["size"] if isinstance(case["size"], int) else tuple(case["size"]),
                            scale=tuple(case["scale"]), ratio=tuple(case["ratio"]), interpolation=case["interp"])
    t.set_rng(SpyGen(case["seed"], trace))
    ctx = {}
    try:
        out = t(img, ctx)
        obs["code"] = 0
    except Exception as e:  # noqa
        obs["code"] = classify(e)
        obs["exc"] = repr(e)[:200]
        out = None
    if "random_resized_crop" in ctx:
        c = ctx["random_resized_crop"]
        obs["ctx"] = {k: int(v) for k, v in c.items()}
        obs["ctx_types_ok"] = all(type(v) is int for v in c.values())
        if out is not None:
            obs["out_hw"] = hw_of(out)
            obs["by_hand"] = same_img(out, F.resized_crop(img, c["i"], c["j"], c["h"], c["w"], list(t.size), t.interpolation))
    obs["cands"] = rrc_cands(case, trace)
    fb, r = rrc_fallback(case)
    obs["fb"], obs["r"] = fb, r
    return obs


def run_erase(case):
    import math
    import torch
    from kappadata.transforms.kd_random_erasing import KDRandomErasing
    trace = []
    obs = {"trace": trace}
    keys = []

    class SpyT(torch.Tensor):
        def __setitem__(self, k, v):
            keys.append((k, tuple(v.shape)))
            return super().__setitem__(k, v)

    H, W, Cn = case["H"], case["W"], case["C"]
    x0 = (torch.arange(Cn * H * W, dtype=torch.float32).reshape(Cn, H, W) + 1.0)
    x = x0.clone().as_subclass(SpyT)
    t = KDRandomErasing(p=case["p"], min_area=case["area"][0], max_area=case["area"][1], min_aspect=case["aspect"][0],
                        max_aspect=case["aspect"][1], mode=case["mode"], min_count=case["count"][0],
                        max_count=case["count"][1])
    obs["cfg"] = {"minc": t.min_count, "maxc": t.max_count}
    t.set_rng(SpyGen(case["seed"], trace))
    try:
        out = t(x, {})
        obs["code"] = 0
    except Exception as e:  # noqa
        obs["code"] = classify(e)
        obs["exc"] = repr(e)[:200]
        out = None
    rs = [t_[1] for t_ in trace if t_[0] == "R"]
    obs["apply"] = bool(rs and rs[0] < case["p"])
    # candidates (h, w) from the uniform draws, with the code's formulas
    n_rects = None
    if obs["apply"]:
        if t.min_count == t.max_count:
            n_rects = t.min_count
        else:
            first = [t_ for t_ in trace if t_[0] in ("I", "I!")]
            n_rects = first[0][3] if first and first[0][0] == "I" else None
    cands = []
    if n_rects:
        us = uniforms(trace)
        area_per_rect = H * W / n_rects
        for k in range(0, len(us) - 1, 2):
            target_area = us[k] * area_per_rect
            aspect_ratio = math.exp(us[k + 1])
            cands.append([int(round(math.sqrt(target_area * aspect_ratio))),
                          int(round(math.sqrt(target_area / aspect_ratio)))])
    obs["cands"] = cands
    rects = []
    shapes_ok = True
    for k, vshape in keys:
        ok = (isinstance(k, tuple) and len(k) == 3 and k[0] == slice(None, None, None)
              and all(isinstance(s, slice) and s.step is None for s in k[1:]))
        if not ok:
            obs["odd_key"] = repr(k)
            continue
        top, bot, lft, rgt = k[1].start, k[1].stop, k[2].start, k[2].stop
        rects.append([int(top), int(lft), int(bot - top), int(rgt - lft)])
    obs["rects"] = rects
    if out is not None:
        o = torch.Tensor(out)
        ref = x0.clone()
        inside = torch.zeros(H, W, dtype=torch.bool)
        for (top, lft, h, w) in rects:
            if top < 0 or lft < 0 or top + h > H or lft + w > W or h < 0 or w < 0:
                shapes_ok = False
                continue
            inside[top:top + h, lft:lft + w] = True
            ref[:, top:top + h, lft:lft + w] = 0.0
        obs["outside_untouched"] = bool(torch.equal(o[:, ~inside], x0[:, ~inside]))
        obs["by_hand"] = bool(torch.equal(o, ref)) if case["mode"] == "zeros" else None
        obs["inside_changed"] = bool((o[:, inside] != x0[:, inside]).all()) if inside.any() else True
        obs["same_object"] = out is x
    obs["shapes_ok"] = shapes_ok
    return obs


def run_spec(case):
    import torch
    from kappadata.transforms.audio.kd_spec_augment import KDSpecAugment
    trace = []
    obs = {"trace": trace}
    masks = []

    class SpyT(torch.Tensor):
        def masked_fill(self, mask, value):
            masks.append((tuple(mask.shape), [int(i) for i in torch.nonzero(torch.Tensor(mask).reshape(-1)).reshape(-1)],
                          float(value)))
            return super().masked_fill(mask, value)

    Cn, T, Fq = case["C"], case["T"], case["F"]
    x0 = torch.arange(Cn * T * Fq, dtype=torch.float32).reshape(Cn, T, Fq) + 1.0
    x = x0.clone().as_subclass(SpyT)
    t = KDSpecAugment(time_masking=case["tm"], frequency_masking=case["fm"])
    t.set_rng(SpyGen(case["seed"], trace))
    try:
        out = t(x, {})
        obs["code"] = 0
    except Exception as e:  # noqa
        obs["code"] = classify(e)
        obs["exc"] = repr(e)[:200]
        out = None
    # oracle values: the float32 products, computed like the code does
    rs = [t_[1] for t_ in trace if t_[0] == "R"]
    vals = []
    k = 0

    def as_tensor(u):
        tt = torch.tensor(u)
        if tt == 1.:
            tt -= 1e-6
        return tt
    for P, size in ((case["tm"], T), (case["fm"], Fq)):
        if P is None or P < 1:
            continue
        if k + 2 > len(rs):
            break
        value = as_tensor(rs[k]) * P
        y = size - value
        minv = as_tensor(rs[k + 1]) * y
        vals.append([frac(float(value)), frac(float(y)), frac(float(minv))])
        k += 2
    obs["vals"] = vals
    obs["n_random"] = len(rs)
    rows, cols = [], []
    shapes = []
    for shape, idx, value in masks:
        shapes.append(list(shape))
        if len(shape) == 2 and shape[1] == 1:
            rows = idx
        else:
            cols = idx
    obs["rows"], obs["cols"], obs["mask_shapes"] = rows, cols, shapes
    if out is not None:
        ref = x0.clone()
        ref[:, rows, :] = 0.0
        ref[:, :, cols] = 0.0
        o = torch.Tensor(out)
        obs["by_hand"] = bool(torch.equal(o, ref)) and tuple(o.shape) == (Cn, T, Fq)
    return obs


# ---- semseg -------------------------------------------------------------
SEMSEG_MODS = {
    "pad": ("kappadata.transforms.semseg.kd_semseg_pad", "pad"),
    "crop": ("kappadata.transforms.semseg.kd_semseg_random_crop", "crop"),
    "hflip": ("kappadata.transforms.semseg.kd_semseg_random_horizontal_flip", "hflip"),
    "resize1": ("kappadata.transforms.semseg.kd_semseg_random_resize", "resize"),
    "resize2": ("kappadata.transforms.semseg.kd_semseg_resize", "resize"),
    "mcrop": ("kappadata.transforms.semseg.kd_semseg_overlapped_multi_crop", "crop"),
}


def _role(img):
    import torch
    if torch.is_tensor(img):
        return "x" if img.dtype.is_floating_point else "seg"
    return "x" if img.mode == "F" else "seg"


def nominal_nn(kind, n_in, n_out, i):
    """nominal source index of a nearest resize (torch: corner-anchored, PIL: centre-anchored) and whether the
    sampling point sits exactly on a pixel border (tie)"""
    if kind == "NTorch":
        return (i * n_in) // n_out, (i * n_in) % n_out == 0
    return ((2 * i + 1) * n_in) // (2 * n_out), ((2 * i + 1) * n_in) % (2 * n_out) == 0


def nn_contract(kind, n_in, n_out, m):
    """None, or what is wrong with a measured index map (the contract of coq/C14/Model.v nn_okb + monotone)"""
    if len(m) != n_out:
        return f"{len(m)} entries for {n_out} output indices"
    for i, v in enumerate(m):
        nom, tie = nominal_nn(kind, n_in, n_out, i)
        if not (0 <= v < n_in):
            return f"output index {i} shows source index {v} outside 0..{n_in - 1}"
        if not (v == nom or (v == nom - 1 and tie)):
            return f"output index {i} shows source index {v}, nominal {nom} (tie={tie})"
        if i and m[i - 1] > v:
            return f"not monotone at output index {i}"
    return None


def measure_nn(real, img, a, kw):
    """the index maps (rows, columns) of the very resize call the code made, measured on an id-encoded image of the
    same type / dtype / size: [kind, my, mx], or a string when the result is not a separable index map"""
    import numpy as np
    import torch
    from PIL import Image
    if torch.is_tensor(img):
        H, W = int(img.shape[-2]), int(img.shape[-1])
        ids = torch.arange(H * W).reshape(1, H, W).to(img.dtype)
        out = real(ids, *a, **kw)
        o = out[0].to(torch.int64).numpy()
        kind = "NTorch"
    else:
        H, W = img.height, img.width
        arr = np.arange(H * W).reshape(H, W)
        dt = {"F": np.float32, "I": np.int32, "L": np.uint8}.get(img.mode)
        if dt is None or (img.mode == "L" and H * W > 256):
            return "unsupported mode " + img.mode
        out = real(Image.fromarray(arr.astype(dt), mode=img.mode), *a, **kw)
        o = np.array(out).astype(np.int64)
        kind = "NPil"
    my = [int(v) // W for v in o[:, 0]]
    mx = [int(v) % W for v in o[0, :]]
    sep = (np.array(my)[:, None] * W + np.array(mx)[None, :])
    if sep.shape != o.shape or not np.array_equal(sep, o):
        return "resized id image is not a separable index map"
    return [kind, my, mx]


@contextlib.contextmanager
def spy_functional(log):
    import importlib
    saved = []
    try:
        for key, (modname, attr) in SEMSEG_MODS.items():
            mod = importlib.import_module(modname)
            real = getattr(mod, attr)
            name = attr

            def make(real, name):
                def spy(img, *a, **kw):
                    if name == "pad":
                        par = list(kw.get("padding", a[0] if a else None))
                        extra = kw.get("fill")
                    elif name == "crop":
                        vals = list(a) + [kw[k] for k in ("top", "left", "height", "width") if k in kw]
                        par = [int(v) for v in vals]
                        extra = None
                    elif name == "hflip":
                        par, extra = [], None
                    else:
                        par = [int(v) for v in kw.get("size", a[0] if a else None)]
                        extra = str(kw.get("interpolation", a[1] if len(a) > 1 else None))
                    entry = [name, _role(img), par, extra]
                    log.append(entry)
                    res = real(img, *a, **kw)
                    if name == "resize" and "NEAREST" in extra.upper():
                        entry.append(measure_nn(real, img, a, kw))
                    return res
                return spy
            saved.append((mod, attr, real))
            setattr(mod, attr, make(real, name))
        yield
    finally:
        for mod, attr, real in saved:
            setattr(mod, attr, real)


def make_pair(H, W, inp, content):
    import numpy as np
    import torch
    from PIL import Image
    ys, xs = np.meshgrid(np.arange(H), np.arange(W), indexing="ij")
    if content == "id":
        lab = ys * W + xs
    else:  # few categories
        lab = (ys * 3 // max(H, 1)) * 2 + (xs * 2 // max(W, 1))
    lab = lab.astype(np.int64)
    if inp == "tensor":
        return torch.tensor(lab + 1, dtype=torch.float32)[None], torch.tensor(lab, dtype=torch.int64)
    return (Image.fromarray((lab + 1).astype(np.float32), mode="F"), Image.fromarray(lab.astype(np.int32), mode="I"))


def decode_pair(x, seg):
    import numpy as np
    import torch
    if torch.is_tensor(x):
        xa = x[0].numpy()
    else:
        xa = np.array(x)
    sa = seg.numpy() if torch.is_tensor(seg) else np.array(seg)
    return xa, sa


def _stochastic_image_only(draws):
    """an image-only KDStochasticTransform as SemsegTransformWrapper sees one (noise, colour jitter, random solarize,
    ...): consumes the listed draws from the generator it was handed via set_rng and returns the image with unchanged
    geometry (and, so that id-encoded images stay decodable, unchanged values)"""
    from kappadata.transforms.base.kd_stochastic_transform import KDStochasticTransform

    class StochasticImageOnly(KDStochasticTransform):
        def __call__(self, x, ctx=None):
            vals = []
            for d in draws:
                if d == "R":
                    vals.append(float(self.rng.random()))
                elif d == "U":
                    vals.append(float(self.rng.uniform(0.6, 1.4)))
                elif d == "N":
                    vals.append(float(self.rng.normal(0.0, 1.0)))
                elif d == "I":
                    vals.append(int(self.rng.integers(0, 7)))
                else:
                    vals.append([int(v) for v in self.rng.permutation(4)])
            if ctx is not None:
                ctx[f"{self.ctx_prefix}.draws"] = vals
            return x
    return StochasticImageOnly


def build_semseg_transforms(ops, interp, log, trace=None):
    from kappadata.transforms.identity import Identity
    from kappadata.transforms.semseg import (KDSemsegPad, KDSemsegRandomCrop, KDSemsegRandomHorizontalFlip,
                                             KDSemsegRandomResize, KDSemsegResize)
    classes = {"pad": KDSemsegPad, "crop": KDSemsegRandomCrop, "flip": KDSemsegRandomHorizontalFlip,
               "rresize": KDSemsegRandomResize, "resize": KDSemsegResize, "other": Identity}
    ts = []
    for k, o in enumerate(ops):
        base = classes[o["op"]]
        if o["op"] == "other" and o.get("draws"):
            base = _stochastic_image_only(list(o["draws"]))
        elif o["op"] == "other" and o.get("real") == "noise0":
            from kappadata.transforms.kd_additive_gaussian_noise import KDAdditiveGaussianNoise
            base = KDAdditiveGaussianNoise

        def make(base, k):
            class Marked(base):
                def __call__(self, xs, ctx=None):
                    log.append(["begin", k, len(trace) if trace is not None else 0])
                    try:
                        return super().__call__(xs, ctx=ctx)
                    finally:
                        log.append(["end", k, len(trace) if trace is not None else 0])
            Marked.__name__ = base.__name__
            return Marked
        M = make(base, k)
        if o["op"] == "pad":
            ts.append(M(size=tuple(o["size"])))
        elif o["op"] == "crop":
            ts.append(M(size=tuple(o["size"]), max_category_ratio=o.get("mcr", 1.0)))
        elif o["op"] == "flip":
            ts.append(M(p=o["p"]))
        elif o["op"] == "rresize":
            ts.append(M(base_size=tuple(o["base"]), ratio=tuple(o["ratio"]), interpolation=interp))
        elif o["op"] == "resize":
            ts.append(M(size=tuple(o["size"]), interpolation=interp))
        elif o.get("real") == "noise0":
            ts.append(M(std=0.0))       # real stochastic image-only transform; noise of scale 0 keeps the ids decodable
        else:
            ts.append(M())
    return ts


def semseg_geometry_trace(case, obs):
    """the recorded draws without those consumed inside image-only ('other') transforms"""
    skip = []
    start = None
    for e in obs["log"]:
        if e[0] == "begin" and case["ops"][e[1]]["op"] == "other":
            start = e[2] if len(e) > 2 else None
        elif e[0] == "end" and case["ops"][e[1]]["op"] == "other":
            if start is not None and len(e) > 2:
                skip.append((start, e[2]))
            start = None
    return [t for i, t in enumerate(obs["trace"]) if not any(a <= i < b for a, b in skip)]


def run_semseg(case):
    import numpy as np
    from kappadata.datasets.kd_dataset import KDDataset
    from kappadata.wrappers import SemsegTransformWrapper, ModeWrapper
    trace, log = [], []
    obs = {"trace": trace, "log": log}
    H, W = case["H"], case["W"]
    x, seg = make_pair(H, W, case["inp"], case["content"])

    class DS(KDDataset):
        def getitem_x(self, idx, ctx=None):
            return x.clone() if hasattr(x, "clone") else x.copy()

        def getitem_semseg(self, idx, ctx=None):
            return seg.clone() if hasattr(seg, "clone") else seg.copy()

        def __len__(self):
            return 3

    ts = build_semseg_transforms(case["ops"], case["interp"], log, trace)
    idx = case.get("idx", 0)
    real_default_rng = np.random.default_rng
    seeds_asked = []
    try:
        with spy_functional(log):
            if case["seeded"]:
                w = SemsegTransformWrapper(DS(), ts, seed=case["seed"])

                def fake_default_rng(seed=None):
                    seeds_asked.append(seed)
                    return SpyGen(seed, trace)
                np.random.default_rng = fake_default_rng
            else:
                w = SemsegTransformWrapper(DS(), ts, seed=None)
                spy = SpyGen(case["seed"], trace)
                for t in ts:
                    t.set_rng(spy)
            try:
                if case["via"] == "mode":
                    xo, so = ModeWrapper(w, mode="x semseg", return_ctx=False)[idx]
                else:
                    xo, so = w.getitem_xsemseg(idx, ctx={})
            finally:
                np.random.default_rng = real_default_rng
        obs["code"] = 0
    except Exception as e:  # noqa
        np.random.default_rng = real_default_rng
        obs["code"] = classify(e)
        obs["exc"] = repr(e)[:300]
        obs["log"] = list(log)
        return obs
    obs["log"] = list(log)
    obs["seeds_asked"] = [int(s) for s in seeds_asked]
    xa, sa = decode_pair(xo, so)
    obs["x_hw"], obs["seg_hw"] = list(xa.shape), list(sa.shape)
    if case["interp"] == "nearest" and xa.shape == sa.shape:
        xi = np.rint(xa).astype(np.int64) - 1
        obs["x_exact"] = bool(np.all(np.abs(xa - np.rint(xa)) < 1e-4))
        obs["pix_x"] = [int(v) for v in xi.reshape(-1)]
        obs["pix_seg"] = [int(v) for v in sa.astype(np.int64).reshape(-1)]
    # seeded wrappers: every way of requesting sample idx (fused, image alone, mask alone, through ModeWrapper in every
    # item order) sees the same geometry -- all transforms of a sample share default_rng(seed + idx), consumed in list
    # order, so every request has to consume the same draws
    if case["seeded"]:
        def same(a, b):
            return bool(a.shape == b.shape and np.array_equal(a, b))

        def first_diff(a, b):
            if a.shape != b.shape:
                return f"shape {list(a.shape)} instead of {list(b.shape)}"
            bad = np.argwhere(a != b)[0]
            return f"pixel {[int(v) for v in bad]} is {float(a[tuple(bad)])} instead of {float(b[tuple(bad)])}"

        fetches = [
            ("getitem_x", lambda: (w.getitem_x(idx, ctx={}), None)),
            ("getitem_semseg", lambda: (None, w.getitem_semseg(idx, ctx={}))),
            ("getitem_xsemseg again", lambda: w.getitem_xsemseg(idx, ctx={})),
            ("ModeWrapper 'x'", lambda: (ModeWrapper(w, mode="x", return_ctx=False)[idx], None)),
            ("ModeWrapper 'semseg'", lambda: (None, ModeWrapper(w, mode="semseg", return_ctx=False)[idx])),
            ("ModeWrapper 'x semseg'", lambda: tuple(ModeWrapper(w, mode="x semseg", return_ctx=True)[idx][0])),
            ("ModeWrapper 'semseg x'", lambda: tuple(ModeWrapper(w, mode="semseg x", return_ctx=False)[idx])[::-1]),
        ]
        alts = []
        x_probe = xo.clone() if hasattr(xo, "clone") else xo.copy()
        s_probe = so.clone() if hasattr(so, "clone") else so.copy()
        for name, fn in fetches:
            try:
                np.random.default_rng = lambda seed=None: SpyGen(seed, [])
                xs, ss = fn()
                a, b = decode_pair(xs if xs is not None else x_probe, ss if ss is not None else s_probe)
                bad = []
                if xs is not None and not same(a, xa):
                    bad.append("image: " + first_diff(a, xa))
                if ss is not None and not same(b, sa):
                    bad.append("mask: " + first_diff(b, sa))
                alts.append([name, "; ".join(bad) if bad else True])
            except Exception as e:  # noqa
                alts.append([name, "exception " + repr(e)[:200]])
            finally:
                np.random.default_rng = real_default_rng
        obs["alts"] = alts
    return obs


def parse_semseg_log(case, obs):
    """per transform application: the functional calls made on x and on the mask"""
    per = []
    cur = None
    for e in obs["log"]:
        if e[0] == "begin":
            cur = {"x": [], "seg": []}
        elif e[0] == "end":
            per.append(cur)
            cur = None
        elif cur is not None:
            cur[e[1]].append(e)
    return per


def run_multi(case):
    import numpy as np
    import torch
    from kappadata.transforms.semseg.kd_semseg_overlapped_multi_crop import KDSemsegOverlappedMultiCrop
    log = []
    obs = {"log": log}
    x, seg = make_pair(case["H"], case["W"], "tensor", "id")
    try:
        with spy_functional(log):
            t = KDSemsegOverlappedMultiCrop(crop_size=tuple(case["size"]))
            xo, so = t((x, seg))
        obs["code"] = 0
    except Exception as e:  # noqa
        obs["code"] = classify(e)
        obs["exc"] = repr(e)[:200]
        return obs
    obs["x_shape"], obs["seg_shape"] = list(xo.shape), list(so.shape)
    obs["aligned"] = bool(torch.equal(xo[:, 0].round().long() - 1, so))
    W = case["W"]
    # each crop's pixel ids are the window's
    wins = [e[2] for e in log if e[0] == "crop" and e[1] == "x"]
    ok = len(wins) == so.shape[0]
    for k, (top, lft, h, w) in enumerate(wins):
        if not ok:
            break
        exp = (torch.arange(top, top + h)[:, None] * W + torch.arange(lft, lft + w)[None, :])
        ok = ok and tuple(so[k].shape) == (h, w) and bool(torch.equal(so[k], exp))
    obs["windows_true"] = ok
    cover = np.zeros((case["H"], case["W"]), dtype=bool)
    for (top, lft, h, w) in wins:
        cover[max(top, 0):top + h, max(lft, 0):lft + w] = True
    obs["covers"] = bool(cover.all())
    return obs


def run_patch(case):
    import numpy as np
    import torch
    from kappadata.transforms.patchify_image import PatchifyImage
    from kappadata.transforms.unpatchify_image import UnpatchifyImage
    from kappadata.transforms.patchwise_shuffle import PatchwiseShuffle
    from kappadata.transforms.patchify import Patchify
    from kappadata.transforms.unpatchify import Unpatchify
    from torchvision.transforms.functional import to_tensor
    trace = []
    obs = {"trace": trace}
    H, W, Cn = case["H"], case["W"], case["C"]
    ph, pw = two(case["patch"])
    if case["inp"] == "tensor":
        x = torch.arange(Cn * H * W, dtype=torch.float32).reshape(Cn, H, W)
        ref = x.clone()
    else:
        x = make_image(H, W, "pilRGB", None)
        ref = to_tensor(x)
        Cn = 3
    try:
        if case["kind"] == "patch":
            ctx = {}
            p = PatchifyImage(patch_size=case["patch"])(x, ctx)
            sh = PatchwiseShuffle().set_rng(SpyGen(case["seed"], trace))
            s = sh(p, ctx)
            perm = ctx["permutation"]
            inv = np.argsort(perm)
            back = UnpatchifyImage()(s[:, inv], ctx)
            obs["lh"], obs["lw"] = int(ctx["patchify_lh"]), int(ctx["patchify_lw"])
            obs["perm"] = [int(v) for v in perm]
            obs["inv"] = [int(v) for v in inv]
            obs["shape"] = list(s.shape)
            lw = obs["lw"]
            # every patch is the slice of the input it is named after
            ok = True
            for l in range(p.shape[1]):
                a, b = l // lw, l % lw
                ok = ok and bool(torch.equal(p[:, l], ref[:, a * ph:(a + 1) * ph, b * pw:(b + 1) * pw]))
                ok = ok and bool(torch.equal(s[:, l], p[:, int(perm[l])]))
            obs["patches_are_slices"] = ok
            # the other order: unpatchify then patchify
            try:
                obs["patchify_unpatchify"] = bool(torch.equal(PatchifyImage(patch_size=case["patch"])(UnpatchifyImage()(p, ctx), {}), p))
            except Exception as e:  # noqa
                obs["patchify_unpatchify"] = False
        else:
            p = Patchify(patch_size=case["patch"])(x, {})
            back = Unpatchify()(p, {})
            obs["shape"] = list(p.shape)
            ok = True
            for a in range(p.shape[1]):
                for b in range(p.shape[2]):
                    ok = ok and bool(torch.equal(p[:, a, b], ref[:, a * ph:(a + 1) * ph, b * pw:(b + 1) * pw]))
            obs["patches_are_slices"] = ok
            obs["patchify_unpatchify"] = bool(torch.equal(Patchify(patch_size=case["patch"])(back, {}), p))
            s = p
        obs["code"] = 0
    except Exception as e:  # noqa
        obs["code"] = classify(e)
        obs["exc"] = repr(e)[:200]
        return obs
    obs["roundtrip"] = bool(back.shape == ref.shape and torch.equal(back, ref))
    if case["inp"] == "tensor":
        obs["out"] = [int(v) for v in s.reshape(-1)]
    return obs


def run_norm(case):
    import numpy as np
    import torch
    from kappadata.transforms.norm import KDImageNorm, KDImageRangeNorm
    from torchvision.transforms.functional import to_tensor
    obs = {}
    H, W, Cn = case["H"], case["W"], case["C"]
    g = np.random.default_rng(case["seed"])
    if case["inp"] == "tensor":
        x = torch.tensor(g.uniform(case["lo"], case["hi"], size=(Cn, H, W)), dtype=torch.float32)
        ref = x.clone()
    else:
        from PIL import Image
        arr = g.integers(0, 256, size=(H, W, 3), dtype=np.uint8)
        x = Image.fromarray(arr, mode="RGB")
        ref = to_tensor(x)
        Cn = 3
    try:
        if case["range"]:
            fw, bw = KDImageRangeNorm(inplace=case["inplace"]), KDImageRangeNorm(inverse=True, inplace=case["inplace"])
            mean, std = [0.5] * Cn, [0.5] * Cn
        else:
            mean, std = case["mean"][:Cn], case["std"][:Cn]
            fw = KDImageNorm(mean=mean, std=std, inplace=case["inplace"])
            bw = KDImageNorm(mean=mean, std=std, inverse=True, inplace=case["inplace"])
        y = fw(x.clone() if torch.is_tensor(x) else x)
        y_keep = y.clone()
        back = bw(y)
        obs["code"] = 0
    except Exception as e:  # noqa
        obs["code"] = classify(e)
        obs["exc"] = repr(e)[:200]
        return obs
    m = torch.tensor(mean, dtype=torch.float64)[:, None, None]
    s = torch.tensor(std, dtype=torch.float64)[:, None, None]
    # float32 conditioning: (x - m) / s carries eps * (|x| + |m|) / |s|, the way back eps * (|x| + |m|)
    tol_fw = 2e-6 * (1 + (ref.double().abs() + m.abs()) / s.abs())
    tol_bw = 2e-6 * (1 + ref.double().abs() + m.abs())
    exp = (ref.double() - m) / s
    obs["norm_close"] = bool(((y_keep.double() - exp).abs() <= tol_fw).all())
    obs["allclose"] = bool(((back.double() - ref.double()).abs() <= tol_bw).all())
    # the other order: norm(denorm(z)) == z; denorm carries eps * (|z s| + |m|), divided by |s| on the way back
    z = ref.clone()
    tol_oo = 2e-6 * (1 + ref.double().abs() + m.abs() / s.abs())
    obs["other_order"] = bool(((fw(bw(z.clone())).double() - ref.double()).abs() <= tol_oo).all())
    entries = []
    pts = [(c, int(g.integers(H)), int(g.integers(W))) for c in range(Cn) for _ in range(2)]
    for (c, a, b) in pts:
        entries.append([frac(float(mean[c])), frac(float(std[c])), frac(float(ref[c, a, b])),
                        frac(float(y_keep[c, a, b])), frac(float(back[c, a, b]))])
    obs["entries"] = entries
    return obs


def run_specprobe(case):
    """exhaustive boundary probe of the float32 fact behind the assert of KDSpecAugment._mask_along_axis:
    value = np_random_as_tensor(rng) * mask_param with the largest values np_random_as_tensor can return, for EVERY
    mask_param in lo..hi; the real np_random_as_tensor is used for the factor, the product is torch's float32 product"""
    import numpy as np
    import torch
    from kappadata.utils.random import np_random_as_tensor

    class Fixed:
        def __init__(self, v):
            self.v = v

        def random(self):
            return self.v
    obs = {"us": [], "bad": []}
    one = np.float64(1.0)
    below64 = float(np.nextafter(one, 0.0))                           # largest float64 < 1: rounds to 1.0f -> eps branch
    below32 = float(np.nextafter(np.float32(1.0), np.float32(0.0)))   # 1 - 2^-24, the largest float32 < 1
    mid = float(np.float64(below32) + 2.0 ** -26)                     # rounds to below32 (not to 1.0)
    P = torch.arange(case["lo"], case["hi"] + 1, dtype=torch.int64)
    for u in (below64, below32, mid, 0.5, 0.99999994, 1.0 - 1e-6):
        t = np_random_as_tensor(Fixed(u))
        obs["us"].append([u, float(t), str(t.dtype)])
        if not (t.dtype == torch.float32 and 0.0 <= float(t) <= below32):
            obs["bad"].append(["factor", u, float(t)])
            continue
        value = t * P.to(torch.float32)            # = tensor * python int for every P <= 2^24 (exactly representable)
        wrong = (value.long() >= P) | (value >= P.to(torch.float32))
        if bool(wrong.any()):
            k = int(torch.nonzero(wrong)[0])
            obs["bad"].append(["product", u, int(P[k]), float(value[k])])
        # spot check: the scalar product the code really computes
        for p_ in (case["lo"], case["hi"], (case["lo"] + case["hi"]) // 2):
            v = t * int(p_)
            if not (v.dtype == torch.float32 and float(v) == float(value[p_ - case["lo"]])):
                obs["bad"].append(["scalar-vs-vector", u, int(p_), float(v)])
    obs["code"] = 0
    obs["n"] = int(P.numel())
    return obs


def run_patchwise(case):
    import torch
    from kappadata.transforms.base.kd_transform import KDTransform
    from kappadata.transforms.patchwise_transform import PatchwiseTransform
    H, W, Cn = case["H"], case["W"], case["C"]
    ph, pw = two(case["patch"])
    calls = []

    class FlipAndTag(KDTransform):
        """call number l: flip the patch horizontally and add 1000 * l"""

        def __call__(self, x, ctx=None):
            calls.append(list(x.shape))
            return torch.flip(x, dims=[-1]) + 1000.0 * (len(calls) - 1)
    x = torch.arange(Cn * H * W, dtype=torch.float32).reshape(Cn, H, W)
    obs = {}
    try:
        t = PatchwiseTransform(patch_size=case["patch"], transform=FlipAndTag())
        out = t(x.clone(), {})
        obs["code"] = 0
    except Exception as e:  # noqa
        obs["code"] = classify(e)
        obs["exc"] = repr(e)[:200]
        return obs
    obs["shape"] = list(out.shape)
    obs["calls"] = calls
    obs["out"] = [int(v) for v in out.reshape(-1)]
    # by hand, straight from the documented meaning: block (a, b) is flipped and tagged with a * (W // pw) + b
    ref = x.clone()
    lw = W // pw
    for a_ in range(H // ph):
        for b_ in range(lw):
            blk = x[:, a_ * ph:(a_ + 1) * ph, b_ * pw:(b_ + 1) * pw]
            ref[:, a_ * ph:(a_ + 1) * ph, b_ * pw:(b_ + 1) * pw] = torch.flip(blk, dims=[-1]) + 1000.0 * (a_ * lw + b_)
    obs["by_hand"] = bool(out.shape == ref.shape and torch.equal(out, ref))

    class Same(KDTransform):
        def __call__(self, x, ctx=None):
            return x
    obs["identity"] = bool(torch.equal(PatchwiseTransform(patch_size=case["patch"], transform=Same())(x.clone(), {}), x))
    return obs


RUNNERS = {"specprobe": run_specprobe, "patchwise": run_patchwise, "crop": run_crop, "two": run_crop, "simple": run_crop, "rrc": run_rrc, "erase": run_erase,
           "spec": run_spec, "semseg": run_semseg, "multi": run_multi, "patch": run_patch, "patch5": run_patch,
           "norm": run_norm}


def run_impl(case):
    import traceback
    import torch
    torch.manual_seed(0)
    try:
        return RUNNERS[case["kind"]](case)
    except Exception as e:  # noqa: a harness bug or an error outside what the runners classify
        return {"harness_exception": repr(e), "tb": traceback.format_exc()[-1500:]}


# ---------------------------------------------------------------------------
# the independent Python oracle
# ---------------------------------------------------------------------------
def in_bounds(H, W, i, j, h, w):
    return 0 <= i and 0 <= j and 0 <= h and 0 <= w and i + h <= H and j + w <= W


def draws_in_range(trace):
    for t in trace:
        if t[0] == "I" and not (t[1] <= t[3] < t[2]):
            return f"generator contract broken: integers({t[1]}, {t[2]}) returned {t[3]}"
    return None


def oracle_crop(case, obs):
    kind = case["kind"]
    th, tw = two(case["size"])
    c2 = dict(case)
    if kind == "simple":
        if "H1W1" not in obs:
            return "resize step not observed"
        c2["H1W1"] = obs["H1W1"]
        if not obs.get("resized_by_hand"):
            return "the resize step differs from torchvision.functional.resize applied by hand"
        if isinstance(case["size"], int):
            if min(obs["H1W1"]) != case["size"]:
                return f"resize to shorter side {case['size']} gave {obs['H1W1']}"
        elif obs["H1W1"] != list(case["size"]):
            return f"resize to {case['size']} gave {obs['H1W1']}"
    _, Hp, Wp = expected_padded(c2)
    fits = th <= Hp and tw <= Wp
    code = obs["code"]
    if code == 9 or code == 8:
        return f"unexpected exception {obs.get('exc')}"
    if kind == "two" and th * tw == 0 and fits:
        return None if code == 4 else f"zero-area crop: expected ZeroDivisionError, got code {code}"
    if not fits:
        return None if code in (1, 2) else f"crop {th}x{tw} of a padded {Hp}x{Wp} image: expected ValueError, got code {code}"
    if code != 0:
        return f"crop {th}x{tw} fits the padded {Hp}x{Wp} image but the transform raised {obs.get('exc')}"
    if obs["padded"] != [Hp, Wp]:
        return f"padded image is {obs['padded']}, documented padding gives {[Hp, Wp]}"
    if not obs["ctx_types_ok"]:
        return "ctx values are not plain Python numbers"
    names = [("i", "j", "h", "w")] if kind != "two" else [("i0", "j0", "h0", "w0"), ("i1", "j1", "h1", "w1")]
    c = obs["ctx"]["two_random_crop" if kind == "two" else "random_crop"]
    for (a, b, hh, ww) in names:
        i, j, h, w = c[a], c[b], c[hh], c[ww]
        if not in_bounds(Hp, Wp, i, j, h, w):
            return f"recorded window (i={i}, j={j}, h={h}, w={w}) leaves the padded {Hp}x{Wp} image"
        if (h, w) != (th, tw):
            return f"recorded window size {(h, w)} is not the requested {(th, tw)}"
    hws = obs["out_hw"] if kind == "two" else [obs["out_hw"]]
    for hw in hws:
        if hw != [th, tw]:
            return f"output size {hw} is not the requested {[th, tw]}"
    if not obs["by_hand"]:
        return "pad + crop(img, i, j, h, w) applied by hand with the recorded parameters differs from the output"
    if kind == "two":
        ia = max(0, min(c["i0"] + th, c["i1"] + th) - max(c["i0"], c["i1"]))
        ib = max(0, min(c["j0"] + tw, c["j1"] + tw) - max(c["j0"], c["j1"]))
        inter = ia * ib
        union = 2 * th * tw - inter
        if abs(c["overlap"] - inter / union) > 1e-12:
            return f"recorded overlap {c['overlap']} is not intersection/union = {inter}/{union}"
        omin, omax = Fraction(*obs["cfg"]["omin"]), Fraction(*obs["cfg"]["omax"])
        within = omin <= Fraction(inter, union) <= omax
        n_second = len(ints(obs["trace"])) // 2 - 1 if not (Hp == th and Wp == tw) else None
        if c["out_of_tries"]:
            if within:
                return "out_of_tries recorded although the overlap is inside the requested range"
            if n_second is not None and obs["cfg"]["tries"] is not None and n_second != max(1, obs["cfg"]["tries"]):
                return f"out_of_tries after {n_second} second crops, tries = {obs['cfg']['tries']}"
        elif not within:
            return f"overlap {inter}/{union} outside [{omin}, {omax}] but out_of_tries is False"
    return draws_in_range(obs["trace"])


def oracle_rrc(case, obs):
    H, W = case["H"], case["W"]
    code = obs["code"]
    if code in (8, 9):
        return f"unexpected exception {obs.get('exc')}"
    if "ctx" not in obs:
        return f"no parameters recorded (code {code}, {obs.get('exc')})"
    c = obs["ctx"]
    if not obs["ctx_types_ok"]:
        return "ctx values are not plain Python ints"
    if (c["og_h"], c["og_w"]) != (H, W):
        return f"recorded original size {(c['og_h'], c['og_w'])} is not {(H, W)}"
    if not in_bounds(H, W, c["i"], c["j"], c["h"], c["w"]):
        return f"recorded window {c} leaves the {H}x{W} image"
    degenerate = c["h"] == 0 or c["w"] == 0
    if code != 0:
        if degenerate and code == 6:
            return None     # fallback rounded a side to 0: torchvision rejects, same as RandomResizedCrop
        return f"raised {obs.get('exc')} for the in-bounds window {c}"
    if degenerate:
        return None
    if obs["out_hw"] != two(case["size"]):
        return f"output size {obs['out_hw']} is not {two(case['size'])}"
    if not obs["by_hand"]:
        return "resized_crop(img, i, j, h, w, size) applied by hand with the recorded parameters differs from the output"
    return draws_in_range(obs["trace"])


def oracle_erase(case, obs):
    H, W = case["H"], case["W"]
    code = obs["code"]
    minc, maxc = obs["cfg"]["minc"], obs["cfg"]["maxc"]
    if code in (8, 9):
        return f"unexpected exception {obs.get('exc')}"
    if code == 2:
        return None if (obs["apply"] and minc != maxc and maxc <= minc) else f"numpy rejected a draw: {obs.get('exc')}"
    if code == 4:
        zero = (minc == maxc == 0) or any(t[0] == "I" and t[1] == minc and t[3] == 0 for t in obs["trace"][:2])
        return None if zero else "ZeroDivisionError without a zero rectangle count"
    if code != 0:
        return f"raised {obs.get('exc')}"
    if "odd_key" in obs:
        return "unexpected assignment " + obs["odd_key"]
    if not obs["apply"] and obs["rects"]:
        return "erased although rng.random() >= p"
    for (top, lft, h, w) in obs["rects"]:
        if not in_bounds(H, W, top, lft, h, w):
            return f"erased rectangle (top={top}, left={lft}, h={h}, w={w}) leaves the {H}x{W} image"
        if not (h < H and w < W):
            return f"erased rectangle {h}x{w} is not smaller than the image {H}x{W}"
    nmax = max(minc, maxc - 1)
    if len(obs["rects"]) > max(nmax, 0):
        return f"{len(obs['rects'])} rectangles erased, at most {nmax} requested"
    if not obs["shapes_ok"]:
        return "rectangle out of range"
    if not obs["outside_untouched"]:
        return "pixels outside the erased rectangles changed"
    if case["mode"] == "zeros" and not obs["by_hand"]:
        return "zeroing the recorded rectangles by hand differs from the output"
    return draws_in_range(obs["trace"])


def oracle_spec(case, obs):
    code = obs["code"]
    if code != 0:
        return f"KDSpecAugment raised {obs.get('exc')}"
    for (P, size, idx, name) in ((case["tm"], case["T"], obs["rows"], "time"), (case["fm"], case["F"], obs["cols"], "frequency")):
        if P is None or P < 1:
            if idx:
                return f"{name} axis masked without a mask parameter"
            continue
        if idx:
            if idx != list(range(idx[0], idx[0] + len(idx))):
                return f"{name} mask {idx} is not contiguous"
            if idx[0] < 0 or idx[-1] >= size:
                return f"{name} mask {idx} leaves the axis of size {size}"
            if not len(idx) < P:
                return f"{name} mask of length {len(idx)} is not shorter than the parameter {P}"
    if not obs["by_hand"]:
        return "zeroing the recorded rows/columns by hand differs from the output"
    return None


def oracle_semseg(case, obs):
    code = obs["code"]
    if code == 6:
        # a resize target rounded to 0 (1-pixel-wide pair scaled down): torchvision rejects the size explicitly
        rs = [e for e in obs["log"] if e[0] == "resize"]
        if rs and min(rs[-1][2]) <= 0:
            return None
    if code != 0:
        return f"semseg pipeline raised {obs.get('exc')}"
    per = parse_semseg_log(case, obs)
    if len(per) != len(case["ops"]):
        return f"{len(per)} transform applications observed for {len(case['ops'])} transforms"
    H, W = case["H"], case["W"]
    for k, (o, calls) in enumerate(zip(case["ops"], per)):
        cx, cs = calls["x"], calls["seg"]
        if o["op"] == "other":
            if cx or cs:
                return "functional call inside a non-semseg transform"
            continue
        if len(cx) > 1:
            return f"op {k} ({o['op']}): image transformed {len(cx)} times"
        if bool(cx) != bool(cs):
            return f"op {k} ({o['op']}): applied to {'the image' if cx else 'the mask'} only"
        if not cx:
            if o["op"] != "flip":
                return f"op {k} ({o['op']}): nothing applied"
            continue
        if cx[0][0] != cs[-1][0] or cx[0][2] != cs[-1][2]:
            return (f"op {k} ({o['op']}): image got {cx[0][0]}{cx[0][2]} but the mask got {cs[-1][0]}{cs[-1][2]}")
        name, _, par, extra = cx[0][:4]
        if name == "pad":
            l, t, r, b = par
            if min(par) < 0:
                return f"op {k}: negative padding {par}"
            th, tw = o["size"]
            if (H + t + b, W + l + r) != (max(H, th), max(W, tw)):
                return f"op {k}: padding {par} of a {H}x{W} pair does not give {max(H, th)}x{max(W, tw)}"
            if abs(t - b) > 1 or abs(l - r) > 1:
                return f"op {k}: padding {par} is not centred"
            H, W = H + t + b, W + l + r
            if cs[-1][3] != -1 or cx[0][3] != 0:
                return f"op {k}: fill values image {cx[0][3]} mask {cs[-1][3]}"
        elif name == "crop":
            top, lft, h, w = par
            if not in_bounds(H, W, top, lft, h, w):
                return f"op {k}: crop window {par} leaves the {H}x{W} pair"
            th, tw = o["size"]
            if (h, w) != (min(H, th), min(W, tw)):
                return f"op {k}: crop size {(h, w)} is not {(min(H, th), min(W, tw))}"
            if len(cs) > 11:
                return f"op {k}: {len(cs)} mask crops (more than 1 + 10 re-draws)"
            H, W = h, w
        elif name == "resize":
            nh, nw = par
            if o["op"] == "resize" and [nh, nw] != list(o["size"]):
                return f"op {k}: resized to {par}, requested {o['size']}"
            if nh < 1 or nw < 1:
                return f"op {k}: resize to {par}"
            if "NEAREST" not in str(cs[-1][3]).upper():
                return f"op {k}: mask resized with {cs[-1][3]}"
            ms = cs[-1][4] if len(cs[-1]) > 4 else None
            if not isinstance(ms, list):
                return f"op {k}: the mask's nearest resize could not be measured as an index map: {ms}"
            for axis, (n_in, n_out, m) in enumerate(((H, nh, ms[1]), (W, nw, ms[2]))):
                bad = nn_contract(ms[0], n_in, n_out, m)
                if bad:
                    return f"op {k}: nearest resize {n_in} -> {n_out} of axis {axis} ({ms[0]}): {bad}"
            if len(cx[0]) > 4 and cx[0][4] != ms:
                return (f"op {k}: image and mask are resized {[H, W]} -> {par} with different nearest index maps: "
                        f"{cx[0][4]} vs {ms}")
            H, W = nh, nw
    if obs["x_hw"] != [H, W] or obs["seg_hw"] != [H, W]:
        return f"output sizes image {obs['x_hw']} mask {obs['seg_hw']}, geometry says {[H, W]}"
    if "pix_x" in obs:
        if not obs["x_exact"]:
            return "image values are not ids any more although everything is nearest-neighbour"
        if obs["pix_x"] != obs["pix_seg"]:
            bad = next(i for i, (a, b) in enumerate(zip(obs["pix_x"], obs["pix_seg"])) if a != b)
            return (f"image and mask are misaligned: output pixel {divmod(bad, W)} shows source {obs['pix_x'][bad]} in the "
                    f"image and {obs['pix_seg'][bad]} in the mask")
    if case["seeded"]:
        if obs["seeds_asked"] != [case["seed"] + case.get("idx", 0)]:
            return f"wrapper seeded its generator with {obs['seeds_asked']}"
        for name, res in obs.get("alts", []):
            if res is not True:
                return (f"sample {case.get('idx', 0)} requested through {name} differs from the fused getitem_xsemseg result "
                        f"of the same seeded wrapper (the pair's members / the request paths see different geometry): {res}")
    return draws_in_range(obs["trace"])


def oracle_multi(case, obs):
    ch, cw = case["size"]
    H, W = case["H"], case["W"]
    code = obs["code"]
    legit = ch % 2 == 0 and cw % 2 == 0 and ch > 0 and cw > 0 and H % ch == 0 and W % cw == 0
    if not legit:
        return None if code in (3, 4) else f"expected a rejection, got code {code} {obs.get('exc')}"
    if code != 0:
        return f"raised {obs.get('exc')}"
    xs = [e[2] for e in obs["log"] if e[0] == "crop" and e[1] == "x"]
    ss = [e[2] for e in obs["log"] if e[0] == "crop" and e[1] == "seg"]
    if xs != ss:
        return "image and mask windows differ"
    for (top, lft, h, w) in xs:
        if not in_bounds(H, W, top, lft, h, w) or (h, w) != (ch, cw):
            return f"window {(top, lft, h, w)} leaves the {H}x{W} pair or is not {ch}x{cw}"
    if not obs["aligned"] or not obs["windows_true"]:
        return "crops do not show the recorded windows / image and mask misaligned"
    if not obs["covers"]:
        return "windows do not cover the image"
    return None


def oracle_patch(case, obs):
    ph, pw = two(case["patch"])
    legit = case["H"] % ph == 0 and case["W"] % pw == 0
    code = obs["code"]
    if not legit:
        return None if code == 3 else f"size not divisible by the patch size: expected AssertionError, got code {code} {obs.get('exc')}"
    if code != 0:
        return f"raised {obs.get('exc')}"
    if not obs["patches_are_slices"]:
        return "a patch is not the slice of the input it is named after (or the shuffle did not move whole patches)"
    if not obs["roundtrip"]:
        return "unpatchify(unshuffle(shuffle(patchify(x)))) differs from x"
    if not obs["patchify_unpatchify"]:
        return "patchify(unpatchify(p)) differs from p"
    if case["kind"] == "patch":
        if (obs["lh"], obs["lw"]) != (case["H"] // ph, case["W"] // pw):
            return f"recorded lh, lw = {(obs['lh'], obs['lw'])}"
        if sorted(obs["perm"]) != list(range(obs["lh"] * obs["lw"])):
            return "generator contract broken: permutation is not a permutation"
    return None


def oracle_norm(case, obs):
    code = obs["code"]
    zero = (not case["range"]) and any(s == 0 for s in case["std"][:3 if case["inp"] != "tensor" else case["C"]])
    if zero:
        return None if code in (5, 4) else f"std == 0: expected an error, got code {code}"
    if code != 0:
        return f"raised {obs.get('exc')}"
    if not obs["norm_close"]:
        return "normalize differs from (x - mean) / std"
    if not obs["allclose"]:
        return "denormalize(normalize(x)) is not close to x"
    if not obs["other_order"]:
        return "normalize(denormalize(x)) is not close to x"
    return None


def oracle_specprobe(case, obs):
    if obs["bad"]:
        return ("float32: np_random_as_tensor(rng) * mask_param reaches mask_param (the assert of _mask_along_axis "
                f"would fire / the mask would be as long as the parameter): {obs['bad'][:3]}")
    return None


def oracle_patchwise(case, obs):
    ph, pw = two(case["patch"])
    legit = case["H"] % ph == 0 and case["W"] % pw == 0
    code = obs["code"]
    if not legit:
        return None if code == 3 else f"size not divisible by the patch size: expected AssertionError, got code {code} {obs.get('exc')}"
    if code != 0:
        return f"raised {obs.get('exc')}"
    if obs["shape"] != [case["C"], case["H"], case["W"]]:
        return f"output shape {obs['shape']}"
    n = (case["H"] // ph) * (case["W"] // pw)
    if obs["calls"] != [[case["C"], ph, pw]] * n:
        return f"the wrapped transform was called on {obs['calls']}, expected {n} patches of {[case['C'], ph, pw]}"
    if not obs["by_hand"]:
        return "output differs from transforming every ph x pw block in row-major order by hand"
    if not obs["identity"]:
        return "PatchwiseTransform around an identity transform changes the input"
    return None


ORACLES = {"specprobe": oracle_specprobe, "patchwise": oracle_patchwise, "crop": oracle_crop, "two": oracle_crop, "simple": oracle_crop, "rrc": oracle_rrc, "erase": oracle_erase,
           "spec": oracle_spec, "semseg": oracle_semseg, "multi": oracle_multi, "patch": oracle_patch,
           "patch5": oracle_patch, "norm": oracle_norm}


def oracle(case, obs):
    if "harness_exception" in obs:
        return "harness exception: " + obs["harness_exception"] + obs.get("tb", "")
    return ORACLES[case["kind"]](case, obs)


# ---------------------------------------------------------------------------
# Coq rendering
# ---------------------------------------------------------------------------
def coq_applicable(case, obs):
    if "harness_exception" in obs or obs.get("code") in (8, 9):
        return False
    k = case["kind"]
    if k == "rrc":
        return "ctx" in obs
    if k == "semseg" and obs.get("code") == 6:
        return False
    if k == "norm":
        return obs["code"] == 0
    if k in ("patch", "patch5"):
        return case["inp"] == "tensor"
    if k == "specprobe":
        return False
    if k == "simple" and obs["code"] == 0:
        return True
    if k == "simple":
        return "H1W1" in obs
    if k == "spec":
        need = sum(1 for P in (case["tm"], case["fm"]) if P is not None and P >= 1)
        return len(obs["vals"]) == need
    return True


def Draws(trace):
    return [(a, b, c) for (a, b, c) in ints(trace)]


def Cfg(case):
    th, tw = two(case["size"])
    p = pad4(case.get("padding"))
    return Rec(c_th=th, c_tw=tw, c_padding=Opt(tuple(p) if p is not None else None), c_pin=bool(case.get("pin")))


def RectT(l):
    return tuple(int(v) for v in l)


def coq_case(case, obs):
    k = case["kind"]
    code = Nat(obs["code"])
    ok = obs["code"] == 0
    z4 = (0, 0, 0, 0)
    if k == "crop":
        c = obs["ctx"]["random_crop"] if ok else None
        return coq(C("KCrop", Cfg(case), case["H"], case["W"], Draws(obs["trace"]), code,
                     obs["padded"][0] if ok else 0, obs["padded"][1] if ok else 0,
                     (c["i"], c["j"], c["h"], c["w"]) if ok else z4))
    if k == "simple":
        c = obs["ctx"]["random_crop"] if ok else None
        size = case["size"]
        sz = Raw(f"(inl {coq(size)})") if isinstance(size, int) else Raw(f"(inr {coq(tuple(size))})")
        h1, w1 = obs["H1W1"]
        return coq(C("KSimple", sz, Cfg(case), case["H"], case["W"], Draws(obs["trace"]), code, h1, w1,
                     obs["padded"][0] if ok else 0, obs["padded"][1] if ok else 0,
                     (c["i"], c["j"], c["h"], c["w"]) if ok else z4))
    if k == "two":
        c = obs["ctx"]["two_random_crop"] if ok else None
        cfg = obs["cfg"]
        return coq(C("KTwo", Cfg(case), cfg["tries"], QZ(cfg["omin"]), QZ(cfg["omax"]), case["H"], case["W"],
                     Draws(obs["trace"]), code, obs["padded"][0] if ok else 0, obs["padded"][1] if ok else 0,
                     (c["i0"], c["j0"], c["h0"], c["w0"]) if ok else z4,
                     (c["i1"], c["j1"], c["h1"], c["w1"]) if ok else z4, bool(c["out_of_tries"]) if ok else False))
    if k == "rrc":
        c = obs["ctx"]
        rmin, rmax = QZ(frac(min(case["ratio"]))), QZ(frac(max(case["ratio"])))
        return coq(C("KRrc", case["H"], case["W"], rmin, rmax, [tuple(x) for x in obs["cands"]], Draws(obs["trace"]),
                     Raw(obs["fb"]), obs["r"], Nat(0), (c["i"], c["j"], c["h"], c["w"])))
    if k == "erase":
        return coq(C("KErase", obs["apply"], obs["cfg"]["minc"], obs["cfg"]["maxc"], case["H"], case["W"],
                     [tuple(x) for x in obs["cands"]], Draws(obs["trace"]), code, [RectT(r) for r in obs["rects"]]))
    if k == "spec":
        vals = [(Q(v), Q(y), Q(m)) for (v, y, m) in obs["vals"]]
        return coq(C("KSpec", Opt(case["tm"]), Opt(case["fm"]), case["T"], case["F"], vals, code,
                     obs["rows"], obs["cols"]))
    if k == "semseg":
        if not ok:
            return coq(C("KSemseg", Raw("[]"), case["H"], case["W"], Raw("[]"), code, Raw("[]"), 0, 0, Raw("None")))
        per = parse_semseg_log(case, obs)
        gtrace = semseg_geometry_trace(case, obs)      # draws of image-only transforms are not geometry parameters
        rs = [t[1] for t in gtrace if t[0] == "R"]
        ops, gs = [], []
        ri = 0
        for o, calls in zip(case["ops"], per):
            cx, cs = calls["x"], calls["seg"]
            if cx:
                name, _, par, _ = cx[0][:4]
                ms = cs[-1][4] if name == "resize" and len(cs[-1]) > 4 and isinstance(cs[-1][4], list) else [None, [], []]
                g = {"pad": lambda: C("GPad", tuple(par)), "crop": lambda: C("GCrop", tuple(par)),
                     "hflip": lambda: Raw("GFlip"),
                     "resize": lambda: C("GResize", par[0], par[1], [int(v) for v in ms[1]], [int(v) for v in ms[2]])}[name]()
            else:
                g = Raw("GId")
            gs.append(g)
            if o["op"] == "pad":
                ops.append(C("SPad", o["size"][0], o["size"][1]))
            elif o["op"] == "crop":
                ops.append(C("SCrop", o["size"][0], o["size"][1], Nat(max(len(cs) - 1, 0))))
            elif o["op"] == "flip":
                applied = rs[ri] < o["p"] if ri < len(rs) else False
                ri += 1
                ops.append(C("SFlip", bool(applied)))
            elif o["op"] in ("rresize", "resize"):
                par = cx[0][2] if cx else [0, 0]
                ms = cs[-1][4] if cs and len(cs[-1]) > 4 and isinstance(cs[-1][4], list) else ["NTorch", [], []]
                if o["op"] == "resize":
                    par = o["size"]
                ops.append(C("SRandResize" if o["op"] == "rresize" else "SResize", par[0], par[1], Raw(ms[0]),
                             [int(v) for v in ms[1]], [int(v) for v in ms[2]]))
            else:
                ops.append(Raw("SOther"))
        pix = Raw("None")
        if "pix_x" in obs and case["content"] == "id":
            pix = Raw("(Some (" + coq(obs["pix_x"]) + ", " + coq(obs["pix_seg"]) + "))")
        return coq(C("KSemseg", ops, case["H"], case["W"], Draws(gtrace), code, gs,
                     obs["x_hw"][0], obs["x_hw"][1], pix))
    if k == "multi":
        wins = [RectT(e[2]) for e in obs["log"] if e[0] == "crop" and e[1] == "x"] if ok else []
        return coq(C("KMulti", case["size"][0], case["size"][1], case["H"], case["W"], code, wins))
    if k == "patch":
        ph, pw = two(case["patch"])
        if not ok:
            return coq(C("KPatch", ph, pw, case["C"], case["H"], case["W"], Raw("[]"), code, 0, 0, Raw("[]"), Raw("[]")))
        return coq(C("KPatch", ph, pw, case["C"], case["H"], case["W"], obs["perm"], code, obs["lh"], obs["lw"],
                     obs["inv"], obs["out"]))
    if k == "patch5":
        ph, pw = two(case["patch"])
        return coq(C("KPatch5", ph, pw, case["C"], case["H"], case["W"], code, obs["out"] if ok else Raw("[]")))
    if k == "patchwise":
        ph, pw = two(case["patch"])
        return coq(C("KPatchwise", ph, pw, case["C"], case["H"], case["W"], code, obs["out"] if ok else Raw("[]")))
    if k == "norm":
        ents = [tuple(Q(v) for v in e) for e in obs["entries"]]
        return coq(C("KNorm", bool(case["range"]), ents))
    raise ValueError(k)


# ---------------------------------------------------------------------------
# generation
# ---------------------------------------------------------------------------
def _side(rng, target, big):
    r = rng.random()
    if r < 0.45:
        return max(1, target + rng.choice([-2, -1, -1, 0, 0, 1, 1, 2]))
    if r < 0.55:
        return 1
    if r < 0.65:
        return rng.choice([100, 150, 200]) if big or rng.random() < 0.3 else rng.randint(30, 48)
    return rng.randint(1, 200 if big else 40)


def _padding(rng):
    r = rng.random()
    if r < 0.5:
        return None
    if r < 0.7:
        return rng.randint(0, 4)
    if r < 0.85:
        return [rng.randint(0, 4), rng.randint(0, 4)]
    return [rng.randint(0, 4) for _ in range(4)]


def gen_crop(rng, big):
    th, tw = rng.randint(1, 12), rng.randint(1, 12)
    size = th if th == tw and rng.random() < 0.5 else [th, tw]
    if rng.random() < 0.03:
        size = [rng.choice([0, th]), rng.choice([0, tw])]
    H, W = _side(rng, th, big), _side(rng, tw, big)
    return {"kind": "crop", "size": size, "H": H, "W": W, "padding": _padding(rng), "pin": rng.random() < 0.3,
            "mode": rng.choice(["constant", "constant", "edge"]), "inp": rng.choice(["tensor1", "tensor3", "pilF", "pilRGB"]),
            "seed": rng.randrange(10 ** 6)}


def gen_two(rng, big):
    c = gen_crop(rng, big)
    c["kind"] = "two"
    c["mode"] = "constant"
    dy = [0.0, 0.125, 0.25, 0.375, 0.5, 0.625, 0.75, 1.0]
    a, b = rng.choice(dy), rng.choice(dy)
    if rng.random() < 0.8 and a > b:
        a, b = b, a
    c["omin"], c["omax"] = rng.choice([None, a, a]), rng.choice([None, b, b])
    c["tries"] = rng.choice([1, 2, 3, 5, 20])
    if rng.random() < 0.5:      # room for overlaps to vary
        th, tw = two(c["size"])
        c["H"], c["W"] = th + rng.randint(0, 12), tw + rng.randint(0, 12)
    return c


def gen_simple(rng, big):
    s = rng.randint(5, 12)
    size = s if rng.random() < 0.5 else [s, rng.randint(5, 12)]
    return {"kind": "simple", "size": size, "H": rng.randint(1, 60 if big else 30), "W": rng.randint(1, 60 if big else 30),
            "padding": rng.choice([4, 4, 0, 2, [1, 3], [1, 2, 3, 4]]), "pin": rng.random() < 0.2,
            "mode": rng.choice(["reflect", "reflect", "constant", "edge"]), "interp": rng.choice(["nearest", "bilinear", "bicubic"]),
            "inp": rng.choice(["tensor1", "tensor3", "pilF", "pilRGB"]), "seed": rng.randrange(10 ** 6)}


def gen_rrc(rng, big):
    r = rng.random()
    if r < 0.3:
        H, W = rng.randint(1, 4), rng.randint(1, 200 if big else 48)
    elif r < 0.45:
        H, W = rng.randint(1, 200 if big else 48), rng.randint(1, 4)
    else:
        H, W = rng.randint(1, 200 if big else 40), rng.randint(1, 200 if big else 40)
    scale = rng.choice([[0.08, 1.0], [0.08, 1.0], [0.9, 1.0], [1.0, 1.0], [0.01, 0.02], [1.0, 2.0], [0.3, 0.3], [2.0, 3.0]])
    ratio = rng.choice([[0.75, 4 / 3], [0.75, 4 / 3], [0.1, 0.2], [5.0, 10.0], [1.0, 1.0], [0.01, 100.0], [0.5, 2.0],
                        [3.0, 3.0], [0.2, 0.2]])
    s = rng.randint(1, 9)
    return {"kind": "rrc", "size": s if rng.random() < 0.5 else [s, rng.randint(1, 9)], "H": H, "W": W, "scale": scale,
            "ratio": ratio, "interp": rng.choice(["nearest", "bilinear", "bicubic"]),
            "inp": rng.choice(["tensor1", "tensor3", "pilF", "pilRGB"]), "seed": rng.randrange(10 ** 6)}


def gen_erase(rng, big):
    r = rng.random()
    if r < 0.3:
        H, W = rng.randint(1, 4), rng.randint(1, 60 if big else 30)
    else:
        H, W = rng.randint(1, 60 if big else 24), rng.randint(1, 60 if big else 24)
    a = rng.choice([[0.02, 1 / 3], [0.02, 1 / 3], [0.5, 1.0], [0.9, 1.5], [0.001, 0.01], [0.2, 0.2]])
    asp = rng.choice([[0.3, None], [0.3, None], [0.05, 20.0], [1.0, 1.0], [3.0, 8.0]])
    cnt = rng.choice([[1, None], [1, None], [2, None], [1, 4], [2, 3], [3, 3], [1, 4], [2, 5], [1, None], [2, None],
                      [0, None], [0, 3], [3, 2]])
    return {"kind": "erase", "H": H, "W": W, "C": rng.choice([1, 3]), "p": rng.choice([1.0, 1.0, 1.0, 1.0, 0.5, 0.0]),
            "area": a, "aspect": asp, "count": cnt, "mode": rng.choice(["zeros", "zeros", "channelwise", "pixelwise"]),
            "seed": rng.randrange(10 ** 6)}


def gen_spec(rng, big):
    T, Fq = rng.randint(1, 60 if big else 24), rng.randint(1, 60 if big else 24)

    def par(size):
        r = rng.random()
        if r < 0.2:
            return None
        if r < 0.3:
            return rng.choice([0, 1])
        if r < 0.5:
            return size + rng.choice([-1, 0, 1, 5])
        return rng.randint(1, max(1, size))
    tm, fm = par(T), par(Fq)
    if tm is None and fm is None:
        tm = rng.randint(1, T)
    return {"kind": "spec", "C": rng.choice([1, 2]), "T": T, "F": Fq, "tm": tm, "fm": fm, "seed": rng.randrange(10 ** 6)}


def _gen_other(rng, stochastic=None):
    """an image-only transform: deterministic (Identity), or stochastic = consumes draws of the sample's generator"""
    if stochastic is None:
        stochastic = rng.random() < 0.6
    if not stochastic:
        return {"op": "other"}
    if rng.random() < 0.2:
        return {"op": "other", "real": "noise0"}        # KDAdditiveGaussianNoise (tensor images)
    return {"op": "other", "draws": [rng.choice("RRUNIP") for _ in range(rng.choice([1, 1, 2, 3, 5]))]}


def gen_semseg(rng, big):
    n = rng.choice([1, 1, 2, 3, 3, 4, 5, 6])
    ops = []
    resize_ok = rng.random() < 0.5
    for _ in range(n):
        kinds = ["pad", "crop", "crop", "flip", "other"] + (["rresize", "resize"] if resize_ok else [])
        o = rng.choice(kinds)
        if o == "pad":
            ops.append({"op": "pad", "size": [rng.randint(1, 20), rng.randint(1, 20)]})
        elif o == "crop":
            ops.append({"op": "crop", "size": [rng.randint(1, 16), rng.randint(1, 16)],
                        "mcr": rng.choice([1.0, 1.0, 0.75, 0.5])})
        elif o == "flip":
            ops.append({"op": "flip", "p": rng.choice([0.0, 0.5, 0.5, 1.0])})
        elif o == "rresize":
            ops.append({"op": "rresize", "base": [rng.randint(2, 24), rng.randint(2, 24)],
                        "ratio": rng.choice([[0.5, 2.0], [1.0, 1.0], [0.8, 1.2]])})
        elif o == "resize":
            ops.append({"op": "resize", "size": [rng.randint(1, 20), rng.randint(1, 20)]})
        else:
            ops.append(_gen_other(rng))
    if rng.random() < 0.25:     # the canonical pipeline: resize, crop, flip, pad
        s = rng.randint(4, 12)
        ops = [{"op": "rresize", "base": [2 * s, s], "ratio": [0.5, 2.0]}, {"op": "crop", "size": [s, s], "mcr": 0.75},
               {"op": "flip", "p": 0.5}, {"op": "other"}, {"op": "pad", "size": [s, s]}]
        if rng.random() < 0.5:  # ... with a stochastic image-only transform (noise / colour jitter) somewhere in front
            ops.insert(rng.randrange(3), _gen_other(rng, stochastic=True))
    H, W = rng.randint(1, 40 if big else 20), rng.randint(1, 40 if big else 20)
    inp = rng.choice(["tensor", "tensor", "pil"])
    if inp == "pil":
        for o in ops:
            o.pop("real", None)
    if inp == "pil":        # the category-ratio loop needs a tensor mask (semseg_crop.unique)
        for o in ops:
            if o["op"] == "crop":
                o["mcr"] = 1.0
    return {"kind": "semseg", "ops": ops, "H": H, "W": W, "inp": inp,
            "content": rng.choice(["id", "id", "blocky"]), "interp": rng.choice(["nearest", "nearest", "nearest", "bilinear"]),
            "seeded": rng.random() < 0.5, "via": rng.choice(["direct", "direct", "mode"]), "idx": rng.randrange(3),
            "seed": rng.randrange(10 ** 6)}


def gen_multi(rng, big):
    ch, cw = rng.choice([2, 2, 4, 6, 3]), rng.choice([2, 4, 4, 6, 5])
    H, W = ch * rng.randint(1, 4), cw * rng.randint(1, 4)
    if rng.random() < 0.15:
        H += 1
    return {"kind": "multi", "size": [ch, cw], "H": H, "W": W}


def gen_patch(rng, big, five=False):
    ph, pw = rng.randint(1, 5), rng.randint(1, 5)
    H, W = ph * rng.randint(1, 5), pw * rng.randint(1, 5)
    if rng.random() < 0.1:
        H += 1
    patch = ph if ph == pw and rng.random() < 0.5 else [ph, pw]
    return {"kind": "patch5" if five else "patch", "patch": patch, "H": H, "W": W, "C": rng.choice([1, 2, 3]),
            "inp": rng.choice(["tensor", "tensor", "tensor", "pil"]), "seed": rng.randrange(10 ** 6)}


def gen_norm(rng, big):
    vals = [0.5, 0.25, 0.229, 0.485, 1.0, 2.0, 1e-3, 100.0, -0.3]
    stds = [0.5, 0.25, 0.229, 0.224, 1.0, 2.0, 1e-3, 100.0]
    std = [rng.choice(stds) for _ in range(3)]
    if rng.random() < 0.05:
        std[rng.randrange(3)] = 0.0
    return {"kind": "norm", "range": rng.random() < 0.3, "mean": [rng.choice(vals) for _ in range(3)], "std": std,
            "H": rng.randint(1, 6), "W": rng.randint(1, 6), "C": rng.choice([1, 3]), "inp": rng.choice(["tensor", "tensor", "pil"]),
            "lo": rng.choice([0.0, -5.0, -100.0]), "hi": rng.choice([1.0, 5.0, 255.0]), "inplace": rng.random() < 0.7,
            "seed": rng.randrange(10 ** 6)}


def gen_patchwise(rng, big):
    c = gen_patch(rng, big)
    c["kind"] = "patchwise"
    c["inp"] = "tensor"
    return c


GENS = [("patchwise", gen_patchwise, 2), ("crop", gen_crop, 17), ("two", gen_two, 11), ("simple", gen_simple, 7), ("rrc", gen_rrc, 16),
        ("erase", gen_erase, 10), ("spec", gen_spec, 9), ("semseg", gen_semseg, 17), ("multi", gen_multi, 3),
        ("patch", gen_patch, 5), ("patch5", lambda r, b: gen_patch(r, b, five=True), 2), ("norm", gen_norm, 3)]


def gen_case(rng, big=False):
    tot = sum(w for _, _, w in GENS)
    r = rng.random() * tot
    for _, g, w in GENS:
        if r < w:
            return g(rng, big)
        r -= w
    return GENS[0][1](rng, big)


def boundary_cases():
    """deterministic block run on every tier: every (H, W) within two pixels of a 3x2 target, both input families,
    with and without pad_if_needed; 1..3-pixel pairs through crop+flip+pad"""
    out = []
    for H in range(1, 6):
        for W in range(1, 5):
            for pin in (False, True):
                out.append({"kind": "crop", "size": [3, 2], "H": H, "W": W, "padding": None, "pin": pin,
                            "mode": "constant", "inp": "tensor1" if (H + W) % 2 else "pilF", "seed": H * 7 + W})
    for H in range(1, 4):
        for W in range(1, 4):
            out.append({"kind": "semseg", "ops": [{"op": "crop", "size": [2, 2], "mcr": 1.0}, {"op": "flip", "p": 1.0},
                                                  {"op": "pad", "size": [3, 4]}],
                        "H": H, "W": W, "inp": "tensor" if (H + W) % 2 else "pil", "content": "id", "interp": "nearest",
                        "seeded": bool(H % 2), "via": "direct", "idx": 0, "seed": H * 5 + W})
    # seeded wrappers with a stochastic image-only transform before / between the random geometry transforms: the image,
    # the mask and the fused pair of one sample are requested separately and through every ModeWrapper item order
    for n, draws in enumerate((["R"], ["U", "N"], ["I"], ["P", "R", "R"])):
        for pos in (0, 1):
            ops = [{"op": "crop", "size": [4, 5], "mcr": 1.0}, {"op": "flip", "p": 0.5}, {"op": "pad", "size": [5, 5]}]
            ops.insert(pos, {"op": "other", "draws": draws})
            out.append({"kind": "semseg", "ops": ops, "H": 9 + n, "W": 12 - n, "inp": "tensor" if pos else "pil",
                        "content": "id", "interp": "nearest", "seeded": True, "via": "direct" if n % 2 else "mode",
                        "idx": n % 3, "seed": 11 * n + pos})
    out.append({"kind": "semseg", "ops": [{"op": "other", "real": "noise0"}, {"op": "rresize", "base": [12, 8], "ratio": [0.5, 2.0]},
                                          {"op": "crop", "size": [6, 6], "mcr": 0.75}, {"op": "flip", "p": 0.5}],
                "H": 10, "W": 14, "inp": "tensor", "content": "id", "interp": "nearest", "seeded": True, "via": "direct",
                "idx": 1, "seed": 3})
    # 1-pixel-wide pairs through KDSemsegRandomResize: the target rounds a side to 0 and torchvision raises (counted in
    # the histogram as "semseg:resize target rounds a side to 0 (torchvision rejects)")
    for (H, W) in ((15, 1), (1, 15), (1, 1), (2, 40)):
        out.append({"kind": "semseg", "ops": [{"op": "rresize", "base": [8, 4], "ratio": [0.5, 0.5]}],
                    "H": H, "W": W, "inp": "tensor", "content": "id", "interp": "nearest", "seeded": False,
                    "via": "direct", "idx": 0, "seed": H + W})
    # resize-only pipelines with every kind of input: pixel maps through the nearest index maps
    for (H, W, nh, nw) in ((4, 5, 2, 3), (2, 2, 7, 7), (14, 14, 46, 46), (26, 13, 22, 11), (3, 7, 3, 7), (6, 4, 4, 6)):
        for inp in ("tensor", "pil"):
            out.append({"kind": "semseg", "ops": [{"op": "resize", "size": [nh, nw]}, {"op": "flip", "p": 1.0}],
                        "H": H, "W": W, "inp": inp, "content": "id", "interp": "nearest", "seeded": False,
                        "via": "direct", "idx": 0, "seed": H + W})
    return out


MORE_INPUTS = ["pilL", "pilI16", "pilI", "tensor_u8", "tensor_b"]


def gen_more_inputs(rng, n):
    """crops / resized crops on further input families: PIL modes L, I;16, I, uint8 tensors, batched (B,C,H,W) tensors"""
    out = []
    for _ in range(n):
        c = rng.choice([gen_crop, gen_crop, gen_two, gen_simple, gen_rrc, gen_rrc])(rng, False)
        c["inp"] = rng.choice(MORE_INPUTS)
        out.append(c)
    return out


def gen_cases(rng, tier):
    if tier == "quick":
        return (boundary_cases() + [{"kind": "specprobe", "lo": 1, "hi": 2 ** 24}]
                + [gen_case(rng) for _ in range(2400)] + gen_more_inputs(rng, 100))
    return (boundary_cases() + [{"kind": "specprobe", "lo": 1, "hi": 2 ** 24}]
            + [gen_case(rng) for _ in range(9000)] + [gen_case(rng, big=True) for _ in range(4000)]
            + gen_more_inputs(rng, 2500))


def search_cases(rng, tier):
    # directed: every (H, W) around a small target for the crops, tiny pairs through the canonical semseg pipeline
    for th in (1, 2, 3):
        for H in range(max(1, th - 2), th + 3):
            for W in range(max(1, th - 2), th + 3):
                for pin in (False, True):
                    for inp in ("tensor1", "pilF"):
                        yield {"kind": "crop", "size": [th, th], "H": H, "W": W, "padding": None, "pin": pin,
                               "mode": "constant", "inp": inp, "seed": H * 7 + W}
    for H in range(1, 7):
        for W in range(1, 7):
            for s in range(4):
                yield {"kind": "semseg", "ops": [{"op": "crop", "size": [3, 3], "mcr": 1.0}, {"op": "flip", "p": 1.0},
                                                 {"op": "pad", "size": [4, 5]}],
                       "H": H, "W": W, "inp": "tensor", "content": "id", "interp": "nearest", "seeded": s % 2 == 0,
                       "via": "direct", "idx": 0, "seed": s}
                yield {"kind": "rrc", "size": 3, "H": H, "W": W * 9, "scale": [0.08, 1.0], "ratio": [0.75, 4 / 3],
                       "interp": "nearest", "inp": "tensor1", "seed": s}
    for _ in range(30000):
        yield gen_case(rng, big=rng.random() < 0.3)


def shrink(c):
    if c.get("seed"):
        yield {**c, "seed": 0}
        yield {**c, "seed": c["seed"] // 2}
    for k in ("H", "W", "T", "F"):
        if k in c and c[k] > 1:
            yield {**c, k: c[k] - 1}
            yield {**c, k: max(1, c[k] // 2)}
    if c.get("padding") is not None and c["kind"] != "simple":
        yield {**c, "padding": None}
    if c.get("pin"):
        yield {**c, "pin": False}
    if c.get("inp") in ("tensor3", "pilF", "pilRGB"):
        yield {**c, "inp": "tensor1"}
    if c["kind"] == "semseg":
        for i in range(len(c["ops"])):
            if len(c["ops"]) > 1:
                yield {**c, "ops": c["ops"][:i] + c["ops"][i + 1:]}
        for i, o in enumerate(c["ops"]):
            if o.get("real"):
                yield {**c, "ops": c["ops"][:i] + [{"op": "other", "draws": ["U", "N"]}] + c["ops"][i + 1:]}
            if len(o.get("draws", [])) > 1:
                yield {**c, "ops": c["ops"][:i] + [{"op": "other", "draws": o["draws"][:-1]}] + c["ops"][i + 1:]}
        if c["inp"] != "tensor":
            yield {**c, "inp": "tensor", "ops": [{k: v for k, v in o.items() if k != "real"} for o in c["ops"]]}
        if c["via"] != "direct":
            yield {**c, "via": "direct"}
        if c.get("idx"):
            yield {**c, "idx": 0}
        if c["content"] != "id":
            yield {**c, "content": "id"}
    if c.get("C", 1) > 1 and c["kind"] != "norm":
        yield {**c, "C": 1}


def features(case, obs):
    k = case["kind"]
    yield "kind=" + k
    yield f"{k}:code={obs.get('code')}"
    if "inp" in case:
        yield f"{k}:inp={case['inp']}"
    if k in ("crop", "two", "simple"):
        th, tw = two(case["size"])
        H, W = case["H"], case["W"]
        if k != "simple":
            rel = lambda a, b: "smaller" if a < b - 1 else "one-less" if a == b - 1 else "equal" if a == b else "one-more" if a == b + 1 else "larger"
            yield f"{k}:H-vs-th={rel(H, th)}"
            yield f"{k}:W-vs-tw={rel(W, tw)}"
        yield f"{k}:pin={bool(case.get('pin'))}"
        yield f"{k}:padding={'none' if case.get('padding') is None else 'yes'}"
        if k == "two" and obs.get("code") == 0:
            yield f"two:oot={obs['ctx']['two_random_crop']['out_of_tries']}"
    if k == "rrc" and "ctx" in obs:
        n = len(obs["cands"])
        sampled = len(ints(obs["trace"])) == 2
        yield "rrc:branch=" + ("sampled" if sampled else obs["fb"])
        yield "rrc:attempts=" + ("1" if n == 1 else "2-9" if n < 10 else "10")
        ar = max(case["H"], case["W"]) / min(case["H"], case["W"])
        yield "rrc:aspect=" + ("<=2" if ar <= 2 else "<=10" if ar <= 10 else ">10")
    if k == "erase" and obs.get("code") == 0:
        yield f"erase:rects={len(obs['rects'])}"
        yield f"erase:mode={case['mode']}"
    if k == "spec" and obs.get("code") == 0:
        yield f"spec:rows={'0' if not obs['rows'] else '>0'} cols={'0' if not obs['cols'] else '>0'}"
        yield f"spec:P>size={(case['tm'] or 0) > case['T'] or (case['fm'] or 0) > case['F']}"
    if k == "specprobe":
        yield f"specprobe:mask_params checked={obs.get('n')} x {len(obs.get('us', []))} factors"
        return
    if k == "semseg" and obs.get("code") == 6:
        yield "semseg:resize target rounds a side to 0 (torchvision rejects)"
    if k == "semseg":
        yield f"semseg:n_ops={len(case['ops'])}"
        yield f"semseg:seeded={case['seeded']} via={case['via']}"
        yield f"semseg:content={case['content']} interp={case['interp']}"
        geo = [i for i, o in enumerate(case["ops"]) if o["op"] in ("crop", "flip", "rresize")]
        sto = [i for i, o in enumerate(case["ops"]) if o["op"] == "other" and (o.get("draws") or o.get("real"))]
        if sto:
            yield ("semseg:stochastic image-only transform "
                   + ("before a random geometry transform" if geo and min(sto) < max(geo) else "after all random geometry")
                   + f", seeded={case['seeded']}")
        if "alts" in obs:
            yield f"semseg:request paths compared with the fused result={len(obs['alts'])}"
        for o in case["ops"]:
            yield "semseg:op=" + o["op"]
        if obs.get("code") == 0:
            red = max([len(c["seg"]) - 1 for o, c in zip(case["ops"], parse_semseg_log(case, obs)) if o["op"] == "crop"] + [0])
            yield f"semseg:redraws={'0' if red == 0 else '1-9' if red < 10 else '10'}"
            yield f"semseg:pixelmap={'pix_x' in obs}"
            has_resize = any(o["op"] in ("resize", "rresize") for o in case["ops"])
            if "pix_x" in obs and case["content"] == "id":
                yield f"semseg:pixelmap compared in Coq, pipeline with resize={has_resize}"
            for e in obs["log"]:
                if e[0] == "resize" and e[1] == "seg" and len(e) > 4 and isinstance(e[4], list):
                    yield f"semseg:nearest map measured ({e[4][0]})"


def nontrivial_key(case, obs):
    k = case["kind"]
    if obs.get("code") != 0 and not (k == "rrc" and "ctx" in obs):
        return None
    if k in ("crop", "two", "simple"):
        return (k, tuple(two(case["size"])), case["H"], case["W"], case["inp"], bool(case.get("pin")), str(case.get("padding")))
    if k == "rrc":
        return (k, case["H"], case["W"], tuple(case["scale"]), tuple(case["ratio"]), case["inp"], len(obs["cands"]))
    if k == "erase":
        return (k, case["H"], case["W"], len(obs["rects"]), case["mode"]) if obs["rects"] else None
    if k == "spec":
        return (k, case["T"], case["F"], case["tm"], case["fm"]) if (obs["rows"] or obs["cols"]) else None
    if k == "semseg":
        return (k, case["H"], case["W"], tuple(o["op"] for o in case["ops"]), case["inp"], case["seeded"], case["via"])
    if k == "multi":
        return (k, tuple(case["size"]), case["H"], case["W"])
    if k in ("patch", "patch5", "patchwise"):
        return (k, str(case["patch"]), case["H"], case["W"], case["C"], case["inp"])
    if k == "specprobe":
        return (k,)
    return (k, case["range"], tuple(case["mean"]), tuple(case["std"]), case["inp"])
