"""Process-group histories for the rank-aware samplers (C12, C13).

The samplers take `rank=None, world_size=None` from torch.distributed's default process group.  What they resolve to
must depend on the state of the group AT CONSTRUCTION only - not on what the process asked or built earlier.  A case
carries a history `pg = {"mode", "procs", "steps"}`:

  ["init", assign, W]     init_process_group: process p joins as rank assign[p] of W (None: p does not take part)
  ["destroy"]             destroy_process_group (processes that are in a group)
  ["avail", b]            dist.is_available() answers b from now on                            (mode "sim" only)
  ["query", fn]           kappadata.utils.distributed.<fn>()  (is_distributed / get_rank / get_world_size)
  ["preview", kind]       a throwaway sampler with default arguments is constructed, next(iter(s)) taken
  ["build", r, W, e]      THE sampler of the case is constructed with rank=r, world_size=W (None = default),
                          set_epoch(e), len(sampler), list(sampler) - recorded with the draw spies like every rank run
  ["make", r, W, i]       the sampler of the case is CONSTRUCTED (rank=r, world_size=W, None = default) and kept as i
  ["use", i, e]           sampler i: set_epoch(e), len(sampler), list(sampler).  Anything may happen between the two
                          (init / destroy / re-init as another rank of another group): what the defaults meant AT
                          CONSTRUCTION is what the sampler is - the record must be that of the sampler built with the
                          explicit (rank, world size) of the state before its "make" step

ENVIRONMENT: optional `pg["env"]` = one dict per process of variables a launcher exports (torchrun's RANK / WORLD_SIZE /
LOCAL_RANK / LOCAL_WORLD_SIZE / GROUP_RANK / MASTER_ADDR / MASTER_PORT, SLURM_PROCID / SLURM_NTASKS / SLURM_LOCALID,
OMPI_COMM_WORLD_RANK / _SIZE, PMI_RANK / PMI_SIZE), set in the history's fresh process before its first step - consistent
(a launcher's view), inconsistent (RANK >= WORLD_SIZE, ranks of another job) or not even numbers.  They must not matter:
without a group default arguments mean (0, 1), with a group the group's values (real gloo groups are created with
explicit rank / world_size and a file:// rendezvous, which do not consult these variables either).

mode "sim":  one process; torch.distributed.is_available / is_initialized / get_rank / get_world_size (exactly what
             kappadata/utils/distributed.py and torch's DistributedSampler consult) are replaced by functions of a
             simulated state; without a group get_rank/get_world_size raise like the real ones.
mode "gloo": `procs` real processes join real gloo groups (file:// rendezvous in a temporary directory, loopback
             interface, no network); re-initialisation with permuted ranks / fewer members after destroy.

Every history runs in processes of its own, forked from a PRISTINE server process that has imported torch,
kappadata.samplers and the harness and has never called anything of them (the harness process itself has built
thousands of samplers; whatever that may have left behind in module-level state must neither help nor hurt, and a
replay file must fail or pass on its own).  The server is started on first use (`python -m harness.pgroup`), talks
JSON lines over stdin/stdout and exits when its stdin closes.
"""
import atexit
import json
import os
import subprocess
import sys
import time

QUERIES = ("is_distributed", "get_rank", "get_world_size")
PREVIEWS = ("weighted", "cb", "semi", "base")
PREVIEW_E = {"weighted": 5, "cb": 4, "semi": 4}     # effective_length of the throwaway samplers
GROUP_ERRORS = ("ValueError: Default process group", "RuntimeError: Requires distributed", "ValueError: Invalid rank",
                "RuntimeError: simulated: distributed package")
ENV_RANKS = ("RANK", "LOCAL_RANK", "GROUP_RANK", "NODE_RANK", "SLURM_PROCID", "SLURM_LOCALID", "SLURM_NODEID",
             "OMPI_COMM_WORLD_RANK", "OMPI_COMM_WORLD_LOCAL_RANK", "PMI_RANK")
ENV_WORLDS = ("WORLD_SIZE", "LOCAL_WORLD_SIZE", "SLURM_NTASKS", "SLURM_NPROCS", "OMPI_COMM_WORLD_SIZE", "PMI_SIZE")
ENV_OTHER = ("MASTER_ADDR", "MASTER_PORT")
ENV_VARS = ENV_RANKS + ENV_WORLDS + ENV_OTHER
PROC_TIMEOUT = 120.0     # seconds for all processes of one history (a real one takes 0.02 .. 0.3 s)


# ---------------------------------------------------------------------------
# inside the forked processes
# ---------------------------------------------------------------------------
class SimGroup:
    """torch.distributed as kappadata.utils.distributed / torch's DistributedSampler see it, driven by a simulated
    state: available (bool), joined (None | (rank, world))"""

    NAMES = ("is_available", "is_initialized", "get_rank", "get_world_size")

    def __init__(self):
        import torch.distributed as dist
        self.dist = dist
        self.orig = {k: getattr(dist, k) for k in self.NAMES}
        self.available, self.joined = True, None
        sim = self

        def is_available():
            return sim.available

        def is_initialized():
            return sim.joined is not None

        def get_rank(group=None):
            if not sim.available:
                raise RuntimeError("simulated: distributed package not available")
            if sim.joined is None:
                return sim.orig["get_rank"](group)       # raises like the real thing without a default group
            return sim.joined[0]

        def get_world_size(group=None):
            if not sim.available:
                raise RuntimeError("simulated: distributed package not available")
            if sim.joined is None:
                return sim.orig["get_world_size"](group)
            return sim.joined[1]

        dist.is_available, dist.is_initialized = is_available, is_initialized
        dist.get_rank, dist.get_world_size = get_rank, get_world_size


def make_preview(kind):
    import torch
    from . import samplers as S
    if kind == "weighted":
        from kappadata.samplers.weighted_sampler import WeightedSampler
        return WeightedSampler(list(range(5)), weights=torch.ones(5))
    if kind == "cb":
        from kappadata.samplers.class_balanced_sampler import ClassBalancedSampler
        return ClassBalancedSampler(S.ClassDataset([0, 1, 1, 0], 2))
    if kind == "semi":
        from kappadata.samplers.semi_sampler import SemiSampler
        return SemiSampler(S.ClassDataset([0, -1, 1, -1], 4))
    from kappadata.samplers.base.sampler_base import SamplerBase
    return SamplerBase()


def run_process(mode, case, script, tmpdir):
    """one process of a history -> list parallel to script (None | record)"""
    import datetime
    import torch.distributed as dist
    import kappadata.utils.distributed as kdd
    from . import samplers as S
    sim = SimGroup() if mode == "sim" else None
    out = []
    made = {}
    for step in script:
        op = step[0]
        rec = None
        try:
            if op == "init":
                if sim:
                    sim.joined = (step[1], step[2])
                else:
                    dist.init_process_group("gloo", init_method="file://%s/rdzv_%s" % (tmpdir, step[3]), rank=step[1],
                                            world_size=step[2], timeout=datetime.timedelta(seconds=60))
                    dist.barrier()       # every member is up before anybody goes on (and possibly leaves)
            elif op == "destroy":
                if sim:
                    sim.joined = None
                else:
                    dist.barrier()
                    dist.destroy_process_group()
            elif op == "avail":
                sim.available = bool(step[1])
            elif op == "query":
                v = getattr(kdd, step[1])()
                rec = {"value": bool(v) if step[1] == "is_distributed" else int(v)}
            elif op == "preview":
                s = make_preview(step[1])
                rec = {"len": None, "first": None}
                if step[1] != "base":
                    first = next(iter(s), None)
                    rec = {"len": int(len(s)), "first": None if first is None else int(first)}
            elif op == "build":
                rec = S.run_rank_guarded(case, step[1], step[2], epoch=step[3])
                if any(rec["result"].startswith(g) for g in GROUP_ERRORS):
                    rec["result"] = "GroupError"
            elif op == "make":
                made[step[3]] = S.SplitRun(case, step[1], step[2])
                _, ran_away = S.guarded(made[step[3]].make)
                if ran_away:
                    made[step[3]].failed = "RUNAWAY"
            elif op == "use":
                rec, ran_away = S.guarded(made[step[1]].use, step[2])
                if ran_away:
                    made[step[1]].failed = "RUNAWAY"
                    rec = dict(S.RUNAWAY_RANK)
                if any(rec["result"].startswith(g) for g in GROUP_ERRORS):
                    rec["result"] = "GroupError"
        except Exception as e:  # noqa
            rec = {"step_error": type(e).__name__ + ": " + str(e)[:300]}
        out.append(rec)
    if not sim and dist.is_initialized():
        try:
            dist.barrier()
            dist.destroy_process_group()
        except Exception:  # noqa
            pass
    return out


def child(mode, case, script, tmpdir, wfd, env=None):
    try:
        for k, v in (env or {}).items():      # what a launcher exported into this process
            if k in ENV_VARS:
                os.environ[k] = str(v)
        res = {"steps": run_process(mode, case, script, tmpdir)}
    except BaseException as e:  # noqa
        import traceback
        res = {"error": repr(e), "tb": traceback.format_exc()[-1500:]}
    try:
        data = json.dumps(res).encode()
        while data:
            n = os.write(wfd, data)
            data = data[n:]
    finally:
        os._exit(0)


# ---------------------------------------------------------------------------
# the pristine server
# ---------------------------------------------------------------------------
def handle(req):
    import select
    import shutil
    import signal
    import tempfile
    tmpdir = tempfile.mkdtemp(prefix="kdpg_")
    kids = {}
    try:
        for p, script in enumerate(req["scripts"]):
            rfd, wfd = os.pipe()
            pid = os.fork()
            if pid == 0:
                os.close(rfd)
                child(req["mode"], req["case"], script, tmpdir, wfd, (req.get("envs") or {}).get(str(p)))
            os.close(wfd)
            kids[rfd] = [p, pid, b""]
        results = [None] * len(req["scripts"])
        deadline = time.time() + req.get("timeout", PROC_TIMEOUT)
        open_fds = set(kids)
        while open_fds and time.time() < deadline:
            ready, _, _ = select.select(list(open_fds), [], [], 1.0)
            for fd in ready:
                b = os.read(fd, 1 << 16)
                if b:
                    kids[fd][2] += b
                else:
                    open_fds.discard(fd)
        for fd, (p, pid, data) in kids.items():
            if fd in open_fds:
                try:
                    os.kill(pid, signal.SIGKILL)
                except OSError:
                    pass
                results[p] = {"error": "process did not finish within the time limit"}
            else:
                try:
                    results[p] = json.loads(data.decode())
                except ValueError:
                    results[p] = {"error": "process died without a result"}
            os.close(fd)
            try:
                os.waitpid(pid, 0)
            except OSError:
                pass
        return {"procs": results}
    finally:
        shutil.rmtree(tmpdir, ignore_errors=True)


def serve():
    # the protocol owns the real stdout; anything printed by imported code goes to stderr
    proto = os.fdopen(os.dup(1), "w")
    os.dup2(2, 1)
    os.environ.setdefault("GLOO_SOCKET_IFNAME", "lo")
    from . import common
    common.setup_repo_path()
    import torch  # noqa: F401
    import torch.distributed  # noqa: F401
    import kappadata.samplers  # noqa: F401
    import kappadata.samplers.base.sampler_base  # noqa: F401
    import kappadata.utils.distributed  # noqa: F401
    from . import samplers  # noqa: F401
    proto.write(json.dumps({"ready": True}) + "\n")
    proto.flush()
    for line in sys.stdin:
        line = line.strip()
        if not line:
            continue
        try:
            resp = handle(json.loads(line))
        except Exception as e:  # noqa
            resp = {"error": repr(e)}
        proto.write(json.dumps(resp) + "\n")
        proto.flush()


# ---------------------------------------------------------------------------
# client side (the harness process)
# ---------------------------------------------------------------------------
_SERVER = {"p": None}


def _stop():
    p = _SERVER["p"]
    _SERVER["p"] = None
    if p is None:
        return
    try:
        p.stdin.close()
        p.wait(timeout=10)
    except Exception:  # noqa
        try:
            p.kill()
            p.wait(timeout=10)
        except Exception:  # noqa
            pass


def _server():
    p = _SERVER["p"]
    if p is not None and p.poll() is None:
        return p
    from . import common
    p = subprocess.Popen([sys.executable, "-m", "harness.pgroup"], stdin=subprocess.PIPE, stdout=subprocess.PIPE,
                         cwd=common.VERIF, text=True, bufsize=1)
    hello = p.stdout.readline()
    if not hello:
        raise RuntimeError("process-group server did not start")
    if _SERVER["p"] is None:
        atexit.register(_stop)
    _SERVER["p"] = p
    return p


def run_history(case, pg):
    """-> [ [None | record per step] per process ]  (or raises RuntimeError)"""
    scripts = expand(pg)
    p = _server()
    envs = {str(q): e for q, e in enumerate(pg.get("env") or []) if e}
    p.stdin.write(json.dumps({"mode": pg["mode"], "case": case, "scripts": scripts, "envs": envs}) + "\n")
    p.stdin.flush()
    line = p.stdout.readline()
    if not line:
        _stop()
        raise RuntimeError("process-group server died")
    resp = json.loads(line)
    if "error" in resp:
        raise RuntimeError("process-group server: " + resp["error"])
    return resp["procs"]


# ---------------------------------------------------------------------------
# histories: expansion per process, the state of every process before every step
# ---------------------------------------------------------------------------
def trace(pg):
    """-> per process: list parallel to steps of dict(avail, joined, events) = the state of the process and the events
    it went through BEFORE the step.  events: ["init", r, W] | ["destroy"] | ["avail", b] | ["query"]"""
    out = []
    for p in range(pg["procs"]):
        avail, joined, events, tr = True, None, [], []
        for step in pg["steps"]:
            tr.append({"avail": avail, "joined": joined, "events": list(events)})
            op = step[0]
            if op == "init":
                if step[1][p] is not None:
                    joined = (step[1][p], step[2])
                    events.append(["init", step[1][p], step[2]])
            elif op == "destroy":
                if joined is not None:
                    joined = None
                    events.append(["destroy"])
            elif op == "avail":
                avail = bool(step[1])
                events.append(["avail", avail])
            else:
                events.append(["query"])
        out.append(tr)
    return out


def expand(pg):
    """the script of every process"""
    scripts = []
    tr = trace(pg)
    for p in range(pg["procs"]):
        sc = []
        for k, step in enumerate(pg["steps"]):
            op = step[0]
            if op == "init":
                sc.append(["skip"] if step[1][p] is None else ["init", step[1][p], step[2], k])
            elif op == "destroy":
                sc.append(["destroy"] if tr[p][k]["joined"] is not None else ["skip"])
            else:
                sc.append(step)
        scripts.append(sc)
    return scripts


def uses(pg):
    """-> {index of a "use" step: (index of its "make" step, is it the first use of that sampler)}"""
    made, seen, out = {}, set(), {}
    for k, s in enumerate(pg["steps"]):
        if s[0] == "make":
            made[s[3]] = k
        elif s[0] == "use" and s[1] in made:
            out[k] = (made[s[1]], s[1] not in seen)
            seen.add(s[1])
    return out


def group_of(st):
    """(rank, world) torch.distributed shows in a state, None without a group"""
    return st["joined"] if st["avail"] and st["joined"] is not None else None


def resolve(kind, rank, world, st):
    """what the constructor arguments (None = default) mean in a state -> (rank, world) | None = the constructor
    raises (torch's DistributedSampler without a group / with a rank out of range)"""
    g = group_of(st)
    if kind == "dist":
        r = rank if rank is not None else (g[0] if g else None)
        w = world if world is not None else (g[1] if g else None)
        if r is None or w is None or not r < w:
            return None
        return (r, w)
    return (rank if rank is not None else (g[0] if g else 0), world if world is not None else (g[1] if g else 1))


def valid(kind, pg):
    """steps well-formed and every build inside the domain rank < world size"""
    tr = trace(pg)
    if not any(s[0] in ("build", "use") for s in pg["steps"]):
        return False
    ids = []
    for s in pg["steps"]:
        if s[0] == "make":
            if len(s) != 4 or s[3] in ids:
                return False
            ids.append(s[3])
        if s[0] == "use" and (len(s) != 3 or s[1] not in ids):
            return False
    if pg.get("env") is not None:
        if len(pg["env"]) != pg["procs"] or not all(isinstance(e, dict) and all(k in ENV_VARS and isinstance(v, str)
                                                                                  for k, v in e.items()) for e in pg["env"]):
            return False
    for p in range(pg["procs"]):
        for k, step in enumerate(pg["steps"]):
            st = tr[p][k]
            if step[0] == "init":
                members = sorted(r for r in step[1] if r is not None)
                if len(step[1]) != pg["procs"] or (step[1][p] is not None and st["joined"] is not None):
                    return False
                if pg["mode"] == "gloo" and (members != list(range(step[2])) or not members):
                    return False
                if pg["mode"] == "sim" and not (step[1][0] is not None and 0 <= step[1][0] < step[2]):
                    return False
            if step[0] == "destroy" and not any(tr[q][k]["joined"] is not None for q in range(pg["procs"])):
                return False
            if step[0] == "avail" and pg["mode"] != "sim":
                return False
            if step[0] in ("build", "make") and kind != "dist":
                r, w = resolve(kind, step[1], step[2], st)
                if not 0 <= r < w:
                    return False
            if step[0] in ("build", "make") and kind == "dist" and step[2] is not None and step[2] < 1:
                return False
    return True


# ---------------------------------------------------------------------------
# generation
# ---------------------------------------------------------------------------
def gen_env(rng, P):
    """the environment of every process of a history: a launcher's consistent view (RANK = some permutation of the
    processes or of a bigger job, WORLD_SIZE ...), inconsistent numbers, or no numbers at all"""
    q = rng.random()
    envs = []
    world = rng.choice([P, P, P + 1, 2, 4, 8, 1])
    names = rng.choice([("RANK", "WORLD_SIZE", "LOCAL_RANK", "LOCAL_WORLD_SIZE", "MASTER_ADDR", "MASTER_PORT"),
                        ("RANK", "WORLD_SIZE"), ("RANK",), ("SLURM_PROCID", "SLURM_NTASKS", "SLURM_LOCALID"),
                        ("RANK", "WORLD_SIZE", "LOCAL_RANK", "GROUP_RANK", "SLURM_PROCID", "SLURM_NTASKS",
                         "OMPI_COMM_WORLD_RANK", "OMPI_COMM_WORLD_SIZE", "PMI_RANK", "PMI_SIZE", "MASTER_ADDR")])
    shift = rng.choice([0, 1, 1, 2, 3])
    for p in range(P):
        env = {}
        for k in names:
            if k in ENV_RANKS:
                if q < 0.5:        # launcher-like: rank (p + shift) of a job
                    v = str(p + shift)
                elif q < 0.92:     # arbitrary, also >= the world size
                    v = str(rng.choice([0, 1, 1, 2, 3, 5, 7, 63]))
                else:
                    v = rng.choice(["", "x", "-1", "1.5"])
            elif k in ENV_WORLDS:
                v = str(world) if q < 0.5 else (str(rng.choice([0, 1, 2, 3, 4, 16])) if q < 0.92 else rng.choice(["", "all"]))
            else:
                v = {"MASTER_ADDR": rng.choice(["127.0.0.1", "node-17.invalid"]), "MASTER_PORT": rng.choice(["29500", "0"])}[k]
            env[k] = v
        envs.append(env)
    return envs


ENV_FRACTION = 0.5     # share of the generated histories that run under a launcher's environment
SPLIT_FRACTION = 0.6   # share of the generated histories in which builds are split into construct ... use


def split_builds(rng, steps, init_step):
    """builds -> ["make"] <the group changes> ["use"] <the group as it was>: constructed without a group and used
    after init (as whatever rank), constructed inside a group and used after destroy / as a member of the next group;
    sometimes nothing changes in between, sometimes the sampler is used a second time (there, or at the very end)"""
    out, tail, active, last_init, nid = [], [], False, None, 0
    for s in steps:
        if s[0] == "init":
            active, last_init = True, s
        elif s[0] == "destroy":
            active = False
        if s[0] != "build" or rng.random() < 0.4:
            out.append(s)
            continue
        q = rng.random()
        if q < 0.15:
            between, after = ([["query", rng.choice(QUERIES)]] if rng.random() < 0.5 else []), []
        elif not active:
            between, after = [init_step()], [["destroy"]]
        elif q < 0.55:
            between, after = [["destroy"]], [list(last_init)]
        else:
            between, after = [["destroy"], init_step()], [["destroy"], list(last_init)]
        out += [["make", s[1], s[2], nid]] + between + [["use", nid, s[3]]]
        if rng.random() < 0.25:
            out.append(["use", nid, rng.choice([s[3], 0, 1, 3])])
        out += after
        if rng.random() < 0.2:
            tail.append(["use", nid, rng.choice([s[3], 0, 2])])
        nid += 1
    return out + tail


def gen_pg(rng, kind, epoch, mode=None):
    """a history for a sampler of the given kind: 3..8 random steps, then (if missing) an init followed by a build
    with default arguments"""
    for _ in range(50):
        mode_ = mode or ("gloo" if rng.random() < 0.3 else "sim")
        P = 1 if mode_ == "sim" else rng.choice([2, 2, 3])
        e0 = epoch or 0

        def init_step():
            if mode_ == "sim":
                W = rng.choice([1, 2, 2, 3, 3, 4, 5, 7])
                return ["init", [rng.randrange(W)], W]
            k = rng.choice([P, P, P, rng.randint(1, P)])
            members = rng.sample(range(P), k)
            assign = [None] * P
            ranks = list(range(k))
            rng.shuffle(ranks)
            for m, r in zip(members, ranks):
                assign[m] = r
            return ["init", assign, k]

        def build_step():
            q = rng.random()
            e = rng.choice([e0, e0, 0, 1, 2])
            if q < 0.62:
                return ["build", None, None, e]
            if q < 0.80:
                W = rng.choice([1, 2, 3, 4, 5])
                return ["build", rng.randrange(W), W, e]
            if q < 0.90:
                return ["build", None, rng.choice([2, 3, 4, 5, 7]), e]
            return ["build", rng.choice([0, 0, 1, 2]), None, e]

        steps, active = [], False
        for _ in range(rng.randint(3, 8)):
            q = rng.random()
            if q < 0.24:
                steps.append(["destroy"] if active else init_step())
                active = not active
            elif q < 0.42:
                steps.append(["query", rng.choice(QUERIES)])
            elif q < 0.54:
                steps.append(["preview", rng.choice(PREVIEWS)])
            elif q < 0.60 and mode_ == "sim":
                steps.append(["avail", rng.random() < 0.5])
            else:
                steps.append(build_step())
        # an init followed (not necessarily directly) by a default build while the group is up
        ok, up = False, False
        for s in steps:
            if s[0] == "init":
                up = True
            elif s[0] == "destroy":
                up = False
            elif s[0] == "build" and up and s[1] is None and s[2] is None:
                ok = True
        if not ok:
            if mode_ == "sim":
                steps.append(["avail", True])
            if active:
                steps.append(["destroy"])
            steps += [init_step(), ["build", None, None, e0]]
        if rng.random() < SPLIT_FRACTION:
            steps = split_builds(rng, steps, init_step)
        pg = {"mode": mode_, "procs": P, "steps": steps}
        if rng.random() < ENV_FRACTION:
            pg["env"] = gen_env(rng, P)
            # ... under which a sampler with default arguments is built (and the rank asked) WITHOUT a group as well
            first_init = next((i for i, s in enumerate(steps) if s[0] == "init"), len(steps))
            if not any(s[0] == "build" and s[1] is None and s[2] is None for s in steps[:first_init]):
                steps.insert(rng.randint(0, first_init), ["build", None, None, e0])
            if rng.random() < 0.5:
                steps.insert(0, ["query", rng.choice(QUERIES)])
        # builds outside the domain (rank >= world size in some process) -> default arguments
        if not valid(kind, pg):
            pg["steps"] = [([s[0], None, None, s[3]] if s[0] in ("build", "make") and (s[1] is not None or s[2] is not None)
                            else s) for s in steps]
        if valid(kind, pg):
            return pg
    raise RuntimeError("no valid history generated")


def directed(kind, epoch):
    """the plain schedules: build after init; something asked / built before init; destroy and join another group"""
    e = epoch or 0
    yield {"mode": "sim", "procs": 1, "steps": [["init", [1], 2], ["build", None, None, e]]}
    for pre in (["query", "is_distributed"], ["query", "get_rank"], ["query", "get_world_size"], ["preview", "weighted"],
                ["preview", "semi"], ["build", None, None, e]):
        yield {"mode": "sim", "procs": 1, "steps": [pre, ["init", [2], 3], ["build", None, None, e]]}
    yield {"mode": "sim", "procs": 1, "steps": [["init", [1], 2], ["build", None, None, e], ["destroy"],
                                                ["build", None, None, e], ["init", [0], 3], ["build", None, None, e]]}
    yield {"mode": "sim", "procs": 1, "steps": [["init", [1], 2], ["build", 0, 2, e], ["build", 0, None, e]]}
    yield {"mode": "gloo", "procs": 2, "steps": [["preview", "cb"], ["init", [1, 0], 2], ["build", None, None, e]]}
    yield {"mode": "gloo", "procs": 3, "steps": [["init", [0, 1, 2], 3], ["build", None, None, e], ["destroy"],
                                                 ["init", [1, None, 0], 2], ["build", None, None, e]]}
    # constructed at one point of the history, used at another: what the defaults meant at construction stays
    yield {"mode": "sim", "procs": 1, "steps": [["make", None, None, 0], ["init", [1], 2], ["use", 0, e], ["destroy"],
                                                ["use", 0, e]]}
    yield {"mode": "sim", "procs": 1, "steps": [["init", [2], 3], ["make", None, None, 0], ["destroy"], ["use", 0, e],
                                                ["init", [0], 2], ["use", 0, 0]]}
    yield {"mode": "sim", "procs": 1, "steps": [["init", [0], 2], ["make", None, None, 0], ["make", 0, None, 1],
                                                ["make", None, 2, 2], ["destroy"], ["init", [2], 3], ["use", 0, e],
                                                ["use", 1, e], ["use", 2, e]]}
    yield {"mode": "gloo", "procs": 2, "steps": [["make", None, None, 0], ["init", [0, 1], 2], ["use", 0, e]]}
    yield {"mode": "gloo", "procs": 3, "steps": [["init", [2, 0, 1], 3], ["make", None, None, 0], ["destroy"],
                                                 ["init", [1, None, 0], 2], ["use", 0, e]]}
    # under a launcher's environment: no group (single-process script started through torchrun / srun; samplers built
    # before init_process_group), then a group whose values differ from the environment's
    torchrun = {"RANK": "1", "WORLD_SIZE": "4", "LOCAL_RANK": "1", "LOCAL_WORLD_SIZE": "4", "GROUP_RANK": "0",
                "MASTER_ADDR": "127.0.0.1", "MASTER_PORT": "29500"}
    yield {"mode": "sim", "procs": 1, "env": [torchrun], "steps": [["build", None, None, e]]}
    yield {"mode": "sim", "procs": 1, "env": [{"RANK": "3", "WORLD_SIZE": "2"}],
           "steps": [["query", "get_rank"], ["query", "get_world_size"], ["query", "is_distributed"], ["preview", "weighted"],
                     ["build", None, None, e], ["init", [0], 2], ["build", None, None, e], ["destroy"],
                     ["build", None, None, e]]}
    yield {"mode": "sim", "procs": 1, "env": [{"SLURM_PROCID": "2", "SLURM_NTASKS": "3", "SLURM_LOCALID": "2",
                                               "OMPI_COMM_WORLD_RANK": "2", "OMPI_COMM_WORLD_SIZE": "3", "PMI_RANK": "2",
                                               "PMI_SIZE": "3"}],
           "steps": [["build", None, None, e], ["build", None, 3, e], ["init", [1], 3], ["build", None, None, e]]}
    yield {"mode": "sim", "procs": 1, "env": [{"RANK": "2", "WORLD_SIZE": "1", "LOCAL_RANK": "x"}],
           "steps": [["avail", False], ["build", None, None, e], ["avail", True], ["build", None, None, e]]}
    yield {"mode": "gloo", "procs": 2, "env": [{**torchrun, "RANK": "0", "LOCAL_RANK": "0"}, dict(torchrun)],
           "steps": [["build", None, None, e], ["init", [1, 0], 2], ["build", None, None, e], ["destroy"],
                     ["build", None, None, e]]}


def shrink_pg(kind, pg):
    steps = pg["steps"]
    if pg.get("env") is not None:
        yield {k: v for k, v in pg.items() if k != "env"}
        for name in sorted({k for e in pg["env"] for k in e}):
            yield {**pg, "env": [{k: v for k, v in e.items() if k != name} for e in pg["env"]]}
    for i in range(len(steps) - 1, -1, -1):
        cand = {**pg, "steps": steps[:i] + steps[i + 1:]}
        if valid(kind, cand):
            yield cand
    for i in range(len(steps) - 2, -1, -1):          # init + destroy pairs (also with steps in between)
        for j in range(i + 1, min(len(steps), i + 4)):
            if {steps[i][0], steps[j][0]} == {"init", "destroy"}:
                cand = {**pg, "steps": steps[:i] + steps[i + 1:j] + steps[j + 1:]}
                if valid(kind, cand):
                    yield cand
    if pg["mode"] == "gloo":       # the same history as one simulated process sees it
        for p in range(pg["procs"]):
            sim_steps, joined = [], False
            for s in steps:
                if s[0] == "init":
                    if s[1][p] is not None:
                        sim_steps.append(["init", [s[1][p]], s[2]])
                        joined = True
                elif s[0] == "destroy":
                    if joined:
                        sim_steps.append(["destroy"])
                        joined = False
                else:
                    sim_steps.append(s)
            cand = {"mode": "sim", "procs": 1, "steps": sim_steps}
            if pg.get("env") is not None:
                cand["env"] = [pg["env"][p]]
            if valid(kind, cand):
                yield cand
    for k, (m, first) in sorted(uses(pg).items()):
        if first and sum(1 for s in steps if s[0] == "use" and s[1] == steps[k][1]) == 1:
            # constructed and used in one go where it was used / where it was constructed
            for at in (k, m):
                cand_steps = [(["build", steps[m][1], steps[m][2], steps[k][2]] if i == at else s)
                              for i, s in enumerate(steps) if i == at or i not in (k, m)]
                cand = {**pg, "steps": cand_steps}
                if valid(kind, cand):
                    yield cand
    for i, s in enumerate(steps):
        if s[0] == "build" and s[3] != 0:
            yield {**pg, "steps": steps[:i] + [s[:3] + [0]] + steps[i + 1:]}
        if s[0] == "use" and s[2] != 0:
            yield {**pg, "steps": steps[:i] + [s[:2] + [0]] + steps[i + 1:]}
        if s[0] == "init" and pg["mode"] == "sim" and s[2] > 2:
            cand = {**pg, "steps": steps[:i] + [["init", [min(s[1][0], 1)], 2]] + steps[i + 1:]}
            if valid(kind, cand):
                yield cand


# ---------------------------------------------------------------------------
# running a case's history, the reference runs, the oracle
# ---------------------------------------------------------------------------
def run_pg(case, pg, ref_run):
    """-> {"procs": [...], "refs": {"p,k": reference record}}: every build step next to the record of the same sampler
    built in the harness process (no process group) with the EXPLICIT rank / world size the arguments mean"""
    kind = case["kind"]
    try:
        procs = run_history(case, pg)
    except RuntimeError as e:
        return {"error": str(e), "procs": [], "refs": {}}
    refs, cache = {}, {}
    tr = trace(pg)
    us = uses(pg)
    for p in range(pg["procs"]):
        for k, step in enumerate(pg["steps"]):
            if step[0] == "build":
                rw, e = resolve(kind, step[1], step[2], tr[p][k]), step[3]
            elif step[0] == "use":          # what the arguments meant where the sampler was CONSTRUCTED
                m = us[k][0]
                rw, e = resolve(kind, pg["steps"][m][1], pg["steps"][m][2], tr[p][m]), step[2]
            else:
                continue
            if rw is None:
                continue
            key = (rw[0], rw[1], e)
            if key not in cache:
                cache[key] = ref_run(case, rw[0], rw[1], epoch=e)
            refs["%d,%d" % (p, k)] = cache[key]
    return {"procs": procs, "refs": refs}


def same_run(a, b):
    return (a["result"] == b["result"] and a["len"] == b["len"] and a["stream"] == b["stream"]
            and a["seeds"] == b["seeds"] and a["draws"] == b["draws"]
            and [v for _, v in a["random_"]] == [v for _, v in b["random_"]])


def describe(pg, p, k):
    tr = trace(pg)[p][k]
    g = group_of(tr)
    where = ("joined as rank %d of %d" % g) if g else "without a process group"
    env = (pg.get("env") or [{}] * pg["procs"])[p]
    if env:
        where += "; environment of the process: " + json.dumps(env, sort_keys=True)
    return ("%s history %s, process %d, step %d (%s; %s)"
            % (pg["mode"], json.dumps(pg["steps"][:k + 1]), p, k, json.dumps(pg["steps"][k]), where))


def oracle_pg(case, pg, obs):
    if obs.get("error"):
        return "process-group history could not be run: " + obs["error"]
    kind = case["kind"]
    tr = trace(pg)
    us = uses(pg)
    if len(obs["procs"]) != pg["procs"]:
        return "process-group history: %d of %d processes reported" % (len(obs["procs"]), pg["procs"])
    for p, proc in enumerate(obs["procs"]):
        if "error" in proc:
            return "process-group history %s: process %d: %s %s" % (json.dumps(pg["steps"]), p, proc["error"],
                                                                    proc.get("tb", ""))
        for k, (step, rec) in enumerate(zip(pg["steps"], proc["steps"])):
            st = tr[p][k]
            g = group_of(st)
            if rec is not None and "step_error" in rec:
                return "%s fails: %s" % (describe(pg, p, k), rec["step_error"])
            if step[0] == "query":
                want = {"is_distributed": g is not None, "get_rank": g[0] if g else 0,
                        "get_world_size": g[1] if g else 1}[step[1]]
                if rec["value"] != want:
                    return "%s: kappadata.utils.distributed.%s() = %r, expected %r" % (describe(pg, p, k), step[1],
                                                                                       rec["value"], want)
            elif step[0] == "preview" and step[1] in PREVIEW_E:
                want = PREVIEW_E[step[1]] // (g[1] if g else 1)
                if rec["len"] != want:
                    return ("%s: len of a %s sampler with default arguments = %r, expected effective_length // world "
                            "size = %d" % (describe(pg, p, k), step[1], rec["len"], want))
            elif step[0] == "build":
                rw = resolve(kind, step[1], step[2], st)
                if rw is None:
                    if rec["result"] != "GroupError":
                        return ("%s: the constructor must raise (no process group to take the default from / rank out "
                                "of range), got %s" % (describe(pg, p, k), rec["result"]))
                    continue
                ref = obs["refs"]["%d,%d" % (p, k)]
                if not same_run(rec, ref):
                    return ("%s: sampler built with rank=%s, world_size=%s shows len %s, stream %s (%s), generator "
                            "seeds %s; the sampler built with explicit rank=%d, world_size=%d shows len %s, stream %s "
                            "(%s), generator seeds %s"
                            % (describe(pg, p, k), step[1], step[2], rec["len"], rec["stream"], rec["result"],
                               rec["seeds"], rw[0], rw[1], ref["len"], ref["stream"], ref["result"], ref["seeds"]))
            elif step[0] == "use":
                m, first = us[k]
                mk = pg["steps"][m]
                rw = resolve(kind, mk[1], mk[2], tr[p][m])
                gm = group_of(tr[p][m])
                built = ("constructed at step %d (%s) with rank=%s, world_size=%s"
                         % (m, ("joined as rank %d of %d" % gm) if gm else "without a process group", mk[1], mk[2]))
                if rw is None:
                    if rec["result"] != "GroupError":
                        return ("%s: sampler %s: the constructor must raise (no process group to take the default from "
                                "/ rank out of range), got %s" % (describe(pg, p, k), built, rec["result"]))
                    continue
                ref = obs["refs"]["%d,%d" % (p, k)]
                # the first use carries the events of the construction like the reference run; later uses of the same
                # object are compared by what they show (len, stream, outcome)
                same = same_run(rec, ref) if first else (rec["result"] == ref["result"] and rec["len"] == ref["len"]
                                                         and rec["stream"] == ref["stream"])
                if not same:
                    return ("%s: sampler %s, used here (set_epoch(%d), len, list) shows len %s, stream %s (%s), "
                            "generator seeds %s; what the arguments meant at construction is rank=%d, world_size=%d, and "
                            "the sampler built with these explicitly shows len %s, stream %s (%s), generator seeds %s"
                            % (describe(pg, p, k), built, step[2], rec["len"], rec["stream"], rec["result"],
                               rec["seeds"], rw[0], rw[1], ref["len"], ref["stream"], ref["result"], ref["seeds"]))
    return None


def builds(pg, obs):
    """(process, step index, step, events before, record) of every build that ran"""
    tr = trace(pg)
    us = uses(pg)
    for p, proc in enumerate(obs.get("procs", [])):
        if "steps" not in proc:
            continue
        for k, (step, rec) in enumerate(zip(pg["steps"], proc["steps"])):
            if step[0] == "build" and rec is not None and "step_error" not in rec:
                yield p, k, step, tr[p][k]["events"], rec
            elif step[0] == "use" and rec is not None and "step_error" not in rec and us[k][1]:
                # constructed at step m, first used here: a build with the events BEFORE THE CONSTRUCTION
                m = us[k][0]
                yield p, k, ["build", pg["steps"][m][1], pg["steps"][m][2], step[2]], tr[p][m]["events"], rec


def coq_events(events):
    from .common import C, Nat, Raw
    out = []
    for ev in events:
        if ev[0] == "init":
            out.append(C("EvInit", Nat(ev[1]), Nat(ev[2])))
        elif ev[0] == "destroy":
            out.append(Raw("EvDestroy"))
        elif ev[0] == "avail":
            out.append(C("EvAvailable", bool(ev[1])))
        else:
            out.append(Raw("EvQuery"))
    return Raw("[" + "; ".join(str(x) for x in out) + "]")


def coq_pgs(pg, obs, coq_rank, codes):
    """list of C1x.Check.pg_rec terms"""
    from .common import Nat, Opt, Raw, coq
    out = []
    for p, k, step, events, rec in builds(pg, obs):
        if rec["result"] not in codes:
            continue
        out.append(Raw(coq((coq_events(events), Opt(None if step[1] is None else Nat(step[1])),
                            Opt(None if step[2] is None else Nat(step[2])), int(step[3]), Raw(coq(coq_rank(rec)))))))
    return out


def features_pg(pg, obs):
    yield "pg:mode=" + pg["mode"]
    envs = [e for e in (pg.get("env") or []) if e]
    yield "pg:launcher environment=%s" % bool(envs)
    if envs:
        tr0 = trace(pg)
        for p, e in enumerate(pg["env"]):
            for k, s in enumerate(pg["steps"]):
                if s[0] == "build" and s[1] is None and s[2] is None and e:
                    yield "pg:env:default build %s a group" % ("inside" if group_of(tr0[p][k]) else "WITHOUT")
        yield "pg:env:RANK=%s" % ("unset" if "RANK" not in envs[0] else ("0" if envs[0]["RANK"] == "0" else
                                  (">0" if envs[0]["RANK"].isdigit() else "not a number")))
    steps = pg["steps"]
    first_init = next((i for i, s in enumerate(steps) if s[0] == "init"), len(steps))
    yield "pg:asked or built before the first init=%s" % any(s[0] in ("query", "preview", "build") for s in steps[:first_init])
    yield "pg:inits=%d" % min(3, sum(1 for s in steps if s[0] == "init"))
    yield "pg:destroy=%s" % any(s[0] == "destroy" for s in steps)
    for s in steps:
        if s[0] == "build":
            yield "pg:build rank=%s,world=%s" % ("None" if s[1] is None else "given", "None" if s[2] is None else "given")
    tr1 = trace(pg)
    for k, (m, first) in uses(pg).items():
        a, b = group_of(tr1[0][m]), group_of(tr1[0][k])
        yield ("pg:constructed %s, %s %s" % ("in a group" if a else "without group", "first used" if first else "used again",
                                              "in the same state" if a == b else
                                              ("without group" if b is None else
                                               ("in a group" if a is None else "in ANOTHER group / as another rank"))))
        yield "pg:%s: construct-then-use args rank=%s,world=%s" % (pg["mode"], "None" if steps[m][1] is None else "given",
                                                                   "None" if steps[m][2] is None else "given")
    if pg["mode"] == "gloo":
        yield "pg:gloo processes=%d" % pg["procs"]
    for _, _, _, _, rec in builds(pg, obs):
        yield "pg:build result=" + rec["result"].split(":")[0]


# ---------------------------------------------------------------------------
# structural check of kappadata/utils/distributed.py (run-time inspection, no translator)
# ---------------------------------------------------------------------------
def inspect_distributed():
    """-> list of remarks: functions of kappadata.utils.distributed that are caching wrappers, module-level mutable
    containers (a place to remember an answer in)"""
    import types
    import kappadata.utils.distributed as kdd
    bad = []
    for name, v in sorted(vars(kdd).items()):
        if name.startswith("__") or isinstance(v, types.ModuleType):
            continue
        f, depth = v, 0
        while f is not None and depth < 10:
            if hasattr(f, "cache_info") or hasattr(f, "cache_clear") or hasattr(f, "cache"):
                bad.append("%s is a caching wrapper (%s)" % (name, type(f).__name__))
                break
            f, depth = getattr(f, "__wrapped__", None), depth + 1
        if isinstance(v, (dict, list, set, bytearray)):
            bad.append("module-level mutable %s %s" % (type(v).__name__, name))
        elif callable(v) and getattr(v, "__module__", None) == kdd.__name__ and not isinstance(v, (types.FunctionType, type)):
            bad.append("%s is a %s, not a plain function" % (name, type(v).__name__))
        if isinstance(v, types.FunctionType) and v.__closure__:
            bad.append("%s is a closure (may remember an answer)" % name)
    return bad


if __name__ == "__main__":
    serve()
