(* C18 — collator pipeline keeps the batch layout and context contract.
   Statements only; proofs are in Proofs.v.  All theorems speak about the model of the
   REPAIRED code (fixes/C18_*.patch applied). *)
From Coq Require Import ZArith List Bool.
Import ListNotations.
From KD Require Import C18.Model C18.Spec C18.Proofs.
Open Scope Z_scope.

(* For every list of members (any modes, any collate functions, also failing runs),
   any input: the batch is default-collated at most once. *)
Theorem default_collate_at_most_once :
  forall rc ms b, (count_dc (fst (call_impl rc ms b)) <= 1)%nat.
Proof. exact at_most_once. Qed.
Print Assumptions default_collate_at_most_once.

(* A call that returns had its modes ordered None* [(Before|After) Before*] and performed
   exactly the specified operations in the specified order: every member called once in
   order, DefaultCollate once — right before the first "before" member or right after the
   first "after" member — iff some member asks for it, contexts split/unpacked once. *)
Theorem default_collate_exactly_once_where_asked :
  forall rc ms b t bo xo,
    call_impl rc ms b = (t, Ok bo xo) ->
    well_ordered (map mmode ms) = true /\
    t = spec_trace rc (map mmode ms) /\
    count_dc t = (if all_none (map mmode ms) then 0 else 1)%nat.
Proof. exact exactly_once_where_asked. Qed.
Print Assumptions default_collate_exactly_once_where_asked.

Theorem returns_ctx_iff_configured :
  forall rc ms b t bo xo, call_impl rc ms b = (t, Ok bo xo) -> (xo <> None <-> rc = true).
Proof. exact ctx_iff_configured. Qed.
Print Assumptions returns_ctx_iff_configured.

(* members that do not touch the context: the returned context is exactly the collation of
   the per-sample contexts — same keys (those of the samples), same values *)
Theorem ctx_keys_preserved :
  forall m ms c0 l t bo xo,
    Forall keeps_ctx (m :: ms) ->
    call_impl true (m :: ms) (BRaw (c0 :: l)) = (t, Ok bo xo) ->
    xo = collate_ctx (map snd (c0 :: l)) /\
    exists x, xo = Some x /\ keys x = map fst (snd c0).
Proof. exact ctx_keys_exact. Qed.
Print Assumptions ctx_keys_preserved.

(* members that only add keys (e.g. a mask collator): no sample key is lost *)
Theorem ctx_keys_not_lost :
  forall m ms l t bo xo,
    Forall extends_ctx (m :: ms) ->
    call_impl true (m :: ms) (BRaw l) = (t, Ok bo xo) ->
    exists x0 x', collate_ctx (map snd l) = Some x0 /\ xo = Some x' /\ incl (keys x0) (keys x').
Proof. exact ctx_keys_kept. Qed.
Print Assumptions ctx_keys_not_lost.

(* layout: with members that keep the layout they are given, the result has the layout of
   the dataset mode — n entries in mode order over B samples, collated iff some member asks
   for collation — and no context is left inside the batch *)
Theorem layout_preserved :
  forall n B rc ms b t bo xo,
    ms <> [] -> raw_input n B rc b -> Forall (keeps_layout n B) ms ->
    call_impl rc ms b = (t, Ok bo xo) ->
    has_layout n B (negb (all_none (map mmode ms))) bo.
Proof. exact call_layout. Qed.
Print Assumptions layout_preserved.

(* padding collator: every field, position by position: sequences = original ++ zeros up to
   the batch maximum (attained by some row), all rows equally long; other fields as default
   collation *)
Theorem pad_to_batch_max_with_zeros :
  forall s0 l cs,
    pad_items (s0 :: l) = Some cs ->
    length cs = length s0 /\
    forall i, (i < length s0)%nat ->
      exists col out, column i (s0 :: l) = Some col /\ nth_error cs i = Some out /\ padded_field col out.
Proof. exact pad_items_fieldwise. Qed.
Print Assumptions pad_to_batch_max_with_zeros.

Theorem pad_other_fields_as_default :
  forall z col out, pad_col (FScalar z :: col) = Some out -> collate_col (FScalar z :: col) = Some out.
Proof. exact pad_scalar_as_default. Qed.
Print Assumptions pad_other_fields_as_default.

(* the same through the pipeline, with and without per-sample contexts *)
Theorem pad_with_and_without_ctx :
  (forall l t bo xo, call_impl true [pad_member] (BRaw l) = (t, Ok bo xo) ->
     exists c, pad_items (map fst l) = Some c /\ bo = BColl c /\ xo = collate_ctx (map snd l)) /\
  (forall l t bo xo, call_impl false [pad_member] (BItems l) = (t, Ok bo xo) ->
     exists c, pad_items l = Some c /\ bo = BColl c /\ xo = None).
Proof. exact pad_pipelines. Qed.
Print Assumptions pad_with_and_without_ctx.

(* ---- non-vacuity and the defects of the old code ---- *)
Definition ex_items : list (list field) := [[FScalar 0; FSeq [5; 6]]; [FScalar 1; FSeq [7]]].
Definition ex_raw : batch := BRaw [([FScalar 0; FSeq [5; 6]], [(1, 10)]); ([FScalar 1; FSeq [7; 8]], [(1, 11)])].

(* successful runs exist for [After; Before] (with ctx) and [None; Before] (with ctx) *)
Example ok_after_before :
  call_impl true [id_member MAfter; id_member MBefore] ex_raw =
  ([SplitCtx; CollateCtx; Call 0; DefaultCollate; Call 1],
   Ok (BColl [CVec [0; 1]; CMat [[5; 6]; [7; 8]]]) (Some [(1, [10; 11])])).
Proof. vm_compute. reflexivity. Qed.
Example ok_none_before :
  snd (call_impl true [id_member MNone; id_member MBefore] ex_raw) =
  Ok (BColl [CVec [0; 1]; CMat [[5; 6]; [7; 8]]]) (Some [(1, [10; 11])]).
Proof. vm_compute. reflexivity. Qed.
(* D22 on the old code: [After; Before] default-collates twice *)
Example at_most_once_refuted_on_old_code :
  count_dc (fst (call_impl_old true [id_member MAfter; id_member MBefore] ex_raw)) = 2%nat.
Proof. vm_compute. reflexivity. Qed.
(* old code: [None; Before] with contexts fails to unpack *)
Example none_before_ctx_refuted_on_old_code :
  snd (call_impl_old true [id_member MNone; id_member MBefore] ex_raw) = Fail EUnpack.
Proof. vm_compute. reflexivity. Qed.
(* padding *)
Example pad_example :
  call_impl false [pad_member] (BItems ex_items) =
  ([Call 0], Ok (BColl [CVec [0; 1]; CMat [[5; 6]; [7; 0]]]) None).
Proof. vm_compute. reflexivity. Qed.
Example layout_premises_satisfiable :
  raw_input 2 2 true ex_raw /\ Forall (keeps_layout 2 2) [id_member MAfter; id_member MBefore].
Proof.
  split.
  - simpl. split; [reflexivity|]. split; [reflexivity|]. repeat constructor.
  - repeat constructor; intros b x b' x' c H Hl; simpl in H; inversion H; subst; exact Hl.
Qed.
