(* Proofs for C13, part 4: what the length modes of SemiSampler mean.  With one
   rank, "labeled" visits every labeled sample at most once and all but fewer
   than L of them; "unlabeled" likewise for the unlabeled samples. *)
From Coq Require Import ZArith List Bool Arith Lia Permutation.
Import ListNotations.
From KD Require Import C12.Model C12.Spec C12.Proofs C13.Model C13.Spec C13.ProofsCB C13.ProofsSemi.

Section Count.
  Context {A : Type}.
  Variable f : A -> bool.

  Lemma filter_all_true : forall l, (forall x, In x l -> f x = true) -> filter f l = l.
  Proof.
    induction l as [|a l IH]; intro H; auto. simpl. rewrite (H a (or_introl eq_refl)). f_equal.
    apply IH. intros x Hx. apply H. right. auto.
  Qed.

  Lemma filter_all_false : forall l, (forall x, In x l -> f x = false) -> filter f l = [].
  Proof.
    induction l as [|a l IH]; intro H; auto. simpl. rewrite (H a (or_introl eq_refl)).
    apply IH. intros x Hx. apply H. right. auto.
  Qed.

  Lemma filter_partition_length : forall l, length (filter f l) + length (filter (fun x => negb (f x)) l) = length l.
  Proof. induction l as [|a l IH]; auto. simpl. destruct (f a); simpl; lia. Qed.

  Lemma nth_error_skipn : forall n (l : list A) j, nth_error (skipn n l) j = nth_error l (n + j).
  Proof.
    induction n as [|n IH]; intros l j; auto. destruct l as [|a l]; simpl.
    - destruct j; reflexivity.
    - apply IH.
  Qed.

  (* one chunk: L entries satisfy f, then U do not *)
  Lemma chunk_count : forall L U t, length t = L + U ->
      (forall i x, nth_error t i = Some x -> f x = (i <? L)) -> length (filter f t) = L.
  Proof.
    intros L U t Hlen H. rewrite <- (firstn_skipn L t), filter_app, app_length.
    rewrite filter_all_true, filter_all_false.
    - rewrite firstn_length. simpl. lia.
    - intros x Hx. apply In_nth_error in Hx. destruct Hx as [j Hj]. rewrite nth_error_skipn in Hj.
      rewrite (H _ _ Hj). apply Nat.ltb_ge. lia.
    - intros x Hx. apply In_nth_error in Hx. destruct Hx as [j Hj]. rewrite nth_error_firstn in Hj.
      destruct (Nat.ltb_spec j L); [|discriminate]. rewrite (H _ _ Hj). apply Nat.ltb_lt. auto.
  Qed.

  (* q chunks *)
  Lemma chunks_count : forall L U, 1 <= L + U -> forall q s, length s = q * (L + U) ->
      (forall i x, nth_error s i = Some x -> f x = (i mod (L + U) <? L)) -> length (filter f s) = q * L.
  Proof.
    intros L U HLU. induction q as [|q IH]; intros s Hlen H.
    - destruct s; simpl in *; [reflexivity|lia].
    - rewrite <- (firstn_skipn (L + U) s), filter_app, app_length.
      rewrite (chunk_count L U (firstn (L + U) s)).
      + rewrite IH; [simpl; lia| |].
        * rewrite skipn_length. simpl in Hlen. lia.
        * intros i x Hx. rewrite nth_error_skipn in Hx. rewrite (H _ _ Hx).
          replace (L + U + i) with (i + 1 * (L + U)) by lia. rewrite Nat.mod_add by lia. reflexivity.
      + rewrite firstn_length. simpl in Hlen. lia.
      + intros i x Hx. rewrite nth_error_firstn in Hx. destruct (Nat.ltb_spec i (L + U)); [|discriminate].
        rewrite (H _ _ Hx). rewrite Nat.mod_small by auto. reflexivity.
  Qed.
End Count.

(* no more picks than the pool has elements: nothing is picked twice *)
Lemma blocks_short_NoDup : forall pool picks, pool <> [] -> NoDup pool -> blocks_exhaust pool picks ->
    length picks <= length pool -> NoDup picks.
Proof.
  intros pool picks Hne Hnd (Hb & Ht & _) Hle.
  assert (1 <= length pool) as Hk by (destruct pool; simpl; [congruence|lia]).
  destruct (Nat.eq_dec (length picks) (length pool)) as [e|ne].
  - assert ((0 + 1) * length pool <= length picks) as H0 by lia.
    specialize (Hb 0 H0). unfold block in Hb. simpl in Hb. rewrite <- e, firstn_all in Hb.
    apply (Permutation_NoDup (Permutation_sym Hb)). exact Hnd.
  - rewrite Nat.div_small in Ht by lia. simpl in Ht. exact Ht.
Qed.

Lemma semi_one_rank_counts : forall c rs es draw rank s, perm_oracle draw -> semi_ctor_ok c = true -> se_W c = 1 ->
    r_out (semi_run c rs es draw rank) = Ok s ->
    exists q, semi_E c = q * (se_L c + se_U c) /\
      length (labeled_picks (se_classes c) s) = q * se_L c /\
      length (unlabeled_picks (se_classes c) s) = q * se_U c.
Proof.
  intros c rs es draw rank s Hd Hc HW Hs.
  destruct (semi_epoch c rs es draw rank Hd Hc) as (s' & E1 & L1 & L2 & Halt & _).
  rewrite Hs in E1. inversion E1; subst s'. clear E1.
  destruct (semi_ctor_pools c Hc) as (_ & _ & HL & HU & _).
  assert (length s = semi_E c) as Hlen.
  { rewrite L1, L2. unfold semi_len. rewrite HW. apply Nat.div_1_r. }
  unfold semi_E in *. set (q := match se_mode c with MLabeled => _ | MUnlabeled => _ | MAll => _ | MOther => _ end) in *.
  exists q. split; auto.
  assert (length (labeled_picks (se_classes c) s) = q * se_L c) as Hl.
  { unfold labeled_picks. apply (chunks_count _ (se_L c) (se_U c)); auto; [lia|].
    intros i x Hx. apply Halt. exact Hx. }
  split; auto.
  pose proof (filter_partition_length (labeled (se_classes c)) s) as Hp.
  fold (labeled_picks (se_classes c) s) in Hp. fold (unlabeled_picks (se_classes c) s) in Hp. nia.
Qed.

(* length_mode = "labeled", one rank: every labeled sample at most once, all but fewer than L of them *)
Lemma labeled_mode_once : forall c rs es draw rank s, perm_oracle draw -> semi_ctor_ok c = true -> se_W c = 1 ->
    se_mode c = MLabeled -> r_out (semi_run c rs es draw rank) = Ok s ->
    let picks := labeled_picks (se_classes c) s in
    let nl := length (labeled_pool (se_classes c)) in
    NoDup picks /\ length picks <= nl /\ nl - length picks < se_L c.
Proof.
  intros c rs es draw rank s Hd Hc HW Hm Hs picks nl.
  destruct (semi_one_rank_counts c rs es draw rank s Hd Hc HW Hs) as (q & HE & Hl & _).
  destruct (semi_ctor_pools c Hc) as (Hne & _ & HL & HU & _).
  unfold semi_E in HE. rewrite Hm, labeled_idxs_pool in HE. fold nl in HE.
  assert (q = nl / se_L c) as -> by nia.
  pose proof (floor_div_bounds nl (se_L c) HL) as [Hb1 Hb2]. fold picks in Hl.
  assert (length picks <= nl) by lia. split; [|lia].
  destruct (semi_epoch c rs es draw rank Hd Hc) as (s' & E1 & _ & _ & _ & _ & _ & Hbl & _).
  rewrite Hs in E1. inversion E1; subst s'.
  apply (blocks_short_NoDup (labeled_pool (se_classes c))); auto.
  - rewrite <- labeled_idxs_pool. exact Hne.
  - apply NoDup_filter, seq_NoDup.
Qed.

Lemma unlabeled_mode_once : forall c rs es draw rank s, perm_oracle draw -> semi_ctor_ok c = true -> se_W c = 1 ->
    se_mode c = MUnlabeled -> r_out (semi_run c rs es draw rank) = Ok s ->
    let picks := unlabeled_picks (se_classes c) s in
    let nu := length (unlabeled_pool (se_classes c)) in
    NoDup picks /\ length picks <= nu /\ nu - length picks < se_U c.
Proof.
  intros c rs es draw rank s Hd Hc HW Hm Hs picks nu.
  destruct (semi_one_rank_counts c rs es draw rank s Hd Hc HW Hs) as (q & HE & _ & Hu).
  destruct (semi_ctor_pools c Hc) as (_ & Hne & HL & HU & _).
  unfold semi_E in HE. rewrite Hm, unlabeled_idxs_pool in HE. fold nu in HE.
  assert (q = nu / se_U c) as -> by nia.
  pose proof (floor_div_bounds nu (se_U c) HU) as [Hb1 Hb2]. fold picks in Hu.
  assert (length picks <= nu) by lia. split; [|lia].
  destruct (semi_epoch c rs es draw rank Hd Hc) as (s' & E1 & _ & _ & _ & _ & _ & _ & Hbu & _).
  rewrite Hs in E1. inversion E1; subst s'.
  apply (blocks_short_NoDup (unlabeled_pool (se_classes c))); auto.
  - rewrite <- unlabeled_idxs_pool. exact Hne.
  - apply NoDup_filter, seq_NoDup.
Qed.
