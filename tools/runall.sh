#!/bin/bash
# tools/runall.sh [tier] [P]  — runs every claimed check (P at a time), prints the summary line + VIOLATION / KNOWN-FINDING lines
cd "$(dirname "$0")/.."
tier=${1:-quick}; P=${2:-4}
ids=$(python3 -c "import json;print(' '.join(c['property_id'] for c in json.load(open('MANIFEST.json'))['checks']))")
mkdir -p /tmp/runall
echo $ids | tr ' ' '\n' | xargs -P $P -I{} sh -c "./check {} --tier $tier > /tmp/runall/{}.log 2>&1; echo {} rc=\$? \$(tail -1 /tmp/runall/{}.log | cut -c1-200)"
grep -h '^VIOLATION\|^KNOWN-FINDING' /tmp/runall/*.log | cut -c1-300
