(* Implementation model of kappadata/wrappers/mode_wrapper.py (ModeWrapper.__init__,
   __getitem__, __iter__, __len__, has_item/add_item/get_item_index/get_item/set_item)
   and kappadata/wrappers/torch_wrapper.py (TorchWrapper.__getattr__/_getitem).
   The dataset stack under the ModeWrapper (kd_dataset.py / kd_wrapper.py attribute
   delegation) is abstracted into the record [stack]: what `dataset.fused_operations`,
   `dataset.requires_propagate_ctx`, `len(dataset)`, `hasattr(type(dataset), "getitem_"+s)`,
   `hasattr(dataset, "getitem_"+s)` and `getattr(dataset, "getitem_"+s)(idx, ctx)` answer.
   Mirrors the code statement by statement; no proofs here. *)
From Coq Require Import ZArith List Bool String Ascii.
Import ListNotations.
Open Scope Z_scope.

(* ---------- Python list operations ---------- *)
Section ListOps.
  Context {A : Type} (eqb : A -> A -> bool).
  (* l.index(x); None = ValueError *)
  Fixpoint index_of (x : A) (l : list A) : option nat :=
    match l with
    | [] => None
    | y :: r => if eqb x y then Some O else option_map S (index_of x r)
    end.
  (* x in l *)
  Definition mem (x : A) (l : list A) : bool := existsb (eqb x) l.
  (* len(set(l)) == len(l) *)
  Fixpoint nodupb (l : list A) : bool :=
    match l with [] => true | x :: r => negb (mem x r) && nodupb r end.
End ListOps.

(* l[n] = v (no-op when out of range; the code never writes out of range) *)
Fixpoint set_nth {A} (n : nat) (v : A) (l : list A) : list A :=
  match l, n with
  | [], _ => []
  | _ :: r, O => v :: r
  | y :: r, S n' => y :: set_nth n' v r
  end.

Definition oeqb (a b : option string) : bool :=
  match a, b with
  | Some x, Some y => String.eqb x y
  | None, None => true
  | _, _ => false
  end.

(* mode.split(" ") *)
Fixpoint split_space (s : string) : list string :=
  match s with
  | EmptyString => [EmptyString]
  | String c r =>
      if Ascii.eqb c " "%char then EmptyString :: split_space r
      else match split_space r with
           | [] => [String c EmptyString]
           | h :: t => String c h :: t
           end
  end.

(* what a composed getitem function is: _getitem_index, partial(_getitem_from_ctx, ctx_key=k),
   or getattr(dataset, "getitem_" + s) *)
Inductive item := Index | Ctx (k : string) | Named (s : string).

Definition classify (s : string) : item :=
  if String.eqb s "index" then Index
  else if prefix "ctx." s then Ctx (substring 4 (String.length s - 4)%nat s)
  else Named s.

Definition is_ctx (f : item) : bool := match f with Ctx _ => true | _ => false end.

(* fused_to_idxs entry: an int (plain item) or a list of positions (fused item) *)
Inductive slot := Plain (i : nat) | Fused (idxs : list nat).
(* (fused_items[k], fused_to_idxs[k]) *)
Definition entry : Type := string * slot.

(* ---------- fused-group detection of the constructor ---------- *)
(* for op in fused_ops: idx = temp_items.index(op); temp_items[idx] = None; idxs.append(idx)
   (None = ValueError of .index) *)
Fixpoint consume (ops : list string) (temp : list (option string))
  : option (list (option string) * list nat) :=
  match ops with
  | [] => Some (temp, [])
  | op :: r =>
      match index_of oeqb (Some op) temp with
      | None => None
      | Some idx =>
          match consume r (set_nth idx None temp) with
          | None => None
          | Some (t, l) => Some (t, idx :: l)
          end
      end
  end.

(* the inner `for fused_ops in fused_operations` loop for one item: which group
   breaks out of it (Fire), or the else-branch (NoFire); TryErr = fused_ops[0] of an
   empty group (IndexError) *)
Inductive try_res := NoFire | Fire (g : list string) | TryErr.
Fixpoint try_groups (groups : list (list string)) (it : string) (temp : list (option string)) : try_res :=
  match groups with
  | [] => NoFire
  | g :: rest =>
      match g with
      | [] => TryErr
      | h :: tl =>
          if String.eqb h it
          then if forallb (fun op => mem oeqb (Some op) temp) tl then Fire g
               else try_groups rest it temp
          else try_groups rest it temp
      end
  end.

(* loop state: (temp_items, zip(fused_items, fused_to_idxs)); None = exception *)
Definition fstate : Type := list (option string) * list entry.

(* body of `for i, item in enumerate(temp_items)` (the list is read at iteration
   time, so consumed entries are seen as None) *)
Definition fuse_step (groups : list (list string)) (st : option fstate) (i : nat) : option fstate :=
  match st with
  | None => None
  | Some (temp, acc) =>
      match nth i temp None with
      | None => Some (temp, acc)
      | Some it =>
          match try_groups groups it temp with
          | TryErr => None
          | NoFire => Some (temp, acc ++ [(it, Plain i)])
          | Fire g =>
              match consume g temp with
              | None => None
              | Some (temp', idxs) => Some (temp', acc ++ [(String.concat "" g, Fused idxs)])
              end
          end
      end
  end.

Definition fuse_loop (groups : list (list string)) (items : list string) : option fstate :=
  fold_left (fuse_step groups) (seq 0 (List.length items)) (Some (map Some items, [])).

(* if len(fused_operations) > 0: ... ; result = zip(fused_items, fused_to_idxs) *)
Definition fuse (groups : list (list string)) (items : list string) : option (list entry) :=
  match groups with
  | [] => Some []
  | _ => option_map snd (fuse_loop groups items)
  end.

(* ---------- Python index forms ---------- *)
Inductive index := IInt (z : Z) | ISlice (start stop step : option Z) | IList (l : list Z).

(* slice.indices(len) as used by range(len)[slice]; None = ValueError (step 0) *)
Definition slice_clamp (len lower upper : Z) (v : Z) : Z :=
  if v <? 0 then (if v + len <? lower then lower else v + len)
  else (if upper <? v then upper else v).

Definition slice_indices (len : Z) (a b s : option Z) : option (Z * Z * Z) :=
  let step := match s with None => 1 | Some x => x end in
  if step =? 0 then None else
  let neg := step <? 0 in
  let lower := if neg then -1 else 0 in
  let upper := if neg then len - 1 else len in
  let start := match a with None => if neg then upper else lower | Some v => slice_clamp len lower upper v end in
  let stop := match b with None => if neg then lower else upper | Some v => slice_clamp len lower upper v end in
  Some (start, stop, step).

(* list(range(start, stop, step)) *)
Definition range_count (start stop step : Z) : Z :=
  if 0 <? step then (if start <? stop then (stop - start - 1) / step + 1 else 0)
  else (if stop <? start then (start - stop - 1) / (- step) + 1 else 0).
Definition range_list (start stop step : Z) : list Z :=
  map (fun k => start + Z.of_nat k * step) (seq 0 (Z.to_nat (range_count start stop step))).

Definition slice_range (len : Z) (a b s : option Z) : option (list Z) :=
  match slice_indices len a b s with
  | None => None
  | Some (start, stop, step) => Some (range_list start stop step)
  end.

(* ---------- static helpers (mode given as its split list) ---------- *)
Definition has_item (items : list string) (it : string) : bool := mem String.eqb it items.
Definition add_item (mode : string) (it : string) : string :=
  if has_item (split_space mode) it then mode else (mode ++ " " ++ it)%string.
(* None = ValueError *)
Definition get_item_index (items : list string) (it : string) : option nat := index_of String.eqb it items.

(* a collated batch: a bare object or a list/tuple *)
Inductive batch (B : Type) := BBare (b : B) | BTuple (l : list B).
Arguments BBare {B}. Arguments BTuple {B}.

(* items = mode.split(" "); len(items) == 1 decides "single item" -- by the MODE, not by the type of the batch:
   None = several-item mode; Some ok = single-item mode, ok = `items[0] == item` (asserted) *)
Definition single_item (items : list string) (it : string) : option bool :=
  match items with
  | [s] => Some (String.eqb s it)
  | _ => None
  end.

(* get_item; None = AssertionError / ValueError / IndexError.
     if len(items) == 1: assert items[0] == item; return batch          (the batch IS the item, whatever its type --
                                                                          a multi-view item is a list of views)
     assert isinstance(batch, (list, tuple)); return batch[items.index(item)]
   what is returned is a batch-shaped object (the batch itself) or one element *)
Definition get_item {B} (items : list string) (it : string) (b : batch B) : option (batch B) :=
  match single_item items it with
  | Some ok => if ok then Some b else None
  | None =>
      match b with
      | BBare _ => None
      | BTuple l => match get_item_index items it with
                    | None => None
                    | Some i => option_map BBare (nth_error l i)
                    end
      end
  end.

Fixpoint replace_at {B} (k i : nat) (v : B) (l : list B) : list B :=
  match l with
  | [] => []
  | x :: r => (if Nat.eqb k i then v else x) :: replace_at (S k) i v r
  end.

(* set_item:
     if len(items) == 1: assert items[0] == item; return value
     assert isinstance(batch, (list, tuple)); idx = items.index(item)
     return tuple(it if i != idx else value for i, it in enumerate(batch)) *)
Definition set_item {B} (items : list string) (it : string) (b : batch B) (v : B) : option (batch B) :=
  match single_item items it with
  | Some ok => if ok then Some (BBare v) else None
  | None =>
      match b with
      | BBare _ => None
      | BTuple l => match index_of String.eqb it items with
                    | None => None
                    | Some i => Some (BTuple (replace_at 0 i v l))
                    end
      end
  end.

Section Model.
  Variable value : Type.
  Variable vint : Z -> value.              (* a Python int as a sample component *)
  Variable proj : value -> nat -> value.   (* items[i][j] *)

  Definition ctx : Type := list (string * value).
  (* the `ctx` local: a dict, or None when not propagate_ctx *)
  Definition octx : Type := option ctx.

  Fixpoint lookup (k : string) (d : ctx) : option value :=
    match d with
    | [] => None
    | (k', v) :: r => if String.eqb k k' then Some v else lookup k r
    end.

  Record stack := {
    s_len : Z;                               (* len(dataset) *)
    s_fused_ops : list (list string);        (* dataset.fused_operations *)
    s_req_ctx : bool;                        (* dataset.requires_propagate_ctx *)
    s_has_type : string -> bool;             (* hasattr(type(dataset), "getitem_" + s) *)
    s_has : string -> bool;                  (* hasattr(dataset, "getitem_" + s) *)
    s_load : string -> Z -> octx -> value * octx   (* getattr(dataset, "getitem_" + s)(idx, ctx) *)
  }.

  Record mwrap := {
    m_items : list string;       (* self.items *)
    m_plan : list entry;         (* zip(self.fused_items, self.fused_to_idxs) *)
    m_names : list string;       (* the list the getitem functions are composed from *)
    m_fns : list item;           (* self._getitem_fns *)
    m_propagate : bool;          (* self.propagate_ctx *)
    m_return_ctx : bool          (* self.return_ctx *)
  }.

  (* ModeWrapper.__init__; inr 1 = duplicate assertion, inr 2 = IndexError/ValueError in
     the fuse loop, inr 3 = "has no method getitem_..." assertion *)
  Definition init_items (st : stack) (items : list string) (return_ctx : bool) : mwrap + nat :=
    let groups := s_fused_ops st in
    if negb (forallb (nodupb String.eqb) groups) then inr 1%nat else
    if negb (nodupb String.eqb (List.concat groups)) then inr 1%nat else
    match fuse groups items with
    | None => inr 2%nat
    | Some plan =>
        let fused := (0 <? List.length plan)%nat in
        let names := if fused then map fst plan else items in
        let fns := map classify names in
        if forallb (fun f => match f with
                             | Named s => if fused then s_has_type st s else s_has st s
                             | _ => true
                             end) fns
        then inl {| m_items := items; m_plan := plan; m_names := names; m_fns := fns;
                    m_propagate := return_ctx || s_req_ctx st || existsb is_ctx fns;
                    m_return_ctx := return_ctx |}
        else inr 3%nat
    end.

  Definition init (st : stack) (mode : string) (return_ctx : bool) : mwrap + nat :=
    init_items st (split_space mode) return_ctx.

  (* one composed getitem function applied to (idx, ctx); None = KeyError (ctx[ctx_key]) *)
  Definition call (st : stack) (f : item) (idx : Z) (c : octx) : option (value * octx) :=
    match f with
    | Index => Some (vint idx, c)
    | Ctx k => match c with
               | Some d => match lookup k d with Some v => Some (v, c) | None => None end
               | None => None
               end
    | Named s => Some (s_load st s idx c)
    end.

  (* for getitem_fn in self._getitem_fns: items.append(getitem_fn(idx, ctx)) *)
  Fixpoint run_fns (st : stack) (fns : list item) (idx : Z) (c : octx) : option (list value * octx) :=
    match fns with
    | [] => Some ([], c)
    | f :: r =>
        match call st f idx c with
        | None => None
        | Some (v, c') =>
            match run_fns st r idx c' with
            | None => None
            | Some (vs, c'') => Some (v :: vs, c'')
            end
        end
    end.

  (* for j, fused_idx in enumerate(fused_idxs): unpacked_items[fused_idx] = items[i][j] *)
  Fixpoint scatter_fused (u : list (option value)) (v : value) (j : nat) (idxs : list nat) : list (option value) :=
    match idxs with
    | [] => u
    | fi :: r => scatter_fused (set_nth fi (Some (proj v j)) u) v (S j) r
    end.

  Definition unpack_step (u : list (option value)) (e : slot * value) : list (option value) :=
    match fst e with
    | Plain i => set_nth i (Some (snd e)) u
    | Fused idxs => scatter_fused u (snd e) 0 idxs
    end.

  (* unpacked_items = [None]*len(self.items); for i, fused_idxs in enumerate(self.fused_to_idxs): ... *)
  Definition unpack (n : nat) (slots : list slot) (vals : list value) : list (option value) :=
    fold_left unpack_step (combine slots vals) (repeat None n).

  (* a sample: bare component or tuple; a component None is Python's None *)
  Inductive out := Bare (v : option value) | Tuple (l : list (option value)).
  (* RErr = KeyError out of ctx[ctx_key]; RIndexErr = the IndexError of __getitem__ for idx < -len *)
  Inductive res := RItems (o : out) | RItemsCtx (o : out) (c : octx) | RErr | RIndexErr.

  Definition norm_idx (st : stack) (idx : Z) : Z := if idx <? 0 then s_len st + idx else idx.

  (* __getitem__ for an int, after the range check of the negative branch *)
  Definition getitem_core (st : stack) (m : mwrap) (idx0 : Z) : res :=
    let idx := norm_idx st idx0 in
    let c0 : octx := if m_propagate m then Some [] else None in
    match run_fns st (m_fns m) idx c0 with
    | None => RErr
    | Some (vals, c) =>
        let items := if (0 <? List.length (m_plan m))%nat
                     then unpack (List.length (m_items m)) (map snd (m_plan m)) vals
                     else map Some vals in
        let o := match items with [x] => Bare x | _ => Tuple items end in
        if m_return_ctx m then RItemsCtx o c else RItems o
    end.

  (* __getitem__ for an int:
       if idx < 0:
           idx = len(self) + idx
           if idx < 0: raise IndexError            (fixes/C01_negative_index_range.patch)
     an index >= len is NOT checked here (an endless balanced KDConcatDataset has no len): it is handed to the loaders *)
  Definition getitem_int (st : stack) (m : mwrap) (idx0 : Z) : res :=
    if (idx0 <? 0) && (s_len st + idx0 <? 0) then RIndexErr else getitem_core st m idx0.

  Inductive gres := GOne (r : res) | GMany (l : list res) | GValueError.

  (* __getitem__ *)
  Definition getitem (st : stack) (m : mwrap) (i : index) : gres :=
    match i with
    | ISlice a b s =>
        match slice_range (s_len st) a b s with
        | None => GValueError
        | Some l => GMany (map (getitem_int st m) l)
        end
    | IList l => GMany (map (getitem_int st m) l)
    | IInt z => GOne (getitem_int st m z)
    end.

  (* __iter__: for i in range(len(self)): yield self[i] *)
  Definition iter (st : stack) (m : mwrap) : list res :=
    map (fun k => getitem_int st m (Z.of_nat k)) (seq 0 (Z.to_nat (s_len st))).

  (* __len__ *)
  Definition mw_len (st : stack) : Z := s_len st.

  (* successive calls: __getitem__ assigns no attribute, every call starts from the
     constructor's state *)
  Definition history (st : stack) (m : mwrap) (h : list index) : list gres := map (getitem st m) h.

  (* ---------- iterator objects ---------- *)
  (* __iter__ is a generator function: every iter(mw) creates a NEW generator frame
         for i in range(len(self)): yield self[i]
     whose only state is its own loop variable (nothing is stored on the wrapper).  State of one iterator:
     Some p = suspended, sample p is the next one; None = finished (exhausted, or an exception left the frame). *)
  Definition itstate : Type := option nat.

  Definition res_is_err (r : res) : bool := match r with RErr | RIndexErr => true | _ => false end.

  (* next(it): (None = StopIteration | Some r = yielded sample r / the exception r raised out of self[i]), new state *)
  Definition it_next (st : stack) (m : mwrap) (s : itstate) : option res * itstate :=
    match s with
    | None => (None, None)
    | Some p =>
        if Z.of_nat p <? s_len st then
          let r := getitem_int st m (Z.of_nat p) in
          if res_is_err r then (Some r, None) else (Some r, Some (S p))
        else (None, None)
    end.

  (* `for s in it` / list(it): iter(it) is it (a generator returns itself, its position is kept); the remaining
     samples, ending with the first one that raises *)
  Fixpoint it_rest_from (st : stack) (m : mwrap) (fuel p : nat) : list res :=
    match fuel with
    | O => []
    | S f => let r := getitem_int st m (Z.of_nat p) in
             if res_is_err r then [r] else r :: it_rest_from st m f (S p)
    end.
  Definition it_rest (st : stack) (m : mwrap) (s : itstate) : list res * itstate :=
    match s with
    | None => ([], None)
    | Some p => (it_rest_from st m (Z.to_nat (s_len st) - p) p, None)
    end.

  (* one step of a history on one ModeWrapper object: indexing, len, creating iterator number k (a name: the previous
     iterator of that name is dropped), next(it_k), for-loop over it_k *)
  Inductive op := OpGet (i : index) | OpLen | OpIter (k : nat) | OpNext (k : nat) | OpRest (k : nat).
  Inductive opres := PGet (g : gres) | PLen (z : Z) | PIter | PNext (r : option res) | PRest (l : list res).

  (* the live iterator objects; a name never created behaves like a finished iterator *)
  Definition its : Type := nat -> itstate.
  Definition no_its : its := fun _ => None.
  Definition upd (f : its) (k : nat) (v : itstate) : its := fun j => if Nat.eqb j k then v else f j.

  Definition run_op (st : stack) (m : mwrap) (f : its) (o : op) : opres * its :=
    match o with
    | OpGet i => (PGet (getitem st m i), f)            (* __getitem__ assigns no attribute *)
    | OpLen => (PLen (mw_len st), f)
    | OpIter k => (PIter, upd f k (Some O))
    | OpNext k => let '(r, s) := it_next st m (f k) in (PNext r, upd f k s)
    | OpRest k => let '(l, s) := it_rest st m (f k) in (PRest l, upd f k s)
    end.

  Fixpoint run_ops (st : stack) (m : mwrap) (f : its) (ops : list op) : list opres * its :=
    match ops with
    | [] => ([], f)
    | o :: r => let '(x, f') := run_op st m f o in
                let '(xs, f'') := run_ops st m f' r in (x :: xs, f'')
    end.

  (* TorchWrapper(dataset, mode).getitem_<it>(idx, ctx): dataset[idx][mode.index(it)];
     None = the has_item assertion / IndexError *)
  Definition torch_getitem (tmode : list string) (ds : Z -> list value) (it : string) (idx : Z) : option value :=
    if has_item tmode it then
      match get_item_index tmode it with
      | None => None
      | Some k => nth_error (ds idx) k
      end
    else None.
End Model.

Arguments Bare {value}. Arguments Tuple {value}.
Arguments RItems {value}. Arguments RItemsCtx {value}. Arguments RErr {value}. Arguments RIndexErr {value}.
Arguments GOne {value}. Arguments GMany {value}. Arguments GValueError {value}.
Arguments PGet {value}. Arguments PLen {value}. Arguments PIter {value}. Arguments PNext {value}. Arguments PRest {value}.
