(* Executable comparison of what the real SharedDictDataset showed with the model
   (Model.v, repaired code: fixed = copyfix = true) and with the spec (Spec.v).  Used by harness/c19.py.
   No proofs. *)
From Coq Require Import String ZArith List Bool Arith.
Import ListNotations.
From KD Require Import C19.Model C19.Attr C19.Spec.
Open Scope Z_scope.

Record case_t := {
  c_kind : nat;                 (* 0 = sequential history (real Manager dict)
                                   1 = schedule replayed through the scheduling proxy
                                   2 = real processes on the real Manager dict (order unknown: spec only)
                                   3 = attribute resolution of the cache layer over a wrapped dataset with colliding names *)
  c_ids : list Z;               (* the wrapped dataset: sample id at positions 0..n-1 *)
  c_has_tf : bool;              (* transform given? *)
  c_byref : bool;               (* the payload contains torch tensors: the Manager connection ships them as shared-memory handles *)
  c_inplace : bool;             (* the transform modifies its argument in place and returns it (always true without transform:
                                   the sample itself is returned) *)
  c_draws : list (list Z);      (* tickets the transform of process p issued, in order *)
  c_caches : list (list nat);   (* kind 0: the holders of each cache (several datasets over one base) *)
  c_hist : list (nat * cmd);    (* kind 0 *)
  c_progs : list (list cmd);    (* kind 1, 2 *)
  c_sched : list nat;           (* kind 1: the schedule that was enforced; kind 2: a schedule found by the harness that is
                                   claimed to explain the per-process logs (checked here) *)
  c_lin : bool;                 (* kind 2: such a schedule is supplied *)
  c_log : list ev;              (* observed events in observed order *)
  c_dicts : list (list (Z * Z));  (* observed final content of each cache: index -> sample id *)
  (* kind 3 *)
  c_inst : list string;         (* observed: names in vars(cached) *)
  c_cls : list string;          (* observed: functions defined in the class bodies of SharedDictDataset / CachedDataset *)
  c_inherited : list string;    (* observed: probed names that torch's Dataset / object answer *)
  c_bhas : list string;         (* the names the wrapped dataset answers *)
  c_probes : list (string * nat); (* observed: name -> who answered getattr(cached, name) (who_code) *)
  c_blank : list (string * nat)  (* observed: the same on type(cached).__new__(type(cached)), whose __dict__ is empty *)
}.

(* a Python list as dataset: positions -n..n-1 exist *)
Definition base_of (ids : list Z) : Z -> option Z :=
  fun i => let n := Z.of_nat (length ids) in
           if (- n <=? i) && (i <? n) then nth_error ids (Z.to_nat (i mod n)) else None.
(* the harness' transform wraps the sample together with a ticket; encoded as 1000*(ticket+1) + id *)
Definition tf_of (has_tf : bool) : Z -> Z -> Z := fun d v => if has_tf then 1000 * (d + 1) + v else v.
Definition draws_of (ds : list (list Z)) : nat -> nat -> Z := fun p k => nth k (nth p ds []) (-1).

Fixpoint list_eqb {A} (eqb : A -> A -> bool) (a b : list A) : bool :=
  match a, b with
  | [], [] => true
  | x :: a', y :: b' => eqb x y && list_eqb eqb a' b'
  | _, _ => false
  end.

Definition ev_pid (e : ev) : nat :=
  match e with ELoad p _ => p | EClear p => p | ERet p _ _ _ => p | ELen p _ => p | EMut p => p end.
Definition inb (p : nat) (l : list nat) : bool := existsb (Nat.eqb p) l.

(* same finite map (by content) *)
Fixpoint aget (i : Z) (d : list (Z * Z)) : option Z :=
  match d with [] => None | (k, v) :: d' => if i =? k then Some v else aget i d' end.
Definition dict_same (a b : list (Z * Z)) : bool :=
  forallb (fun kv => match aget (fst kv) b with Some v => v =? snd kv | None => false end) a &&
  forallb (fun kv => match aget (fst kv) a with Some v => v =? snd kv | None => false end) b.
Definition final_dict (s : state) : list (Z * Z) := dict_content (hp s) (sd s).

Definition every_accessb (nprocs : nat) (l : list ev) : bool :=
  forallb (fun p => list_eqb Nat.eqb (calls_of p l) (seq 0 (length (calls_of p l)))) (seq 0 nprocs).

Definition same_names (a b : list string) : bool :=
  forallb (fun n => smem n b) a && forallb (fun n => smem n a) b.

(* kind 3.  Spec: no name the cache layer itself uses or defines is ever answered by the wrapped dataset (in particular
   `transform`, `dataset`, `shared_dict`, `__getitems__`).  Model: instance dict and class bodies
   are the ones of Attr.v and every probe resolves as [resolve] says. *)
Definition check_attr (c : case_t) : nat :=
  let own_names := (inst_shared ++ cls_shared true)%list in
  if negb (forallb (fun pn => negb (smem (fst pn) own_names) || negb (Nat.eqb (snd pn) (who_code Fwd))) (c_probes c))
  then 2
  else if same_names (c_inst c) inst_shared && same_names (c_cls c) (cls_shared true) &&
          forallb (fun pn => Nat.eqb (snd pn)
                               (who_code (resolve {| l_inst := c_inst c; l_cls := c_cls c |} (c_inherited c)
                                                  (fun n => smem n (c_bhas c)) (fst pn)))) (c_probes c) &&
          forallb (fun pn => Nat.eqb (snd pn)
                               (who_code (resolve (shared_layer true) (c_inherited c) (fun n => smem n (c_bhas c)) (fst pn))))
                  (c_probes c) &&
          forallb (fun pn => Nat.eqb (snd pn)
                               (who_code (resolve (blank_layer true) (c_inherited c) (fun _ => true) (fst pn))))
                  (c_blank c)
       then 0 else 1.

(* 0 = implementation, model and spec agree; 1 = the model differs from the implementation;
   2 = the spec is false of the implementation's output *)
Definition check (c : case_t) : nat :=
  let base := base_of (c_ids c) in
  let blen := Z.of_nat (length (c_ids c)) in
  let tf := tf_of (c_has_tf c) in
  let draws := draws_of (c_draws c) in
  match c_kind c with
  | O =>
      let n := length (c_draws c) in
      let per_cache := combine (c_caches c) (c_dicts c) in
      let hist_of ps := filter (fun pc => inb (fst pc) ps) (c_hist c) in
      let log_of ps := filter (fun e => inb (ev_pid e) ps) (c_log c) in
      if negb (Nat.eqb (length (c_caches c)) (length (c_dicts c)) &&
               forallb (fun '(ps, d) =>
                          list_eqb ev_eqb (log_of ps) (spec_seq base blen tf draws [] (fun _ => O) (hist_of ps))
                          && dict_okb base d) per_cache &&
               forallb (fun e => existsb (fun ps => inb (ev_pid e) ps) (c_caches c)) (c_log c))
      then 2
      else if forallb (fun '(ps, d) =>
                         let s := seq_exec true true (c_byref c) (c_inplace c) base blen tf draws n (hist_of ps) in
                         list_eqb ev_eqb (log s) (log_of ps) && dict_same (final_dict s) d) per_cache
           then 0 else 1
  | S O =>
      let d := match c_dicts c with d :: _ => d | [] => [] end in
      if negb (transparentb base tf draws (c_log c) && dict_okb base d
               && every_accessb (length (c_progs c)) (c_log c))
      then 2
      else let s := run true true (c_byref c) (c_inplace c) base blen tf draws (c_sched c) (init [] [] (c_progs c)) in
           if list_eqb ev_eqb (log s) (c_log c) && dict_same (final_dict s) d then 0 else 1
  | S (S (S _)) => check_attr c
  | _ =>
      (* the global order of the events of different processes is unknown: the spec is checked order-free, and the
         schedule the harness proposes must make the model produce every process' own event sequence and the final
         cache content (linearisability of the real Manager dict operations w.r.t. the model) *)
      let d := match c_dicts c with d :: _ => d | [] => [] end in
      if negb (transparentb base tf draws (c_log c) && dict_okb base d
               && every_accessb (length (c_progs c)) (c_log c))
      then 2
      else if negb (c_lin c) then 0
      else let s := run true true (c_byref c) (c_inplace c) base blen tf draws (c_sched c) (init [] [] (c_progs c)) in
           if forallb (fun p => list_eqb ev_eqb (filter (fun e => Nat.eqb (ev_pid e) p) (log s))
                                                (filter (fun e => Nat.eqb (ev_pid e) p) (c_log c)))
                      (seq 0 (length (c_progs c)))
              && dict_same (final_dict s) d
           then 0 else 1
  end.
