(* C12 — the property, in terms of what one can observe from outside:
   the list of per-rank index streams of one epoch, len(sampler), and the
   global draw G of that epoch.  No implementation vocabulary. *)
From Coq Require Import ZArith List Bool Arith.
Import ListNotations.

Section Spec.
  Context {A : Type}.

  (* round-robin merge of equally long streams:
     s0[0], s1[0], ..., s(W-1)[0], s0[1], s1[1], ... *)
  Definition column (j : nat) (streams : list (list A)) : list A :=
    flat_map (fun s => match nth_error s j with Some x => [x] | None => [] end) streams.
  Definition interleave (streams : list (list A)) : list A :=
    flat_map (fun j => column j streams) (seq 0 (length (hd [] streams))).

  (* the first T entries of G, G, G, ... : entry k is G[k mod |G|] *)
  Definition wrap_take (T : nat) (G : list A) : list A :=
    match G with
    | [] => []
    | d :: _ => map (fun k => nth (k mod length G) G d) (seq 0 T)
    end.
End Spec.

(* "the per-rank streams all have exactly L entries" *)
Definition lengths_equal {A} (L : nat) (streams : list (list A)) : Prop :=
  Forall (fun s => length s = L) streams.

(* "they interleave back into the global draw G; only trailing entries are
   dropped (drop = true: a prefix, fewer than W entries lost) or wrapped around
   (drop = false: G followed by fewer than W entries of G again)" *)
Definition split_of {A} (drop : bool) (W L : nat) (G : list A) (streams : list (list A)) : Prop :=
  length streams = W /\
  lengths_equal L streams /\
  interleave streams = wrap_take (W * L) G /\
  (if drop then W * L <= length G /\ length G - W * L < W
   else length G <= W * L /\ W * L - length G < W).

(* "with repeated augmentation every drawn sample occupies r consecutive slots
   of the global draw": slot k of G holds perm[k / r] *)
Definition repeats_consecutive_spec (r : nat) (perm G : list nat) : Prop :=
  forall k, k < length G -> nth_error G k = nth_error perm (k / r).

(* ---- executable versions used by the correspondence run ---- *)
Fixpoint list_eqb {A} (eq : A -> A -> bool) (a b : list A) : bool :=
  match a, b with
  | [], [] => true
  | x :: a', y :: b' => eq x y && list_eqb eq a' b'
  | _, _ => false
  end.

Definition split_ofb (drop : bool) (W L : nat) (G : list nat) (streams : list (list nat)) : bool :=
  (length streams =? W) &&
  forallb (fun s => length s =? L) streams &&
  list_eqb Nat.eqb (interleave streams) (wrap_take (W * L) G) &&
  (if drop then (W * L <=? length G) && (length G - W * L <? W)
   else (length G <=? W * L) && (W * L - length G <? W)).

Definition repeats_consecutiveb (r : nat) (perm G : list nat) : bool :=
  forallb (fun k => match nth_error G k, nth_error perm (k / r) with
                    | Some a, Some b => a =? b
                    | _, _ => false end) (seq 0 (length G)).
