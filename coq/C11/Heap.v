(* C11 -- WHERE the tensor statements of KDMixWrapper.getitem_xclass write: the same statements as Model.getitem_xclass,
   executed on a heap of tensor objects (REPAIRED tree: fixes/C11_mix_x_out_of_place.patch).  No proofs in this file.

   An address stands for one storage.  A statement either creates a new tensor (clone, `a * w`, F.pad, index_select:
   `alloc`) or writes into an existing one (`mul_`, `add_`: `write`).  The wrapped dataset keeps the tensor of sample k
   at address st_addr k; its getitem_x hands out that very storage (the stored object, or a view of it such as
   `self.x[idx]`: st_alias = true) or a clone (st_alias = false).  With this the aliasing questions are inside the
   model: what a request history does to the stored tensors, and what a request returns when x2 is x.

   Model.getitem_xclass is the value-level reading of the same statements; HeapProofs.getitem_h_functional proves
   that both agree whatever st_alias is. *)
From Coq Require Import ZArith QArith List Bool Arith.
Import ListNotations.
From KD Require Import C11.Model.
Open Scope Z_scope.

Definition heap := list tensor.
Definition empty_t : tensor := {| shape := []; at_ := fun _ => 0%Q |}.
Definition deref (h : heap) (a : nat) : tensor := nth a h empty_t.
Definition alloc (h : heap) (t : tensor) : heap * nat := (h ++ [t], length h).
Definition write (h : heap) (a : nat) (t : tensor) : heap := set_nth a t h.

(* ---------- elementary tensor statements ---------- *)
Definition t_scale (w : Q) (t : tensor) : tensor := {| shape := shape t; at_ := fun i => (w * at_ t i)%Q |}.
Definition t_add (a b : tensor) : tensor := {| shape := shape a; at_ := fun i => (at_ a i + at_ b i)%Q |}.

Definition h_clone (h : heap) (a : nat) : heap * nat := alloc h (deref h a).                         (* a.clone() *)
Definition h_mul (h : heap) (a : nat) (w : Q) : heap * nat := alloc h (t_scale w (deref h a)).       (* a * w *)
Definition h_mul_ (h : heap) (a : nat) (w : Q) : heap := write h a (t_scale w (deref h a)).          (* a.mul_(w) *)
Definition h_add_ (h : heap) (a b : nat) : heap := write h a (t_add (deref h a) (deref h b)).        (* a.add_(b) *)
Definition h_pad (h : heap) (pads : list nat) (a : nat) : option (heap * nat) :=                     (* pad(a, pad=pads) *)
  option_map (alloc h) (torch_pad pads (deref h a)).
Definition h_index_select (h : heap) (i n a : nat) : heap * nat :=                                   (* a.index_select(i, arange(n)) *)
  alloc h (index_select_arange i n (deref h a)).

(* ---------- the wrapped dataset as an object with storage ---------- *)
Record store := {
  st_len : nat;
  st_addr : nat -> nat;         (* the storage of sample k *)
  st_alias : bool;              (* getitem_x returns the stored tensor / a view of it (true) or a clone (false) *)
  st_cls : nat -> label;
  st_ncls : nat
}.
Definition st_getitem_x (st : store) (h : heap) (k : nat) : heap * nat :=
  if st_alias st then (h, st_addr st k) else h_clone h (st_addr st k).
(* the dataset a heap state denotes *)
Definition ds_of_store (st : store) (h : heap) : dataset :=
  {| ds_len := st_len st; ds_x := fun k => deref h (st_addr st k); ds_cls := st_cls st; ds_ncls := st_ncls st |}.
(* every sample's storage exists *)
Definition store_wf (st : store) (h : heap) : Prop := forall k, (st_addr st k < length h)%nat.

(* for i, delta in enumerate(deltas): x2 = pad(x2, ...) / x2 = x2.index_select(...)  -- x2 is REBOUND to a new tensor *)
Fixpoint h_unify_loop (n i : nat) (dl : list Z) (sx : list nat) (h : heap) (a2 : nat) : option (heap * nat) :=
  match dl with
  | [] => Some (h, a2)
  | d :: dl' =>
      if d =? 0 then h_unify_loop n (S i) dl' sx h a2
      else if 0 <? d then
        match h_pad h (repeat 0%nat ((n - i) * 2 - 1) ++ [Z.to_nat d]) a2 with
        | Some (h', a2') => h_unify_loop n (S i) dl' sx h' a2'
        | None => None
        end
      else
        let '(h', a2') := h_index_select h i (nth i sx 0%nat) a2 in
        h_unify_loop n (S i) dl' sx h' a2'
  end.
Definition h_pad_or_cut_end (h : heap) (ax ax2 : nat) : option (heap * nat) :=
  let dl := deltas (shape (deref h ax)) (shape (deref h ax2)) in
  h_unify_loop (length dl) 0 dl (shape (deref h ax)) h ax2.

(* x = x.clone().mul_(x_lamb).add_(x2 * (1. - x_lamb))        (Python evaluates the receiver chain, then the argument) *)
Definition h_mix (h : heap) (lam : Q) (ax ax2 : nat) : heap * nat :=
  let '(h1, a) := h_clone h ax in
  let h2 := h_mul_ h1 a lam in
  let '(h3, b) := h_mul h2 ax2 (1 - lam) in
  (h_add_ h3 a b, a).

(* KDMixWrapper.getitem_xclass: heap after the call (also when it raises) and the address of the returned x *)
Definition getitem_xclass_h (st : store) (c : cfg) (idx : nat) (dr : list draw) (h : heap) : heap * res nat :=
  let '(h0, ax) := st_getitem_x st h idx in                       (* x = self.dataset.getitem_x(idx, ctx=ctx) *)
  let cls := st_cls st idx in
  let n_classes := st_ncls st in
  match dr with
  | DUnit apply :: dr1 =>
      if Qltb (total_p c) apply then
        match to_one_hot_vector cls n_classes with
        | Some _ => (h0, Ok ax)                                   (* return x, cls *)
        | None => (h0, Err ELabel)
        end
      else
        let use_cutmix := Qltb apply (cutmix_p c) in
        match dr1 with
        | DInt hi idx2 :: dr2 =>
            if negb (hi =? Z.of_nat (st_len st)) then (h0, Err EDraw) else
            let '(h1, ax2) := st_getitem_x st h0 (Z.to_nat idx2) in   (* x2 = self.dataset.getitem_x(idx2, ctx=ctx2) *)
            let cls2 := st_cls st (Z.to_nat idx2) in
            match to_one_hot_vector cls n_classes with
            | None => (h1, Err ELabel)
            | Some _ =>
            match to_one_hot_vector cls2 n_classes with
            | None => (h1, Err ELabel)
            | Some _ =>
            match (if use_cutmix then cutmix_alpha c else mixup_alpha c) with
            | None => (h1, Err EAlpha)
            | Some alpha =>
            match dr2 with
            | DBeta a lamb :: _ =>
                if negb (Qeq_bool a alpha) then (h1, Err EDraw) else
                if use_cutmix then (h1, Err ENotImplemented) else
                match unify c with
                | UNone =>
                    if list_eqb (shape (deref h1 ax)) (shape (deref h1 ax2))
                    then let '(h2, r) := h_mix h1 lamb ax ax2 in (h2, Ok r)
                    else (h1, Err EAssertShape)
                | UPadOrCutEnd =>
                    if negb (length (shape (deref h1 ax)) =? length (shape (deref h1 ax2)))%nat then (h1, Err ERank) else
                    match h_pad_or_cut_end h1 ax ax2 with
                    | Some (h2, ax2u) => let '(h3, r) := h_mix h2 lamb ax ax2u in (h3, Ok r)
                    | None => (h1, Err ERank)
                    end
                | UOther => (h1, Err ENotImplemented)
                end
            | _ => (h1, Err EDraw)
            end end end end
        | _ => (h0, Err EDraw)
        end
  | _ => (h0, Err EDraw)
  end.

(* any sequence of requests (index, draws of the generator created for it) served over the same stored dataset *)
Fixpoint run_history (st : store) (c : cfg) (reqs : list (nat * list draw)) (h : heap) : heap * list (res nat) :=
  match reqs with
  | [] => (h, [])
  | q :: reqs' =>
      let '(h1, r) := getitem_xclass_h st c (fst q) (snd q) h in
      let '(h2, rs) := run_history st c reqs' h1 in
      (h2, r :: rs)
  end.

(* the statement BEFORE the repair, x.mul_(x_lamb).add_(x2.mul_(1. - x_lamb)) -- used only in Property.v to show
   what the model says about it *)
Definition h_mix_inplace (h : heap) (lam : Q) (ax ax2 : nat) : heap * nat :=
  let h1 := h_mul_ h ax lam in
  let h2 := h_mul_ h1 ax2 (1 - lam) in
  (h_add_ h2 ax ax2, ax).

(* ---------- labels on the heap: which label statements create a tensor ---------- *)
(* A heap of label vectors.  The wrapped dataset keeps the label vector of sample k (where its label is a 1-d tensor,
   Model.LVec) at address k; class ids (Model.LInt) are not tensors.  *)
Definition lheap := list (list Q).
Definition lderef (h : lheap) (a : nat) : list Q := nth a h [].
Definition l_alloc (h : lheap) (v : list Q) : lheap * nat := (h ++ [v], length h).

(* kappadata/utils/one_hot.py, to_one_hot_vector(y, n_classes), as statements on tensor objects:
     a class id:      y = one_hot(y, num_classes=n_classes); return y.float()   -- an ALLOCATING operation: a new tensor on
                      every call (never a row / view of a table that outlives the call)
     a float vector:  return y.float()                                          -- y itself (the dataset's object) *)
Definition to_one_hot_vector_h (h : lheap) (l : label) (stored : nat) (n : nat) : option (lheap * nat) :=
  match l with
  | LInt _ => option_map (l_alloc h) (to_one_hot_vector l n)
  | LVec _ => Some (h, stored)
  end.

Definition l_scale (w : Q) (v : list Q) : list Q := map (fun x => (x * w)%Q) v.             (* v * w : a new tensor *)
Fixpoint l_add (a b : list Q) : list Q :=                                                  (* a + b : a new tensor *)
  match a, b with
  | x :: a', y :: b' => (x + y)%Q :: l_add a' b'
  | _, _ => []
  end.

(* the label statements of KDMixWrapper.getitem_xclass for a request that returns (the draws, branches and errors are
   those of Model.getitem_xclass):
     untouched:  cls = to_one_hot_vector(cls, n_classes); return x, cls
     mixed:      cls = to_one_hot_vector(cls, ..); cls2 = to_one_hot_vector(cls2, ..); cls = cls * lamb + cls2 * (1. - lamb)
   -> the heap after the request and the address of the returned label *)
Definition label_request_h (ds : dataset) (c : cfg) (idx : nat) (dr : list draw) (h : lheap) : option (lheap * nat) :=
  match getitem_xclass ds c idx dr with
  | Ok (s, _) =>
      match s_mix s with
      | None => to_one_hot_vector_h h (ds_cls ds idx) idx (ds_ncls ds)
      | Some (p, w) =>
          match to_one_hot_vector_h h (ds_cls ds idx) idx (ds_ncls ds) with
          | None => None
          | Some (h1, a1) =>
              match to_one_hot_vector_h h1 (ds_cls ds p) p (ds_ncls ds) with
              | None => None
              | Some (h2, a2) =>
                  let '(h3, b1) := l_alloc h2 (l_scale w (lderef h2 a1)) in
                  let '(h4, b2) := l_alloc h3 (l_scale (1 - w) (lderef h3 a2)) in
                  Some (l_alloc h4 (l_add (lderef h4 b1) (lderef h4 b2)))
              end
          end
      end
  | Err _ => None
  end.

(* the stored label vectors are where the dataset keeps them *)
Definition lstore_wf (ds : dataset) (h : lheap) : Prop :=
  forall k v, ds_cls ds k = LVec v -> (k < length h)%nat /\ lderef h k = v.
