(* Executable comparison of what the real objects did with the generated table (correspondence run of C07). *)
From Coq Require Import ZArith List Bool String.
Import ListNotations.
From KD Require Import C07.RngGraph C07.gen.RngTable.

Definition oprov_eqb (a b : option prov) : bool :=
  match a, b with
  | None, None => true
  | Some x, Some y => prov_eqb x y
  | _, _ => false
  end.

Fixpoint list_eqb {A} (eq : A -> A -> bool) (a b : list A) : bool :=
  match a, b with
  | [], [] => true
  | x :: a', y :: b' => eq x y && list_eqb eq a' b'
  | _, _ => false
  end.

(* one case: the live object tree with the slots as they were before injection (Ctor k = the k-th
   construction-time generator), the injected seed, the slots observed after the real set_rng (preorder),
   and the provenances of all generators that produced at least one draw during the calls
   (process-global sources as seen by the tripwire included) *)
Definition case_t : Type := tree * Z * list (option prov) * list prov.

(* 0 = real objects, table and spec agree; 1 = the table does not describe the real objects (translator or
   table drifted); 2 = the real objects drew from something else than the injected generator *)
Definition check_with (tbl : table) (c : case_t) : nat :=
  let '(t0, s, after, obs) := c in
  let t1 := set_rng tbl (Inj s) t0 in
  if existsb (fun p => negb (prov_eqb p (Inj s))) obs then 2%nat
  else if negb (wf tbl t0) then 1%nat
  else if negb (list_eqb oprov_eqb (slots t1) after) then 1%nat
  else if negb (forallb (fun p => existsb (prov_eqb p) (draws tbl t1)) obs) then 1%nat
  else 0%nat.

Definition check := check_with rng_table.
