(* Implementation model of the rank-aware samplers
     kappadata/samplers/distributed_sampler.py  (+ torch's DistributedSampler.__init__/__iter__ it delegates to)
     kappadata/samplers/random_sampler.py       (+ torch's RandomSampler.__iter__ for num_repeats = 1)
     kappadata/samplers/class_balanced_sampler.py
     kappadata/samplers/weighted_sampler.py
   Mirrors the code statement by statement; no proofs here.

   Randomness.  A torch.Generator is deterministic: the result of a draw is a
   function of the seed it was given by manual_seed, of the requests made on it
   before, and of the current request.  The model therefore takes an oracle
       draw : seed -> sizes requested earlier on this generator -> requested size -> result
   and never looks inside it.  Theorems quantify over all oracles satisfying the
   contract of the torch function (randperm n = a permutation of 0..n-1, ...).
   Every run also returns the arguments it passed to manual_seed and the sizes
   it requested, so that the correspondence run can compare them with the calls
   recorded on the real code.

   Sizes, ranks, positions and dataset indices are nat (all small); seeds and
   class labels are Z. *)
From Coq Require Import ZArith List Bool Arith.
Import ListNotations.

Definition oracle := Z -> list nat -> nat -> list nat.

Inductive outcome (A : Type) :=
| Ok (a : A)
| AssertFail        (* an assert statement of the code fired *)
| Runaway.          (* a loop of the code did not end within the fuel *)
Arguments Ok {A} a.
Arguments AssertFail {A}.
Arguments Runaway {A}.

Definition stream_of (o : outcome (list nat)) : list nat := match o with Ok s => s | _ => [] end.

(* what one construction + one iteration of a sampler shows *)
Record run := {
  r_out : outcome (list nat);   (* list(sampler) *)
  r_len : nat;                  (* len(sampler) *)
  r_seeds : list Z;             (* arguments of Generator.manual_seed, in call order *)
  r_reqs : list nat }.          (* sizes requested from the generator, in call order *)

(* ------------------------------------------------------------------ *)
(* list primitives of Python / torch                                   *)
(* ------------------------------------------------------------------ *)
Section Lists.
  Context {A : Type}.

  (* every W c l: skip c elements, take one, then take every W-th *)
  Fixpoint every (W c : nat) (l : list A) : list A :=
    match l with
    | [] => []
    | x :: l' => match c with
                 | O => x :: every W (W - 1) l'
                 | S c' => every W c' l'
                 end
    end.

  (* l[r::W] *)
  Definition stride (r W : nat) (l : list A) : list A := every W r l.

  (* l[r:stop:W] *)
  Definition slice3 (r stop W : nat) (l : list A) : list A := stride r W (firstn stop l).

  (* tensor.repeat_interleave(repeats=r) *)
  Definition repeat_interleave (r : nat) (l : list A) : list A := flat_map (fun x => repeat x r) l.

  (* l * m  (list repetition) *)
  Definition list_mul (l : list A) (m : nat) : list A := concat (repeat l m).
End Lists.

(* math.ceil(a / b) for integers a >= 0, b >= 1.  For a negative numerator
   -b < a' < 0 (the only negative case that occurs: n - W with 0 < n < W)
   math.ceil gives 0, and so does this definition with nat's truncated
   subtraction n - W = 0. *)
Definition ceil_div (a b : nat) : nat := (a + b - 1) / b.

(* pool[perm]  (tensor indexing with an index tensor) *)
Definition gather (pool perm : list nat) : list nat := map (fun p => nth p pool 0) perm.

(* ------------------------------------------------------------------ *)
(* DistributedSampler                                                  *)
(* ------------------------------------------------------------------ *)
Record dcfg := {
  d_n : nat;          (* len(dataset) *)
  d_W : nat;          (* num_replicas *)
  d_shuffle : bool;
  d_seed : Z;
  d_drop : bool;      (* drop_last *)
  d_rep : nat;        (* num_repeats *)
  d_epoch : Z }.      (* last set_epoch argument (0 if never called) *)

(* torch DistributedSampler.__init__ *)
Definition num_samples (c : dcfg) : nat :=
  if d_drop c && negb (d_n c mod d_W c =? 0)
  then ceil_div (d_n c - d_W c) (d_W c)
  else ceil_div (d_n c) (d_W c).
Definition total_size (c : dcfg) : nat := num_samples c * d_W c.

(* the drop_last / padding block (identical in torch's and KappaData's __iter__) *)
Definition pad_or_cut (c : dcfg) (indices : list nat) : list nat :=
  if negb (d_drop c) then
    let padding_size := total_size c - length indices in
    if padding_size <=? length indices
    then indices ++ firstn padding_size indices
    else indices ++ firstn padding_size (list_mul indices (ceil_div padding_size (length indices)))
  else firstn (total_size c) indices.

(* the index list before padding: the global draw of the epoch.
   num_repeats = 1: torch's __iter__ (shuffle may be off);
   num_repeats > 1: KappaData's branch (asserts shuffle) *)
Definition dist_global (c : dcfg) (draw : oracle) : outcome (list nat) :=
  if d_rep c =? 1 then
    if d_shuffle c then Ok (draw (d_seed c + d_epoch c)%Z [] (d_n c))
    else Ok (seq 0 (d_n c))
  else
    if negb (d_shuffle c) then AssertFail
    else Ok (firstn (d_n c) (repeat_interleave (d_rep c) (draw (d_seed c + d_epoch c)%Z [] (d_n c)))).

Definition dist_iter (c : dcfg) (draw : oracle) (rank : nat) : outcome (list nat) :=
  match dist_global c draw with
  | Ok indices =>
      let indices := pad_or_cut c indices in
      if negb (length indices =? total_size c) then AssertFail else
      let indices := slice3 rank (total_size c) (d_W c) indices in
      if negb (length indices =? num_samples c) then AssertFail else
      Ok indices
  | AssertFail => AssertFail
  | Runaway => Runaway
  end.

Definition dist_run (c : dcfg) (draw : oracle) (rank : nat) : run :=
  {| r_out := dist_iter c draw rank;
     r_len := num_samples c;
     r_seeds := if d_shuffle c then [(d_seed c + d_epoch c)%Z] else [];
     r_reqs := if d_shuffle c then [d_n c] else [] |}.

(* ------------------------------------------------------------------ *)
(* RandomSampler (num_samples=None, explicit generator: the seed is the *)
(* caller's; n >= 1 is required by torch's constructor)                 *)
(* ------------------------------------------------------------------ *)
Record rcfg := { rs_n : nat; rs_rep : nat; rs_replacement : bool; rs_seed : Z }.

(* sizes requested by torch's RandomSampler.__iter__ (num_repeats = 1) *)
Definition rand_torch_reqs (c : rcfg) : list nat :=
  if rs_replacement c then repeat 32 (rs_n c / 32) ++ [rs_n c mod 32]
  else repeat (rs_n c) (rs_n c / rs_n c) ++ [rs_n c].

(* the successive draws for a list of requests *)
Fixpoint draws (draw : oracle) (seed : Z) (h : list nat) (reqs : list nat) : list (list nat) :=
  match reqs with
  | [] => []
  | k :: reqs' => draw seed h k :: draws draw seed (h ++ [k]) reqs'
  end.

Definition rand_iter (c : rcfg) (draw : oracle) : list nat :=
  if rs_rep c =? 1 then
    if rs_replacement c then concat (draws draw (rs_seed c) [] (rand_torch_reqs c))
    else
      let ds := draws draw (rs_seed c) [] (rand_torch_reqs c) in
      concat (removelast ds) ++ firstn (rs_n c mod rs_n c) (last ds [])
  else
    let idxs := draw (rs_seed c) [] (rs_n c) in    (* randint(high=n,size=(n,)) or randperm(n) *)
    firstn (rs_n c) (repeat_interleave (rs_rep c) idxs).

Definition rand_run (c : rcfg) (draw : oracle) : run :=
  {| r_out := Ok (rand_iter c draw);
     r_len := rs_n c;
     r_seeds := [];
     r_reqs := if rs_rep c =? 1 then rand_torch_reqs c else [rs_n c] |}.

(* ------------------------------------------------------------------ *)
(* rank split shared by ClassBalancedSampler and WeightedSampler        *)
(*   indices[rank:effective_length:world_size][:len(self)]              *)
(* ------------------------------------------------------------------ *)
Definition rank_split (E W rank : nat) (G : list nat) : list nat :=
  firstn (E / W) (slice3 rank E W G).

(* ------------------------------------------------------------------ *)
(* WeightedSampler: one multinomial(weights, E, replacement=False) draw *)
(* ------------------------------------------------------------------ *)
Record wcfg := {
  w_n : nat;               (* len(dataset) = len(weights) *)
  w_size : option nat;
  w_seed : Z; w_epoch : Z;
  w_W : nat }.

Definition w_E (c : wcfg) : outcome nat :=
  match w_size c with
  | None => Ok (w_n c)
  | Some s => if w_n c <? s then AssertFail else Ok s
  end.

Definition w_global (c : wcfg) (draw : oracle) : outcome (list nat) :=
  match w_E c with
  | Ok E => Ok (draw (w_seed c + w_epoch c)%Z [] E)
  | AssertFail => AssertFail
  | Runaway => Runaway
  end.

Definition w_run (c : wcfg) (draw : oracle) (rank : nat) : run :=
  match w_E c with
  | Ok E =>
      {| r_out := Ok (rank_split E (w_W c) rank (draw (w_seed c + w_epoch c)%Z [] E));
         r_len := E / w_W c;
         r_seeds := [(w_seed c + w_epoch c)%Z];
         r_reqs := [E] |}
  | _ => {| r_out := AssertFail; r_len := 0; r_seeds := []; r_reqs := [] |}
  end.

(* ------------------------------------------------------------------ *)
(* ClassBalancedSampler                                                *)
(* ------------------------------------------------------------------ *)
Record cbcfg := {
  cb_classes : list Z;       (* getall_as_tensor(dataset, "class") *)
  cb_dim : nat;              (* dataset.getdim_class() *)
  cb_spc_arg : option nat;   (* samples_per_class argument *)
  cb_shuffle : bool;
  cb_seed : Z; cb_epoch : Z;
  cb_W : nat }.

Definition cb_C (c : cbcfg) : nat := Nat.max 2 (cb_dim c).

(* (classes == i).nonzero().squeeze(1) *)
Definition pool_of (classes : list Z) (i : nat) : list nat :=
  filter (fun p => Z.eqb (nth p classes (-1)%Z) (Z.of_nat i)) (seq 0 (length classes)).

Definition cb_pools (c : cbcfg) : list (list nat) := map (pool_of (cb_classes c)) (seq 0 (cb_C c)).

(* classes.unique(return_counts=True) *)
Definition uniq (l : list Z) : list Z := nodup Z.eq_dec l.
Definition max_count (l : list Z) : nat := fold_right Nat.max 0 (map (count_occ Z.eq_dec l) (uniq l)).

(* samples_per_class or counts.max().item() *)
Definition cb_spc (c : cbcfg) : nat :=
  match cb_spc_arg c with
  | Some (S s) => S s
  | _ => max_count (cb_classes c)
  end.

(* constructor assertions: every class value present (len(unique) == num_classes)
   and (repair of the empty-pool hang) no class 0..C-1 without samples *)
Definition cb_ctor_ok (c : cbcfg) : bool :=
  (length (uniq (cb_classes c)) =? cb_C c) && forallb (fun p => negb (length p =? 0)) (cb_pools c).

Definition cb_E (c : cbcfg) : nat := cb_C c * cb_spc c.

(* the while loop over one class:  draw(h, k) is the generator of this epoch *)
Fixpoint pool_loop (fuel : nat) (draw : list nat -> nat -> list nat) (shuffle : bool)
         (pool : list nat) (remaining : nat) (h : list nat) : outcome (list nat * list nat) :=
  match fuel with
  | O => Runaway
  | S fuel' =>
      if remaining =? 0 then Ok ([], h) else
      let k := length pool in
      let perm := if shuffle then draw h k else seq 0 k in
      let h' := if shuffle then h ++ [k] else h in
      let perm := firstn remaining perm in
      match pool_loop fuel' draw shuffle pool (remaining - length perm) h' with
      | Ok (rest, h'') => Ok (gather pool perm ++ rest, h'')
      | AssertFail => AssertFail
      | Runaway => Runaway
      end
  end.

(* the for loop over the classes *)
Fixpoint classes_loop (draw : list nat -> nat -> list nat) (shuffle : bool) (spc : nat)
         (pools : list (list nat)) (h : list nat) : outcome (list nat * list nat) :=
  match pools with
  | [] => Ok ([], h)
  | pool :: pools' =>
      match pool_loop (S spc) draw shuffle pool spc h with
      | Ok (chunk, h') =>
          match classes_loop draw shuffle spc pools' h' with
          | Ok (rest, h'') => Ok (chunk ++ rest, h'')
          | AssertFail => AssertFail
          | Runaway => Runaway
          end
      | AssertFail => AssertFail
      | Runaway => Runaway
      end
  end.

(* the global draw of one epoch (before the rank split) and the requests made *)
Definition cb_global (c : cbcfg) (draw : oracle) : outcome (list nat * list nat) :=
  let g := draw (cb_seed c + cb_epoch c)%Z in
  match classes_loop g (cb_shuffle c) (cb_spc c) (cb_pools c) [] with
  | Ok (indices, h) =>
      if cb_shuffle c
      then Ok (gather indices (g h (length indices)), h ++ [length indices])
      else Ok (indices, h)
  | AssertFail => AssertFail
  | Runaway => Runaway
  end.

Definition cb_run (c : cbcfg) (draw : oracle) (rank : nat) : run :=
  if negb (cb_ctor_ok c) then {| r_out := AssertFail; r_len := 0; r_seeds := []; r_reqs := [] |} else
  match cb_global c draw with
  | Ok (G, h) =>
      {| r_out := Ok (rank_split (cb_E c) (cb_W c) rank G);
         r_len := cb_E c / cb_W c;
         r_seeds := [(cb_seed c + cb_epoch c)%Z];
         r_reqs := h |}
  | AssertFail => {| r_out := AssertFail; r_len := cb_E c / cb_W c; r_seeds := [(cb_seed c + cb_epoch c)%Z]; r_reqs := [] |}
  | Runaway => {| r_out := Runaway; r_len := cb_E c / cb_W c; r_seeds := [(cb_seed c + cb_epoch c)%Z]; r_reqs := [] |}
  end.

(* ------------------------------------------------------------------ *)
(* one sampler OBJECT over several epochs                               *)
(*   set_epoch(e) only assigns self.epoch (torch's DistributedSampler,  *)
(*   ClassBalancedSampler, WeightedSampler alike); __iter__ builds a    *)
(*   fresh torch.Generator().manual_seed(seed + epoch) and assigns no   *)
(*   attribute.  The object's state between calls is therefore its      *)
(*   configuration with the current epoch.                              *)
(* ------------------------------------------------------------------ *)
Inductive op := SetEpoch (e : Z) | Iterate.

Section Object.
  Context {cfg : Type}.
  Variable set_ep : cfg -> Z -> cfg.     (* state after set_epoch(e) *)
  Variable iter : cfg -> run.            (* len(sampler) / list(sampler) in a state *)

  (* what the successive list(sampler) calls of a call sequence show *)
  Fixpoint run_ops (c : cfg) (ops : list op) : list run :=
    match ops with
    | [] => []
    | SetEpoch e :: ops' => run_ops (set_ep c e) ops'
    | Iterate :: ops' => iter c :: run_ops c ops'
    end.
End Object.

(* the epoch in force at every Iterate of a call sequence *)
Fixpoint iter_epochs (e0 : Z) (ops : list op) : list Z :=
  match ops with
  | [] => []
  | SetEpoch e :: ops' => iter_epochs e ops'
  | Iterate :: ops' => e0 :: iter_epochs e0 ops'
  end.

Definition d_set_epoch (c : dcfg) (e : Z) : dcfg :=
  {| d_n := d_n c; d_W := d_W c; d_shuffle := d_shuffle c; d_seed := d_seed c; d_drop := d_drop c;
     d_rep := d_rep c; d_epoch := e |}.
Definition w_set_epoch (c : wcfg) (e : Z) : wcfg :=
  {| w_n := w_n c; w_size := w_size c; w_seed := w_seed c; w_epoch := e; w_W := w_W c |}.
Definition cb_set_epoch (c : cbcfg) (e : Z) : cbcfg :=
  {| cb_classes := cb_classes c; cb_dim := cb_dim c; cb_spc_arg := cb_spc_arg c; cb_shuffle := cb_shuffle c;
     cb_seed := cb_seed c; cb_epoch := e; cb_W := cb_W c |}.

Definition dist_object (c : dcfg) (draw : oracle) (rank : nat) (ops : list op) : list run :=
  run_ops d_set_epoch (fun c' => dist_run c' draw rank) c ops.
Definition w_object (c : wcfg) (draw : oracle) (rank : nat) (ops : list op) : list run :=
  run_ops w_set_epoch (fun c' => w_run c' draw rank) c ops.
Definition cb_object (c : cbcfg) (draw : oracle) (rank : nat) (ops : list op) : list run :=
  run_ops cb_set_epoch (fun c' => cb_run c' draw rank) c ops.

(* ------------------------------------------------------------------ *)
(* the DEFAULT rank / world size: kappadata/utils/distributed.py and   *)
(* the `rank=None, world_size=None` arguments of the constructors      *)
(* ------------------------------------------------------------------ *)
(* what torch.distributed shows to the process at one moment *)
Record pgroup := {
  pg_available : bool;                  (* dist.is_available() *)
  pg_joined : option (nat * nat) }.     (* dist.is_initialized() and (dist.get_rank(), dist.get_world_size()) of the
                                           default group *)

(* is_distributed / get_rank / get_world_size of kappadata/utils/distributed.py: plain functions of the CURRENT state
   of torch.distributed - nothing is remembered between calls *)
Definition is_distributed (g : pgroup) : bool :=
  pg_available g && match pg_joined g with Some _ => true | None => false end.
Definition get_rank (g : pgroup) : nat :=
  if is_distributed g then match pg_joined g with Some (r, _) => r | None => 0 end else 0.
Definition get_world_size (g : pgroup) : nat :=
  if is_distributed g then match pg_joined g with Some (_, w) => w | None => 1 end else 1.

(* ClassBalancedSampler / WeightedSampler / SemiSampler / SamplerBase constructors (repaired):
     self.rank = get_rank() if rank is None else rank
     self.world_size = get_world_size() if world_size is None else world_size *)
Definition resolve_rank_world (rank world : option nat) (g : pgroup) : nat * nat :=
  (match rank with Some r => r | None => get_rank g end,
   match world with Some w => w | None => get_world_size g end).

(* torch's DistributedSampler.__init__ (inherited): num_replicas / rank None -> dist.get_world_size() / dist.get_rank()
   (RuntimeError without the distributed package, ValueError without a default group), then
   `if rank >= num_replicas or rank < 0: raise ValueError`.  None = the constructor raises. *)
Definition resolve_torch (rank world : option nat) (g : pgroup) : option (nat * nat) :=
  let grp := if pg_available g then pg_joined g else None in
  match (match world with Some w => Some w | None => option_map snd grp end),
        (match rank with Some r => Some r | None => option_map fst grp end) with
  | Some w, Some r => if r <? w then Some (r, w) else None
  | _, _ => None
  end.

(* what happens in a process before a sampler is constructed *)
Inductive pg_event :=
| EvInit (rank world : nat)   (* torch.distributed.init_process_group: joined as rank of world *)
| EvDestroy                   (* destroy_process_group *)
| EvAvailable (b : bool)      (* dist.is_available() answers b from now on *)
| EvQuery.                    (* is_distributed() / get_rank() / get_world_size() called, or a sampler constructed
                                 (and thrown away, or kept) *)

Definition pg_step (g : pgroup) (ev : pg_event) : pgroup :=
  match ev with
  | EvInit r w => {| pg_available := pg_available g; pg_joined := Some (r, w) |}
  | EvDestroy => {| pg_available := pg_available g; pg_joined := None |}
  | EvAvailable b => {| pg_available := b; pg_joined := pg_joined g |}
  | EvQuery => g
  end.
Definition pg_after (g : pgroup) (evs : list pg_event) : pgroup := fold_left pg_step evs g.
(* a process that has just imported the packages *)
Definition pg_fresh : pgroup := {| pg_available := true; pg_joined := None |}.
Definition is_query (ev : pg_event) : bool := match ev with EvQuery => true | _ => false end.

Definition d_set_world (c : dcfg) (W : nat) : dcfg :=
  {| d_n := d_n c; d_W := W; d_shuffle := d_shuffle c; d_seed := d_seed c; d_drop := d_drop c;
     d_rep := d_rep c; d_epoch := d_epoch c |}.
Definition w_set_world (c : wcfg) (W : nat) : wcfg :=
  {| w_n := w_n c; w_size := w_size c; w_seed := w_seed c; w_epoch := w_epoch c; w_W := W |}.
Definition cb_set_world (c : cbcfg) (W : nat) : cbcfg :=
  {| cb_classes := cb_classes c; cb_dim := cb_dim c; cb_spc_arg := cb_spc_arg c; cb_shuffle := cb_shuffle c;
     cb_seed := cb_seed c; cb_epoch := cb_epoch c; cb_W := W |}.

(* S(dataset, ..., rank=rank, world_size=world) constructed while torch.distributed is in state g, then
   len(sampler) / list(sampler)  (the world size field of c is not used) *)
Definition w_built (c : wcfg) (rank world : option nat) (g : pgroup) (draw : oracle) : run :=
  let '(r, W) := resolve_rank_world rank world g in w_run (w_set_world c W) draw r.
Definition cb_built (c : cbcfg) (rank world : option nat) (g : pgroup) (draw : oracle) : run :=
  let '(r, W) := resolve_rank_world rank world g in cb_run (cb_set_world c W) draw r.
Definition dist_built (c : dcfg) (rank world : option nat) (g : pgroup) (draw : oracle) : option run :=
  match resolve_torch rank world g with
  | Some (r, W) => Some (dist_run (d_set_world c W) draw r)
  | None => None
  end.
