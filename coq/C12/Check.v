(* Executable comparison of what the real samplers showed (all ranks of one
   configuration, torch draw functions spied) with the model (replaying the
   recorded draws) and with the spec.  Used by harness/c12.py. *)
From Coq Require Import ZArith List Bool Arith.
Import ListNotations.
From KD Require Import C12.Model C12.Spec.

Inductive scfg := SDist (c : dcfg) | SRand (c : rcfg) | SW (c : wcfg) | SCB (c : cbcfg).

(* one rank: result code (0 ok, 1 AssertionError, 2 did not return), list(sampler),
   len(sampler), manual_seed arguments, (requested size, result) of every draw *)
Definition rank_rec : Type := nat * list nat * nat * list Z * list (nat * list nat).

(* configuration, the records of rank 0..W-1, and the stream of the same sampler
   built with world size 1 (= the global draw as seen from outside) *)
(* one sampler OBJECT of some rank driven through a call sequence: set_epoch(e) calls and list(sampler) calls, with
   what every list(sampler) showed (a fresh object: self.epoch = 0 before the first call) *)
Inductive hop := HSet (e : Z) | HIter (rr : rank_rec).
Definition hist_t : Type := nat * list hop.

(* a sampler constructed with (possibly default) rank / world_size arguments in a process with a history:
   the events of the process before the construction, the rank and world_size arguments (None = default), the epoch
   set, and what len(sampler) / list(sampler) showed.  Result code 3 = the constructor raised because no process
   group is there to take the default from / the rank is out of range (torch's DistributedSampler only). *)
Definition pg_rec : Type := list pg_event * option nat * option nat * Z * rank_rec.

Definition case_t : Type := scfg * list rank_rec * list nat * hist_t * list pg_rec.

Definition replay (ds : list (nat * list nat)) : oracle := fun _ h _ => snd (nth (length h) ds (0, [])).

Definition code_of (o : outcome (list nat)) : nat := match o with Ok _ => 0 | AssertFail => 1 | Runaway => 2 end.

Definition model_run (s : scfg) (draw : oracle) (rank : nat) : run :=
  match s with
  | SDist c => dist_run c draw rank
  | SRand c => rand_run c draw
  | SW c => w_run c draw rank
  | SCB c => cb_run c draw rank
  end.

Definition run_agrees (m : run) (rr : rank_rec) : bool :=
  let '(code, stream, len, seeds, ds) := rr in
  (code_of (r_out m) =? code) &&
  (if code =? 0
   then list_eqb Nat.eqb (stream_of (r_out m)) stream && (r_len m =? len)
        && list_eqb Z.eqb (r_seeds m) seeds && list_eqb Nat.eqb (r_reqs m) (map fst ds)
   else true).

Definition rank_agrees (s : scfg) (rank : nat) (rr : rank_rec) : bool :=
  let '(_, _, _, _, ds) := rr in run_agrees (model_run s (replay ds) rank) rr.

(* --- the object history --- *)
Definition ops_of (hs : list hop) : list op :=
  map (fun x => match x with HSet e => SetEpoch e | HIter _ => Iterate end) hs.
Definition iters_of (hs : list hop) : list rank_rec :=
  flat_map (fun x => match x with HIter rr => [rr] | HSet _ => [] end) hs.

(* generator determinism: what a generator returns is a function of its seed and of the requests made on it.  The
   replay oracle of a history is therefore keyed by the seed: the draws recorded for the FIRST list(sampler) call
   that seeded its generator with that value.  A later call that seeds equally but draws differently (state kept
   between calls) then disagrees with the model. *)
Definition seed_table (recs : list rank_rec) : list (Z * list (nat * list nat)) :=
  flat_map (fun rr : rank_rec => let '(_, _, _, seeds, ds) := rr in
                                 match seeds with s :: _ => [(s, ds)] | [] => [] end) recs.
Definition replay_by_seed (tab : list (Z * list (nat * list nat))) : oracle :=
  fun seed h _ => match find (fun e => Z.eqb (fst e) seed) tab with
                  | Some (_, ds) => snd (nth (length h) ds (0, []))
                  | None => []
                  end.

Definition model_object (s : scfg) (draw : oracle) (rank : nat) (ops : list op) : list run :=
  match s with
  | SDist c => dist_object (d_set_epoch c 0) draw rank ops
  | SW c => w_object (w_set_epoch c 0) draw rank ops
  | SCB c => cb_object (cb_set_epoch c 0) draw rank ops
  | SRand _ => []
  end.

Definition hist_agrees (s : scfg) (h : hist_t) : bool :=
  let '(rank, hs) := h in
  let recs := iters_of hs in
  let ms := model_object s (replay_by_seed (seed_table recs)) rank (ops_of hs) in
  (length ms =? length recs) && forallb (fun '(m, rr) => run_agrees m rr) (combine ms recs).

(* --- samplers built with default arguments under a process-group history --- *)
Definition built_agrees (s : scfg) (p : pg_rec) : bool :=
  let '(evs, rank, world, e, rr) := p in
  let '(code, _, _, _, ds) := rr in
  let g := pg_after pg_fresh evs in
  match s with
  | SDist c => match dist_built (d_set_epoch c e) rank world g (replay ds) with
               | Some m => run_agrees m rr
               | None => code =? 3
               end
  | SW c => run_agrees (w_built (w_set_epoch c e) rank world g (replay ds)) rr
  | SCB c => run_agrees (cb_built (cb_set_epoch c e) rank world g (replay ds)) rr
  | SRand _ => false
  end.

Definition cfg_epoch (s : scfg) : Z :=
  match s with SDist c => d_epoch c | SRand _ => 0 | SW c => w_epoch c | SCB c => cb_epoch c end%Z.

(* spec of a history, on the implementation's output only: every list(sampler) has len(sampler) = L entries; two
   calls under the same epoch (set_epoch(e) .. set_epoch(e') .. set_epoch(e), or no set_epoch in between) show the
   same stream; a call under the case's epoch shows the stream of the fresh sampler of that rank *)
Definition hist_spec (s : scfg) (L : nat) (streams : list (list nat)) (h : hist_t) : bool :=
  let '(rank, hs) := h in
  let tagged := combine (iter_epochs 0 (ops_of hs)) (iters_of hs) in
  forallb (fun '(e1, (_, st1, len1, _, _)) =>
             (len1 =? L) && (length st1 =? L) &&
             (if Z.eqb e1 (cfg_epoch s) then list_eqb Nat.eqb st1 (nth rank streams []) else true) &&
             forallb (fun '(e2, (_, st2, _, _, _)) => if Z.eqb e1 e2 then list_eqb Nat.eqb st1 st2 else true) tagged)
          tagged.

Definition world (s : scfg) : nat :=
  match s with SDist c => d_W c | SRand _ => 1 | SW c => w_W c | SCB c => cb_W c end.
Definition drops (s : scfg) : bool := match s with SDist c => d_drop c | _ => true end.
Definition seed_epoch (s : scfg) : Z :=
  match s with SDist c => d_seed c + d_epoch c | SRand c => rs_seed c | SW c => w_seed c + w_epoch c
          | SCB c => cb_seed c + cb_epoch c end%Z.

Definition spec_holds (s : scfg) (recs : list rank_rec) (G : list nat) (h : hist_t) : bool :=
  let streams := map (fun '(_, st, _, _, _) => st) recs in
  let L := match recs with (_, _, len, _, _) :: _ => len | [] => 0 end in
  (* every rank reports the same len(sampler) ... *)
  forallb (fun '(_, _, len, _, _) => len =? L) recs &&
  (* one object over several epochs / iterated again *)
  (if forallb (fun '(code, _, _, _, _) => code =? 0) (iters_of (snd h)) then hist_spec s L streams h else true) &&
  (* ... has exactly that many entries and the ranks interleave into G, trailing entries dropped / wrapped *)
  split_ofb (drops s) (world s) L G streams &&
  (* every rank made the same draws from a generator seeded with seed + epoch *)
  forallb (fun '(_, _, _, seeds, ds) =>
             forallb (Z.eqb (seed_epoch s)) seeds &&
             match recs with
             | (_, _, _, _, ds0) :: _ => list_eqb (fun a b => (fst a =? fst b) && list_eqb Nat.eqb (snd a) (snd b)) ds ds0
             | [] => true end) recs &&
  (* repeated augmentation: slot k of G is perm[k / r] *)
  match s, recs with
  | SDist c, (_, _, _, _, (_, perm) :: _) :: _ => repeats_consecutiveb (d_rep c) perm G
  | SRand c, (_, _, _, _, (_, perm) :: _) :: _ =>
      if (rs_rep c =? 1) && rs_replacement c then true else repeats_consecutiveb (rs_rep c) perm G
  | SW c, (_, _, _, _, (_, d) :: _) :: _ => list_eqb Nat.eqb d G
  | _, _ => true
  end.

(* 0 = implementation, model and spec agree; 1 = the model differs from the
   implementation; 2 = the spec is false of the implementation's output *)
Definition check (t : case_t) : nat :=
  let '(s, recs, G, h, pgs) := t in
  if negb ((length recs =? world s) &&
           forallb (fun '(rank, rr) => rank_agrees s rank rr) (combine (seq 0 (length recs)) recs) &&
           hist_agrees s h && forallb (built_agrees s) pgs)
  then 1
  else if forallb (fun '(code, _, _, _, _) => code =? 0) recs
       then (if spec_holds s recs G h then 0 else 2)
       else 0.
