(* C20 — proofs.  Structure:
   1. paths, lookup / ins / del / rename
   2. effect of one operation; run / reach (a killed or failing call stops after a prefix, possibly inside a write)
   3. the copy phase yields the source (entries_spec, run_entries); the joblib tasks of a folder of zips and their
      interleaving (unzip_jobs_concat, interleave_perm, copy_entries_perm, entries_order_irrelevant)
   4. phases of a call: create (temporary sibling + rename), wipe (keeps the start marker), common
   5. the invariant auto_state over histories (crashed_pres: only a call that gets to the end marker needs an
      honest directory listing); the theorems
   6. the code before the repairs: two refuting histories
   7.-9. complete_copyb is sound; non-vacuity; nothing outside dst is touched
   10.-12. the end marker after a kill; two concurrent copiers (a refutation); a parallel and a torn-write witness *)
From Coq Require Import List String Ascii Bool Arith ZArith Lia Permutation.
Import ListNotations.
From KD Require Import C20.Model C20.Spec.

(* ====================================================================== *)
(* 1. paths and the association-list file system                           *)
(* ====================================================================== *)
Lemma path_eqb_spec : forall a b, reflect (a = b) (path_eqb a b).
Proof.
  induction a as [|x a IH]; destruct b as [|y b]; simpl; try (constructor; congruence).
  destruct (String.eqb_spec x y); simpl.
  - destruct (IH b); constructor; congruence.
  - constructor; congruence.
Qed.

Lemma path_eqb_refl : forall a, path_eqb a a = true.
Proof. intros a. destruct (path_eqb_spec a a); congruence. Qed.

Lemma path_eqb_neq : forall a b, a <> b -> path_eqb a b = false.
Proof. intros a b H. destruct (path_eqb_spec a b); congruence. Qed.

Lemma path_eq_dec : forall a b : path, {a = b} + {a <> b}.
Proof. intros a b. destruct (path_eqb_spec a b); auto. Qed.

Lemma strip_spec : forall p x r, strip p x = Some r <-> x = p ++ r.
Proof.
  induction p as [|a p IH]; intros x r; simpl.
  - split; congruence.
  - destruct x as [|b x].
    + split; intros H; discriminate.
    + destruct (String.eqb_spec a b) as [->|N].
      * rewrite IH. split; intros H; congruence.
      * split; intros H; [discriminate|congruence].
Qed.

Lemma strip_app : forall p r, strip p (p ++ r) = Some r.
Proof. intros. apply strip_spec. reflexivity. Qed.

Lemma under_spec : forall p x, under p x = true <-> exists r, x = p ++ r.
Proof.
  intros p x. unfold under. destruct (strip p x) as [r|] eqn:E.
  - apply strip_spec in E. split; eauto.
  - split; [discriminate|]. intros [r ->]. rewrite strip_app in E. discriminate.
Qed.

Lemma under_app : forall p r, under p (p ++ r) = true.
Proof. intros. apply under_spec. eauto. Qed.

Lemma under_false : forall p x, under p x = false <-> forall r, x <> p ++ r.
Proof.
  intros p x. split.
  - intros H r ->. rewrite under_app in H. discriminate.
  - intros H. destruct (under p x) eqn:E; auto. apply under_spec in E. destruct E as [r ->]. exfalso. eapply H; eauto.
Qed.

Lemma strictly_under_spec : forall p x, strictly_under p x = true <-> exists a r, x = p ++ a :: r.
Proof.
  intros p x. unfold strictly_under. destruct (strip p x) as [[|a r]|] eqn:E.
  - apply strip_spec in E. split; [discriminate|]. intros (a & r & ->).
    apply app_inv_head in E. discriminate.
  - apply strip_spec in E. split; eauto.
  - split; [discriminate|]. intros (a & r & ->). rewrite strip_app in E. discriminate.
Qed.

Lemma strictly_under_app : forall p a r, strictly_under p (p ++ a :: r) = true.
Proof. intros. apply strictly_under_spec. eauto. Qed.

(* ---- lookup ---- *)
Lemma lookup_ins : forall s p e q, lookup (ins p e s) q = if path_eqb p q then Some e else lookup s q.
Proof.
  intros s p e q. unfold ins. simpl. destruct (path_eqb_spec p q) as [->|N]; auto.
  unfold del. induction s as [|[k e'] s IH]; simpl; auto.
  destruct (path_eqb_spec k p) as [->|N2]; simpl.
  - rewrite IH. rewrite path_eqb_neq; auto.
  - rewrite IH. reflexivity.
Qed.

Lemma lookup_del : forall s p q, lookup (del p s) q = if path_eqb p q then None else lookup s q.
Proof.
  intros s p q. unfold del. induction s as [|[k e'] s IH]; simpl.
  - destruct (path_eqb p q); auto.
  - destruct (path_eqb_spec k p) as [->|N]; simpl.
    + rewrite IH. destruct (path_eqb_spec p q); auto.
    + rewrite IH. destruct (path_eqb_spec p q) as [->|N2]; auto.
      rewrite (path_eqb_neq k q); auto.
Qed.

Lemma lookup_ins_eq : forall s p e, lookup (ins p e s) p = Some e.
Proof. intros. rewrite lookup_ins, path_eqb_refl. reflexivity. Qed.
Lemma lookup_ins_neq : forall s p e q, p <> q -> lookup (ins p e s) q = lookup s q.
Proof. intros. rewrite lookup_ins, path_eqb_neq; auto. Qed.
Lemma lookup_del_eq : forall s p, lookup (del p s) p = None.
Proof. intros. rewrite lookup_del, path_eqb_refl. reflexivity. Qed.
Lemma lookup_del_neq : forall s p q, p <> q -> lookup (del p s) q = lookup s q.
Proof. intros. rewrite lookup_del, path_eqb_neq; auto. Qed.

(* ---- rename ---- *)
Lemma lookup_rename : forall p q s,
    (forall r, lookup s (q ++ r) = None) ->
    forall x, lookup (rename p q s) x =
              match strip q x with
              | Some r => lookup s (p ++ r)
              | None => if under p x then None else lookup s x
              end.
Proof.
  intros p q. induction s as [|[k e] s IH]; intros H x.
  - simpl. destruct (strip q x); auto. destruct (under p x); auto.
  - assert (Hk : forall r, k <> q ++ r).
    { intros r E. specialize (H r). simpl in H. subst k. rewrite path_eqb_refl in H. discriminate. }
    assert (Hs : forall r, lookup s (q ++ r) = None).
    { intros r. specialize (H r). simpl in H. rewrite path_eqb_neq in H; auto. }
    specialize (IH Hs x). simpl. destruct (strip p k) as [r0|] eqn:Ek; simpl.
    + apply strip_spec in Ek. subst k.
      destruct (path_eqb_spec (q ++ r0) x) as [<-|N].
      * rewrite strip_app, path_eqb_refl. reflexivity.
      * rewrite IH. destruct (strip q x) as [r|] eqn:Ex.
        -- apply strip_spec in Ex. subst x. rewrite path_eqb_neq; auto.
           intros E. apply app_inv_head in E. congruence.
        -- destruct (under p x) eqn:Eu; auto. rewrite path_eqb_neq; auto.
           intros <-. rewrite under_app in Eu. discriminate.
    + destruct (path_eqb_spec k x) as [<-|N].
      * destruct (strip q k) as [r|] eqn:Eq.
        { apply strip_spec in Eq. exfalso. eapply Hk; eauto. }
        unfold under. rewrite Ek. reflexivity.
      * rewrite IH. destruct (strip q x) as [r|] eqn:Ex.
        -- rewrite path_eqb_neq; auto. intros ->. rewrite strip_app in Ek. discriminate.
        -- reflexivity.
Qed.

(* ====================================================================== *)
(* 2. one operation; run; reach                                            *)
(* ====================================================================== *)
Definition target (o : op) : path :=
  match o with
  | Mkdir p | MkdirOk p | Create p | Write p _ | Remove p | Rmdir p => p
  | Rename p _ => p
  end.
Definition is_rename (o : op) : bool := match o with Rename _ _ => true | _ => false end.

Ltac inv H := inversion H; subst; clear H.

Lemma apply_frame : forall o s s' e, apply o s = Some (s', e) -> is_rename o = false ->
    forall x, x <> target o -> lookup s' x = lookup s x.
Proof.
  intros o s s' e H Hr x Hx. destruct o; simpl in *; try discriminate.
  - destruct (lookup s p); try discriminate. destruct (parent_is_dir s p); inv H. apply lookup_ins_neq; auto.
  - destruct (lookup s p) as [[|c]|]; try discriminate.
    + inv H. reflexivity.
    + destruct (parent_is_dir s p); inv H. apply lookup_ins_neq; auto.
  - destruct (lookup s p) as [[|c]|]; try discriminate;
      destruct (parent_is_dir s p); inv H; apply lookup_ins_neq; auto.
  - destruct (lookup s p) as [[|c']|]; try discriminate. inv H. apply lookup_ins_neq; auto.
  - destruct (lookup s p) as [[|c']|]; try discriminate.
    + destruct (has_child p s); inv H. apply lookup_del_neq; auto.
    + inv H. apply lookup_del_neq; auto.
  - destruct (lookup s p) as [[|c']|]; try discriminate.
    destruct (has_child p s); inv H. apply lookup_del_neq; auto.
Qed.

Lemma apply_mkdirok : forall p s s' e, apply (MkdirOk p) s = Some (s', e) -> lookup s' p = Some Dir.
Proof.
  intros p s s' e H. simpl in H. destruct (lookup s p) as [[|c]|] eqn:E; try discriminate.
  - inv H. auto.
  - destruct (parent_is_dir s p); inv H. apply lookup_ins_eq.
Qed.

Lemma apply_mkdirok_dir : forall p s, lookup s p = Some Dir -> apply (MkdirOk p) s = Some (s, []).
Proof. intros p s H. simpl. rewrite H. reflexivity. Qed.

Lemma apply_create : forall p s s' e, apply (Create p) s = Some (s', e) -> lookup s' p = Some (File []).
Proof.
  intros p s s' e H. simpl in H.
  destruct (lookup s p) as [[|c]|]; try discriminate; destruct (parent_is_dir s p); inv H; apply lookup_ins_eq.
Qed.

Lemma apply_create_ev : forall p s s' e, apply (Create p) s = Some (s', e) -> e = [ECreate p].
Proof.
  intros p s s' e H. simpl in H.
  destruct (lookup s p) as [[|c]|]; try discriminate; destruct (parent_is_dir s p); inv H; reflexivity.
Qed.

Lemma apply_create_pre : forall p s s' e, apply (Create p) s = Some (s', e) -> lookup s p <> Some Dir.
Proof. intros p s s' e H. simpl in H. destruct (lookup s p) as [[|c]|]; congruence. Qed.

Lemma apply_write : forall p c s s' e, apply (Write p c) s = Some (s', e) -> lookup s' p = Some (File c).
Proof.
  intros p c s s' e H. simpl in H. destruct (lookup s p) as [[|c']|]; try discriminate. inv H. apply lookup_ins_eq.
Qed.

Lemma apply_write_pre : forall p c s s' e, apply (Write p c) s = Some (s', e) -> exists a, lookup s p = Some (File a).
Proof. intros p c s s' e H. simpl in H. destruct (lookup s p) as [[|c']|]; try discriminate. eauto. Qed.

Lemma apply_remove : forall p s s' e, apply (Remove p) s = Some (s', e) -> lookup s' p = None.
Proof.
  intros p s s' e H. simpl in H. destruct (lookup s p) as [[|c']|]; try discriminate.
  - destruct (has_child p s); inv H. apply lookup_del_eq.
  - inv H. apply lookup_del_eq.
Qed.

Lemma apply_remove_pre : forall p s s' e, apply (Remove p) s = Some (s', e) -> lookup s p <> None.
Proof. intros p s s' e H. simpl in H. destruct (lookup s p); congruence. Qed.

Lemma apply_rename : forall p q s s' e, apply (Rename p q) s = Some (s', e) ->
    s' = rename p q s /\ lookup s p = Some Dir /\ lookup s q = None.
Proof.
  intros p q s s' e H. simpl in H. destruct (lookup s p) as [[|c']|]; try discriminate.
  destruct (lookup s q); try discriminate.
  destruct (parent_is_dir s q && negb (under p q)); inv H. auto.
Qed.

Lemma run_app : forall a b s,
    run (a ++ b) s = match run a s with
                     | None => None
                     | Some (s1, e1) => match run b s1 with None => None | Some (s2, e2) => Some (s2, e1 ++ e2) end
                     end.
Proof.
  induction a as [|o a IH]; intros b s; simpl.
  - destruct (run b s) as [[s2 e2]|]; auto.
  - destruct (apply o s) as [[s1 e1]|]; auto. rewrite IH.
    destruct (run a s1) as [[s2 e2]|]; auto. destruct (run b s2) as [[s3 e3]|]; auto.
    rewrite app_assoc. reflexivity.
Qed.

Lemma run_app_inv : forall a b s s' e, run (a ++ b) s = Some (s', e) ->
    exists s1 e1 e2, run a s = Some (s1, e1) /\ run b s1 = Some (s', e2) /\ e = e1 ++ e2.
Proof.
  intros a b s s' e H. rewrite run_app in H. destruct (run a s) as [[s1 e1]|]; try discriminate.
  destruct (run b s1) as [[s2 e2]|] eqn:E; try discriminate. inv H. eauto 8.
Qed.

Lemma run_cons_inv : forall o ops s s' e, run (o :: ops) s = Some (s', e) ->
    exists s1 e1 e2, apply o s = Some (s1, e1) /\ run ops s1 = Some (s', e2) /\ e = e1 ++ e2.
Proof.
  intros o ops s s' e H. simpl in H. destruct (apply o s) as [[s1 e1]|]; try discriminate.
  destruct (run ops s1) as [[s2 e2]|] eqn:E; try discriminate. inv H. eauto 8.
Qed.

(* s' is the state after some prefix of ops, every operation of the prefix having succeeded *)
Inductive reach : list op -> fs -> fs -> Prop :=
| reach_stop : forall ops s, reach ops s s
| reach_step : forall o ops s s1 e s', apply o s = Some (s1, e) -> reach ops s1 s' -> reach (o :: ops) s s'
| reach_tear : forall o o' n ops s s1 e, tear n o = Some o' -> apply o' s = Some (s1, e) -> reach (o :: ops) s s1.

Lemma run_upto_reach : forall ops s, reach ops s (fst (run_upto ops s)).
Proof.
  induction ops as [|o ops IH]; intros s; simpl.
  - constructor.
  - destruct (apply o s) as [[s1 e1]|] eqn:E; simpl; [|constructor].
    specialize (IH s1). destruct (run_upto ops s1) as [s2 e2]. simpl in *. econstructor; eauto.
Qed.

Lemma reach_firstn : forall k ops s s', reach (firstn k ops) s s' -> reach ops s s'.
Proof.
  induction k as [|k IH]; intros ops s s' H.
  - simpl in H. inv H. constructor.
  - destruct ops as [|o ops]; simpl in H.
    + inv H. constructor.
    + inv H; [constructor| |]; [econstructor; eauto|eapply reach_tear; eauto].
Qed.

Lemma crash_reach : forall ops k s, reach ops s (crash_state ops k s).
Proof. intros. unfold crash_state. eapply reach_firstn. apply run_upto_reach. Qed.

Lemma crash_t_reach : forall ops k t s, reach ops s (crash_state_t ops k t s).
Proof.
  induction ops as [|o ops IH]; intros k t s; [destruct k; constructor|].
  destruct k as [|k]; simpl.
  - destruct t as [n|]; [|constructor]. destruct (tear n o) as [o'|] eqn:Et; [|constructor].
    destruct (apply o' s) as [[s1 e1]|] eqn:Ea; [|constructor]. eapply reach_tear; eauto.
  - destruct (apply o s) as [[s1 e1]|] eqn:Ea; [|constructor]. econstructor; eauto.
Qed.

(* killed (possibly inside a write) before the k-th operation has completed, k <= |a|, and the operation after a is
   not a write: only a has been worked on *)
Lemma crash_t_app_le : forall a b k t s, k <= List.length a ->
    (forall o n, hd_error b = Some o -> tear n o = None) ->
    reach a s (crash_state_t (a ++ b) k t s).
Proof.
  induction a as [|o a IH]; intros b k t s Hk Hb.
  - assert (k = 0) by (simpl in Hk; lia). subst k. simpl. destruct b as [|o b]; [constructor|]. simpl.
    destruct t as [n|]; [|constructor]. rewrite (Hb o n eq_refl). constructor.
  - destruct k as [|k]; simpl.
    + destruct t as [n|]; [|constructor]. destruct (tear n o) as [o'|] eqn:Et; [|constructor].
      destruct (apply o' s) as [[s1 e1]|] eqn:Ea; [|constructor]. eapply reach_tear; eauto.
    + destruct (apply o s) as [[s1 e1]|] eqn:Ea; [|constructor]. econstructor; eauto. apply IH; auto. simpl in Hk. lia.
Qed.

Lemma run_reach : forall ops s s' e, run ops s = Some (s', e) -> reach ops s s'.
Proof.
  induction ops as [|o ops IH]; intros s s' e H.
  - simpl in H. inv H. constructor.
  - apply run_cons_inv in H. destruct H as (s1 & e1 & e2 & Ha & Hr & _). econstructor; eauto.
Qed.

Lemma reach_app : forall a b s s', reach (a ++ b) s s' ->
    reach a s s' \/ exists s1 e1, run a s = Some (s1, e1) /\ reach b s1 s'.
Proof.
  induction a as [|o a IH]; intros b s s' H; simpl in *.
  - right. exists s, []. auto.
  - inversion H as [|o' ops' s0 s1 e s2 Ha Hr|o' o'' n ops' s0 s1 e Ht Ha]; subst.
    + left. constructor.
    + apply IH in Hr. destruct Hr as [Hr|(s2 & e2 & Hr & Hb)].
      * left. econstructor; eauto.
      * right. exists s2, (e ++ e2). rewrite Ha, Hr. auto.
    + left. eapply reach_tear; eauto.
Qed.

(* a predicate on operations that does not look at the data of a write *)
Definition tear_closed (safe : op -> Prop) : Prop := forall o o' n, safe o -> tear n o = Some o' -> safe o'.

Lemma reach_pres : forall (safe : op -> Prop) (P : fs -> Prop) ops, tear_closed safe ->
    (forall o s s1 e, safe o -> P s -> apply o s = Some (s1, e) -> P s1) ->
    (forall o, In o ops -> safe o) ->
    forall s s', P s -> reach ops s s' -> P s'.
Proof.
  intros safe P ops Ht Hp Hs s s' H0 H. induction H; auto.
  - apply IHreach.
    + intros o' Hi. apply Hs. right; auto.
    + eapply Hp; eauto. apply Hs. left; auto.
  - eapply Hp; [|exact H0|eauto]. eapply Ht; eauto. apply Hs. left; auto.
Qed.

Lemma run_pres : forall (P : fs -> Prop) ops,
    (forall o s s1 e, In o ops -> P s -> apply o s = Some (s1, e) -> P s1) ->
    forall s s' e, P s -> run ops s = Some (s', e) -> P s'.
Proof.
  intros P. induction ops as [|o ops IH]; intros Hp s s' e H0 H.
  - simpl in H. inv H. auto.
  - apply run_cons_inv in H. destruct H as (s1 & e1 & e2 & Ha & Hr & _).
    eapply IH; [|eapply Hp; eauto; left; auto|eauto]. intros; eapply Hp; eauto. right; auto.
Qed.

(* ====================================================================== *)
(* 3. the copy phase                                                       *)
(* ====================================================================== *)
Definition consistent (es : list (path * entry)) : Prop :=
  forall r e1 e2, In (r, e1) es -> In (r, e2) es -> e1 = e2.

Lemma run_entry : forall base r e s s' ev, run (ops_of_entry base (r, e)) s = Some (s', ev) ->
    lookup s' (base ++ r) = Some e /\ forall x, x <> base ++ r -> lookup s' x = lookup s x.
Proof.
  intros base r e s s' ev H. unfold ops_of_entry in H. simpl in H.
  destruct e as [|[|z c]].
  - apply run_cons_inv in H. destruct H as (s1 & e1 & e2 & Ha & Hr & _). simpl in Hr. inv Hr. split.
    + eapply apply_mkdirok; eauto.
    + intros x Hx. apply (apply_frame _ _ _ _ Ha eq_refl); auto.
  - apply run_cons_inv in H. destruct H as (s1 & e1 & e2 & Ha & Hr & _). simpl in Hr. inv Hr. split.
    + eapply apply_create; eauto.
    + intros x Hx. apply (apply_frame _ _ _ _ Ha eq_refl); auto.
  - apply run_cons_inv in H. destruct H as (s1 & e1 & e2 & Ha & Hr & _).
    apply run_cons_inv in Hr. destruct Hr as (s2 & e3 & e4 & Hb & Hr & _). simpl in Hr. inv Hr. split.
    + eapply apply_write; eauto.
    + intros x Hx. rewrite (apply_frame _ _ _ _ Hb eq_refl); auto. apply (apply_frame _ _ _ _ Ha eq_refl); auto.
Qed.

Lemma run_entries : forall base es s s' ev, consistent es ->
    run (flat_map (ops_of_entry base) es) s = Some (s', ev) ->
    (forall r e, In (r, e) es -> lookup s' (base ++ r) = Some e) /\
    (forall x, (forall r e, In (r, e) es -> x <> base ++ r) -> lookup s' x = lookup s x).
Proof.
  intros base. induction es as [|[r0 e0] es IH]; intros s s' ev Hc H.
  - simpl in H. inv H. split; [intros r e []|auto].
  - simpl in H. apply run_app_inv in H. destruct H as (s1 & ev1 & ev2 & H1 & H2 & _).
    apply run_entry in H1. destruct H1 as [H1a H1b].
    assert (Hc' : consistent es).
    { intros r e1 e2 Ha Hb. eapply Hc; right; eauto. }
    destruct (IH _ _ _ Hc' H2) as [IHa IHb]. split.
    + intros r e [E|Hin]; [|auto]. inv E.
      destruct (in_dec path_eq_dec r (map fst es)) as [Hi|Hn].
      * apply in_map_iff in Hi. destruct Hi as ([r' e'] & E & Hi). simpl in E. subst r'.
        assert (e' = e) by (eapply Hc; [right; eauto|left; eauto]). subst e'. auto.
      * rewrite IHb; auto. intros r' e' Hi E. apply app_inv_head in E. subst r'.
        apply Hn. apply in_map_iff. exists (r, e'). auto.
    + intros x Hx. rewrite IHb.
      * apply H1b. eapply Hx. left; eauto.
      * intros r e Hi. eapply Hx. right; eauto.
Qed.

(* ---- plain folders ---- *)
Lemma tree_ind2 (P : tree -> Prop)
      (Hf : forall c, P (TFile c))
      (Hd : forall ch, Forall (fun nt => P (snd nt)) ch -> P (TDir ch)) : forall t, P t.
Proof.
  fix IH 1. intros [c|ch]; [apply Hf|]. apply Hd.
  induction ch as [|[n t] ch IHch]; constructor; [apply IH|apply IHch].
Qed.

Lemma find_item_in : forall n items t, find_item n items = Some t -> In (n, t) items.
Proof.
  induction items as [|[k t'] items IH]; intros t H; simpl in H; [discriminate|].
  destruct (String.eqb_spec k n) as [->|N].
  - inv H. left; auto.
  - right; auto.
Qed.

Lemma in_find_item : forall n t items, nodupb (map (fun nt : name * tree => [fst nt]) items) = true ->
    In (n, t) items -> find_item n items = Some t.
Proof.
  induction items as [|[k t'] items IH]; intros Hn Hi; [destruct Hi|].
  cbn [map nodupb fst] in Hn. apply andb_true_iff in Hn. destruct Hn as [Hn1 Hn2]. simpl.
  destruct Hi as [E|Hi].
  - inv E. rewrite String.eqb_refl. reflexivity.
  - destruct (String.eqb_spec k n) as [->|N]; [|auto].
    exfalso. apply negb_true_iff in Hn1.
    assert (existsb (path_eqb [n]) (map (fun nt : name * tree => [fst nt]) items) = true).
    { apply existsb_exists. exists [n]. split; [|apply path_eqb_refl].
      apply in_map_iff. exists (n, t). auto. }
    congruence.
Qed.

Lemma tree_entries_spec : forall t, tree_ok t = true -> forall pre r e,
    In (r, e) (tree_entries pre t) <-> exists r', r = pre ++ r' /\ node_lookup t r' = Some e.
Proof.
  induction t as [c|ch IH] using tree_ind2; intros Hok pre r e.
  - simpl. split.
    + intros [H|[]]. inv H. exists []. rewrite app_nil_r. auto.
    + intros (r' & -> & H). destruct r'; simpl in H; [|discriminate]. inv H. rewrite app_nil_r. auto.
  - simpl in Hok. apply andb_true_iff in Hok. destruct Hok as [Hnd Hall].
    rewrite forallb_forall in Hall. rewrite Forall_forall in IH.
    simpl tree_entries. split.
    + intros [H|H].
      * inv H. exists []. rewrite app_nil_r. auto.
      * apply in_flat_map in H. destruct H as ([n t'] & Hin & H). simpl in H.
        apply (IH _ Hin (Hall _ Hin)) in H. destruct H as (r'' & -> & H).
        exists (n :: r''). split.
        -- rewrite <- app_assoc. reflexivity.
        -- simpl. rewrite (in_find_item _ _ _ Hnd Hin). exact H.
    + intros (r' & -> & H). destruct r' as [|n r''].
      * simpl in H. inv H. left. rewrite app_nil_r. auto.
      * right. simpl in H. destruct (find_item n ch) as [t'|] eqn:Ef; [|discriminate].
        apply find_item_in in Ef. apply in_flat_map. exists (n, t'). split; auto. simpl.
        apply (IH _ Ef (Hall _ Ef)). exists r''. split; auto. rewrite <- app_assoc. reflexivity.
Qed.

(* ---- zip members ---- *)
Lemma in_inits : forall p a, In a (inits p) <-> exists r, p = a ++ r.
Proof.
  induction p as [|x p IH]; intros a; simpl.
  - split.
    + intros [<-|[]]. exists []. auto.
    + intros (r & H). symmetry in H. apply app_eq_nil in H. left. symmetry. tauto.
  - split.
    + intros [<-|H].
      * exists (x :: p). auto.
      * apply in_map_iff in H. destruct H as (a' & <- & H). apply IH in H. destruct H as (r & ->).
        exists r. auto.
    + intros (r & H). destruct a as [|y a]; [left; auto|right].
      simpl in H. inv H. apply in_map_iff. exists a. split; auto. apply IH. eauto.
Qed.

Lemma removelast_prefix : forall p a, p <> [] ->
    ((exists r, removelast p = a ++ r) <-> strictly_under a p = true).
Proof.
  intros p a Hp. rewrite strictly_under_spec. split.
  - intros (r & H). pose proof (@app_removelast_last name p EmptyString Hp) as E. rewrite H, <- app_assoc in E.
    destruct r as [|y r]; simpl in E; eauto.
  - intros (y & r & ->). rewrite removelast_app by discriminate. eauto.
Qed.

Lemma member_entries_in : forall m r e, m_path m <> [] ->
    (In (r, e) (member_entries m) <->
     (e = Dir /\ strictly_under r (m_path m) = true) \/ (r = m_path m /\ e = entry_of_member m)).
Proof.
  intros m r e Hp. unfold member_entries. rewrite in_app_iff. split.
  - intros [H|[H|[]]].
    + apply in_map_iff in H. destruct H as (a & E & H). inv E. left. split; auto.
      apply removelast_prefix; auto. apply in_inits; auto.
    + inv H. right; auto.
  - intros [[-> H]|[-> ->]].
    + left. apply in_map_iff. exists r. split; auto. apply in_inits. apply removelast_prefix; auto.
    + right. left. auto.
Qed.

Lemma nodupb_unique : forall (ms : list member) m1 m2, nodupb (map m_path ms) = true ->
    In m1 ms -> In m2 ms -> m_path m1 = m_path m2 -> m1 = m2.
Proof.
  induction ms as [|m ms IH]; intros m1 m2 Hn H1 H2 E; [destruct H1|].
  cbn [map nodupb] in Hn. apply andb_true_iff in Hn. destruct Hn as [Hn1 Hn2]. apply negb_true_iff in Hn1.
  assert (Hx : forall m', In m' ms -> m_path m = m_path m' -> False).
  { intros m' Hi E'. assert (existsb (path_eqb (m_path m)) (map m_path ms) = true); [|congruence].
    apply existsb_exists. exists (m_path m'). split; [apply in_map; auto|]. rewrite E'. apply path_eqb_refl. }
  destruct H1 as [<-|H1], H2 as [<-|H2]; auto.
  - exfalso. eauto.
  - exfalso. symmetry in E. eauto.
Qed.

Lemma zip_entries_spec : forall ms, members_ok ms = true -> forall r e,
    In (r, e) (flat_map member_entries ms) <-> zip_lookup ms r = Some e.
Proof.
  intros ms Hok r e. unfold members_ok in Hok.
  apply andb_true_iff in Hok. destruct Hok as [Hok Hfile]. apply andb_true_iff in Hok. destruct Hok as [Hne Hnd].
  rewrite forallb_forall in Hne, Hfile.
  assert (Hne' : forall m, In m ms -> m_path m <> []).
  { intros m Hi. specialize (Hne _ Hi). destruct (m_path m); congruence. }
  unfold zip_lookup. split.
  - intros H. apply in_flat_map in H. destruct H as (m & Hi & H).
    apply member_entries_in in H; auto. destruct H as [[-> Hs]|[-> ->]].
    + destruct (find (fun m0 => path_eqb (m_path m0) r) ms) as [m'|] eqn:Ef.
      * apply find_some in Ef. destruct Ef as [Hi' E]. destruct (path_eqb_spec (m_path m') r) as [E'|]; [|discriminate].
        unfold entry_of_member. destruct (m_file m') eqn:Em; auto. exfalso.
        specialize (Hfile _ Hi'). rewrite Em in Hfile. rewrite forallb_forall in Hfile.
        specialize (Hfile _ Hi). rewrite E', Hs in Hfile. discriminate.
      * assert (existsb (fun m0 => strictly_under r (m_path m0)) ms = true) as ->; auto.
        apply existsb_exists. eauto.
    + destruct (find (fun m0 => path_eqb (m_path m0) (m_path m)) ms) as [m'|] eqn:Ef.
      * apply find_some in Ef. destruct Ef as [Hi' E]. destruct (path_eqb_spec (m_path m') (m_path m)) as [E'|]; [|discriminate].
        rewrite (nodupb_unique ms m' m); auto.
      * exfalso. eapply find_none in Ef; eauto. simpl in Ef. rewrite path_eqb_refl in Ef. discriminate.
  - intros H. apply in_flat_map.
    destruct (find (fun m0 => path_eqb (m_path m0) r) ms) as [m'|] eqn:Ef.
    + inv H. apply find_some in Ef. destruct Ef as [Hi' E]. destruct (path_eqb_spec (m_path m') r) as [E'|]; [|discriminate].
      exists m'. split; auto. apply member_entries_in; auto.
    + destruct (existsb (fun m0 => strictly_under r (m_path m0)) ms) eqn:Ex; [|discriminate]. inv H.
      apply existsb_exists in Ex. destruct Ex as (m & Hi & Hs). exists m. split; auto.
      apply member_entries_in; auto.
Qed.

Lemma zip_lookup_root : forall ms e, members_ok ms = true -> zip_lookup ms [] = Some e -> e = Dir.
Proof.
  intros ms e Hok H. unfold members_ok in Hok.
  apply andb_true_iff in Hok. destruct Hok as [Hok _]. apply andb_true_iff in Hok. destruct Hok as [Hne _].
  rewrite forallb_forall in Hne. unfold zip_lookup in H.
  destruct (find (fun m0 => path_eqb (m_path m0) []) ms) as [m'|] eqn:Ef.
  - apply find_some in Ef. destruct Ef as [Hi E]. specialize (Hne _ Hi). destruct (m_path m'); simpl in E; discriminate.
  - destruct (existsb _ ms); congruence.
Qed.

(* the walk of the implementation enumerates exactly the source, and never disagrees with itself *)
Lemma entries_spec : forall c, src_ok c = true -> forall r e,
    In (r, e) (src_entries c) <-> (r = [] /\ e = Dir /\ In ([], Dir) (src_entries c)) \/ (r <> [] /\ src_lookup c r = Some e).
Proof.
  intros c Hok r e. unfold src_ok in Hok.
  apply andb_true_iff in Hok. destruct Hok as [Hok _]. apply andb_true_iff in Hok. destruct Hok as [Hok _].
  unfold src_entries, src_lookup in *. destruct (c_dir c) as [items|].
  - destruct (mostly_zips items).
    + split.
      * intros [H|H].
        -- inv H. left. auto 6 with datatypes.
        -- destruct r as [|n r].
           ++ left. split; auto. apply zip_entries_spec in H; auto. apply zip_lookup_root in H; auto. split; auto. left; auto.
           ++ right. split; [discriminate|]. apply zip_entries_spec; auto.
      * intros [(-> & -> & H)|[Hr H]]; auto. right. apply zip_entries_spec; auto.
    + rewrite (tree_entries_spec (TDir items) Hok [] r e). simpl. split.
      * intros (r' & -> & H). destruct r' as [|n r'].
        -- simpl in H. inv H. left; repeat split; simpl; auto.
        -- right. split; [discriminate|]. exact H.
      * intros [(-> & -> & H)|[Hr H]].
        -- exists []. auto.
        -- exists r. auto.
  - destruct (c_zip c) as [ms|]; [|discriminate]. split.
    + intros H. destruct r as [|n r].
      * left. split; auto. pose proof H as H'. apply zip_entries_spec in H; auto. apply zip_lookup_root in H; auto. subst e. auto.
      * right. split; [discriminate|]. apply zip_entries_spec; auto.
    + intros [(-> & -> & H)|[Hr H]]; auto. apply zip_entries_spec; auto.
Qed.

Lemma entries_consistent : forall c, src_ok c = true -> consistent (src_entries c).
Proof.
  intros c Hok r e1 e2 H1 H2. apply entries_spec in H1; auto. apply entries_spec in H2; auto.
  destruct H1 as [(E1 & E1' & _)|[Hr H1]], H2 as [(E2 & E2' & _)|[Hr2 H2]]; congruence.
Qed.


(* ---- a folder of zips: the jobs and their interleaving ---- *)
Lemma unzip_jobs_concat : forall (A : Type) (w : nat) (zs : list A), List.concat (unzip_jobs w zs) = zs.
Proof.
  intros A w zs. unfold unzip_jobs. destruct (w <=? 1).
  - simpl. apply app_nil_r.
  - induction zs as [|z zs IH]; simpl; [reflexivity|]. rewrite IH. reflexivity.
Qed.

Lemma take_job_perm : forall (A : Type) j (jobs : list (list A)) m jobs',
    take_job j jobs = Some (m, jobs') -> Permutation (m :: List.concat jobs') (List.concat jobs).
Proof.
  intros A j jobs. revert j. induction jobs as [|q rest IH]; intros j m jobs' H; [destruct j; discriminate|].
  destruct j as [|j]; simpl in H.
  - destruct q as [|m0 q']; [discriminate|]. inv H. simpl. apply Permutation_refl.
  - destruct (take_job j rest) as [[m0 rest']|] eqn:E; [|discriminate]. inv H. simpl.
    apply IH in E. eapply Permutation_trans; [apply Permutation_middle|]. apply Permutation_app_head. exact E.
Qed.

Lemma take_job_length : forall (A : Type) j (jobs : list (list A)) m jobs',
    take_job j jobs = Some (m, jobs') -> List.length jobs' = List.length jobs.
Proof.
  intros A j jobs. revert j. induction jobs as [|q rest IH]; intros j m jobs' H; [destruct j; discriminate|].
  destruct j as [|j]; simpl in H.
  - destruct q as [|m0 q']; [discriminate|]. inv H. reflexivity.
  - destruct (take_job j rest) as [[m0 rest']|] eqn:E; [|discriminate]. inv H. simpl. f_equal. eauto.
Qed.

(* whatever the oracle does, every member of every job is extracted exactly once *)
Lemma interleave_perm : forall (A : Type) sched (jobs : list (list A)),
    Permutation (interleave sched jobs) (List.concat jobs).
Proof.
  intros A sched. induction sched as [|j sched IH]; intros jobs; simpl.
  - apply Permutation_refl.
  - destruct (take_job j jobs) as [[m jobs']|] eqn:E; [|apply IH].
    eapply Permutation_trans; [apply perm_skip; apply IH|]. eapply take_job_perm; eauto.
Qed.

(* a single job is run in its own order, whatever the oracle says (num_workers <= 1) *)
Lemma interleave_single : forall (A : Type) sched (q : list A), interleave sched [q] = q.
Proof.
  intros A sched. induction sched as [|j sched IH]; intros q; simpl.
  - apply app_nil_r.
  - destruct j as [|j]; simpl.
    + destruct q as [|m q']; [apply IH|]. rewrite IH. reflexivity.
    + destruct j; simpl; apply IH.
Qed.

Lemma concat_map_flat_map : forall (A B : Type) (f : A -> list B) (ls : list (list A)),
    List.concat (map (flat_map f) ls) = flat_map f (List.concat ls).
Proof.
  intros A B f ls. induction ls as [|l ls IH]; simpl; [reflexivity|]. rewrite flat_map_app, IH. reflexivity.
Qed.

Lemma all_members_zip_items : forall c items, all_members c items = flat_map (zip_members c) (zip_items items).
Proof.
  intros c items. unfold all_members, zip_items. induction items as [|[n t] items IH]; simpl; [reflexivity|].
  destruct (is_zip_name n); simpl; rewrite IH; reflexivity.
Qed.

Lemma jobs_members : forall c w zs,
    List.concat (map (job_members c) (unzip_jobs w zs)) = flat_map (zip_members c) zs.
Proof.
  intros c w zs. unfold job_members. rewrite concat_map_flat_map, unzip_jobs_concat. reflexivity.
Qed.

Lemma scheduled_members_perm : forall c sched items,
    Permutation (scheduled_members c sched items) (all_members c items).
Proof.
  intros c sched items. unfold scheduled_members. rewrite all_members_zip_items, <- (jobs_members c (c_workers c)).
  apply interleave_perm.
Qed.

(* with at most one worker the schedule is irrelevant: the canonical order *)
Lemma scheduled_members_sequential : forall c sched items, c_workers c <= 1 ->
    scheduled_members c sched items = all_members c items.
Proof.
  intros c sched items H. unfold scheduled_members, unzip_jobs.
  apply Nat.leb_le in H. rewrite H. simpl. rewrite interleave_single.
  unfold job_members. symmetry. apply all_members_zip_items.
Qed.

Lemma copy_entries_perm : forall c sched, Permutation (copy_entries c sched) (src_entries c).
Proof.
  intros c sched. unfold copy_entries, src_entries. destruct (c_dir c) as [items|]; [|apply Permutation_refl].
  destruct (mostly_zips items); [|apply Permutation_refl].
  apply perm_skip. apply Permutation_flat_map. apply scheduled_members_perm.
Qed.

Lemma copy_entries_in : forall c sched x, In x (copy_entries c sched) <-> In x (src_entries c).
Proof.
  intros c sched x. split; apply Permutation_in; [|apply Permutation_sym]; apply copy_entries_perm.
Qed.

Lemma copy_entries_consistent : forall c sched, src_ok c = true -> consistent (copy_entries c sched).
Proof.
  intros c sched Hok r e1 e2 H1 H2. apply copy_entries_in in H1. apply copy_entries_in in H2.
  eapply entries_consistent; eauto.
Qed.

(* the order in which consistent entries are written does not matter for the result *)
Lemma entries_order_irrelevant : forall base es es' s s1 ev1 s2 ev2, consistent es -> Permutation es es' ->
    run (flat_map (ops_of_entry base) es) s = Some (s1, ev1) ->
    run (flat_map (ops_of_entry base) es') s = Some (s2, ev2) ->
    forall x, lookup s1 x = lookup s2 x.
Proof.
  intros base es es' s s1 ev1 s2 ev2 Hc Hp H1 H2 x.
  assert (Hc' : consistent es').
  { intros r e1 e2 Ha Hb. apply (Permutation_in _ (Permutation_sym Hp)) in Ha.
    apply (Permutation_in _ (Permutation_sym Hp)) in Hb. eauto. }
  apply run_entries in H1; auto. apply run_entries in H2; auto.
  destruct H1 as [A1 B1], H2 as [A2 B2].
  destruct (in_dec path_eq_dec x (map (fun re => base ++ fst re) es)) as [Hi|Hn].
  - apply in_map_iff in Hi. destruct Hi as ([r e] & <- & Hi). simpl.
    rewrite (A1 _ _ Hi). symmetry. apply A2. eapply Permutation_in; eauto.
  - rewrite B1, B2; auto.
    + intros r e Hi E. apply Hn. apply in_map_iff. exists (r, e). split; auto.
      eapply Permutation_in; [apply Permutation_sym|]; eauto.
    + intros r e Hi E. apply Hn. apply in_map_iff. exists (r, e). split; auto.
Qed.

(* ====================================================================== *)
(* 4. the phases of one call                                               *)
(* ====================================================================== *)
Lemma sname_neq_ename : sname <> ename.
Proof. intros H. apply String.eqb_eq in H. vm_compute in H. discriminate. Qed.

Lemma tmp_name_neq : forall n, tmp_name n <> n.
Proof.
  unfold tmp_name. induction n as [|a n IH]; simpl.
  - discriminate.
  - intros H. inv H. auto.
Qed.

Lemma dst_tmp_disjoint : forall c r r', dst c ++ r <> tmp c ++ r'.
Proof.
  intros c r r' H. unfold dst, tmp in H. rewrite <- !app_assoc in H. apply app_inv_head in H.
  simpl in H. inv H. eapply tmp_name_neq; eauto.
Qed.

Lemma strip_dst_tmp : forall c r, strip (dst c) (tmp c ++ r) = None.
Proof.
  intros c r. destruct (strip (dst c) (tmp c ++ r)) as [x|] eqn:E; auto.
  apply strip_spec in E. symmetry in E. apply dst_tmp_disjoint in E. destruct E.
Qed.

Lemma ancestor_outside : forall c a, In a (inits (c_parent c)) ->
    (forall r, a <> dst c ++ r) /\ (forall r, a <> tmp c ++ r).
Proof.
  intros c a H. apply in_inits in H. destruct H as (r0 & H).
  split; intros r E; subst a; apply (f_equal (@List.length name)) in H;
    unfold dst, tmp in H; rewrite !app_length in H; simpl in H; lia.
Qed.

Lemma smark_neq_emark : forall c, smark c <> emark c.
Proof. intros c H. unfold smark, emark in H. apply app_inv_head in H. apply sname_neq_ename. congruence. Qed.

Lemma dst_app_nil : forall c, dst c ++ [] = dst c.
Proof. intros. apply app_nil_r. Qed.

(* states between the phases *)
Definition pre0 (c : config) (s : fs) : Prop := (forall r, lookup s (dst c ++ r) = None) /\ tmp_small c s.
Definition midK (c : config) (s : fs) : Prop :=
  lookup s (dst c) = Some Dir /\ (exists a, lookup s (smark c) = Some (File a)) /\
  lookup s (emark c) = None /\ tmp_small c s.
Definition clean (c : config) (s : fs) : Prop :=
  midK c s /\ forall r, r <> [] -> r <> [sname] -> lookup s (dst c ++ r) = None.
Definition copied (c : config) (s : fs) : Prop :=
  midK c s /\ lookup s (smark c) = Some (File start_text) /\
  forall r, r <> [] -> r <> [sname] -> r <> [ename] -> lookup s (dst c ++ r) = src_lookup c r.

Lemma pre0_auto : forall c s, pre0 c s -> auto_state c s.
Proof.
  intros c s [H1 H2]. split; auto. pose proof (H1 []) as H. rewrite dst_app_nil in H. rewrite H. auto.
Qed.

Lemma midK_auto : forall c s, midK c s -> auto_state c s.
Proof.
  intros c s (H1 & H2 & H3 & H4). split; auto. rewrite H1. split; auto. split; auto. congruence.
Qed.

Lemma complete_auto : forall c s, complete_copy c s -> tmp_small c s -> auto_state c s.
Proof.
  intros c s Hc Ht. split; auto. destruct Hc as (H1 & H2 & H3 & H4). rewrite H1.
  split; auto. split; auto. intros _. split; auto.
Qed.

(* ---- operations below dst that leave dst, the start marker and the (absent) end marker alone ---- *)
Definition mid_safe (c : config) (o : op) : Prop :=
  match o with
  | MkdirOk p | Create p | Write p _ => under (dst c) p = true /\ p <> emark c
  | Remove p => strictly_under (dst c) p = true /\ p <> smark c
  | _ => False
  end.

Lemma mid_safe_target : forall c o, mid_safe c o -> is_rename o = false /\ exists r, target o = dst c ++ r.
Proof.
  intros c o H. destruct o; simpl in *; try tauto; split; auto.
  - apply under_spec; tauto.
  - apply under_spec; tauto.
  - apply under_spec; tauto.
  - destruct H as [H _]. apply strictly_under_spec in H. destruct H as (a & r & ->). eauto.
Qed.

Lemma mid_safe_pres : forall c o s s1 e, mid_safe c o -> midK c s -> apply o s = Some (s1, e) -> midK c s1.
Proof.
  intros c o s s1 e Hs (Hd & (a & Hm) & He & Ht) Ha.
  destruct (mid_safe_target _ _ Hs) as [Hr (r0 & Htg)].
  pose proof (apply_frame _ _ _ _ Ha Hr) as Hf.
  assert (Ht1 : tmp_small c s1).
  { intros r Hl. apply Ht. rewrite <- Hf; auto. rewrite Htg. intros E. symmetry in E. eapply dst_tmp_disjoint; eauto. }
  assert (He1 : lookup s1 (emark c) = None).
  { destruct (path_eq_dec (emark c) (target o)) as [E|N]; [|rewrite Hf; auto].
    destruct o; simpl in Hs, E; try tauto; subst p; try tauto.
    apply apply_remove_pre in Ha. congruence. }
  assert (Hd1 : lookup s1 (dst c) = Some Dir).
  { destruct (path_eq_dec (dst c) (target o)) as [E|N]; [|rewrite Hf; auto].
    destruct o; simpl in Hs, E; try tauto; subst p.
    - eapply apply_mkdirok; eauto.
    - apply apply_create_pre in Ha. congruence.
    - apply apply_write_pre in Ha. destruct Ha as (a' & Ha). congruence.
    - destruct Hs as [Hs _]. apply strictly_under_spec in Hs. destruct Hs as (x & r & Hs).
      rewrite <- (app_nil_r (dst c)) in Hs at 1. apply app_inv_head in Hs. discriminate. }
  assert (Hm1 : exists a1, lookup s1 (smark c) = Some (File a1)).
  { destruct (path_eq_dec (smark c) (target o)) as [E|N]; [|rewrite Hf; eauto].
    destruct o; simpl in Hs, E; try tauto; subst p.
    - simpl in Ha. rewrite Hm in Ha. discriminate.
    - apply apply_create in Ha. eauto.
    - apply apply_write in Ha. eauto.
    - tauto. }
  repeat split; auto.
Qed.

Lemma tear_inv : forall n o o', tear n o = Some o' -> exists p c, o = Write p c /\ o' = Write p (firstn n c).
Proof. intros n o o' H. destruct o; simpl in H; try discriminate. inv H. eauto. Qed.

Lemma mid_safe_tear : forall c, tear_closed (mid_safe c).
Proof. intros c o o' n Hs Ht. apply tear_inv in Ht. destruct Ht as (p & k & -> & ->). exact Hs. Qed.

(* ---- wipe (repaired): every entry except the start marker ---- *)
Lemma wipe_safe : forall c order, order_in_dst c order -> forall o, In o (wipe_ops true c order) -> mid_safe c o.
Proof.
  intros c order Ho o Hi. unfold wipe_ops in Hi. apply in_map_iff in Hi. destruct Hi as (p & <- & Hi).
  apply filter_In in Hi. destruct Hi as [Hi Hn]. unfold order_in_dst in Ho. rewrite Forall_forall in Ho.
  simpl. split; auto. intros ->. rewrite path_eqb_refl in Hn. discriminate.
Qed.

Lemma run_removes : forall l s s' e, run (map Remove l) s = Some (s', e) ->
    (forall p, In p l -> lookup s' p = None) /\ (forall x, lookup s x = None -> lookup s' x = None).
Proof.
  induction l as [|p l IH]; intros s s' e H.
  - simpl in H. inv H. split; [intros p []|auto].
  - simpl map in H. apply run_cons_inv in H. destruct H as (s1 & e1 & e2 & Ha & Hr & _).
    destruct (IH _ _ _ Hr) as [IH1 IH2].
    assert (Hn : forall x, lookup s x = None -> lookup s1 x = None).
    { intros x Hx. destruct (path_eq_dec x p) as [->|N].
      - eapply apply_remove; eauto.
      - rewrite (apply_frame _ _ _ _ Ha eq_refl); auto. }
    split.
    + intros q [<-|Hq]; auto. apply IH2. eapply apply_remove; eauto.
    + intros x Hx. auto.
Qed.

Lemma wipe_run_clean : forall c order s s1 e, midK c s -> order_in_dst c order -> order_covers c s order ->
    run (wipe_ops true c order) s = Some (s1, e) -> clean c s1.
Proof.
  intros c order s s1 e Hk Ho Hc Hr. split.
  - eapply run_pres; [| exact Hk | exact Hr]. intros o s2 s3 e3 Hi Hk2 Ha.
    eapply mid_safe_pres; eauto. eapply wipe_safe; eauto.
  - intros r Hr1 Hr2. unfold wipe_ops in Hr. apply run_removes in Hr. destruct Hr as [H1 H2].
    destruct (lookup s (dst c ++ r)) eqn:El; [|auto].
    apply H1. apply filter_In. split.
    + apply Hc; auto. congruence.
    + rewrite path_eqb_neq; auto. unfold smark. intros E. apply app_inv_head in E. auto.
Qed.

(* ---- create (repaired): temporary sibling, renamed into place ---- *)
Definition pre_safe (c : config) (o : op) : Prop :=
  is_rename o = false /\ (forall r, target o <> dst c ++ r) /\
  (forall r, target o = tmp c ++ r -> r = [] \/ r = [sname]).

Lemma pre_safe_pres : forall c o s s1 e, pre_safe c o -> pre0 c s -> apply o s = Some (s1, e) -> pre0 c s1.
Proof.
  intros c o s s1 e (Hr & Hd & Ht) [H1 H2] Ha. pose proof (apply_frame _ _ _ _ Ha Hr) as Hf. split.
  - intros r. rewrite Hf; auto.
  - intros r Hl. destruct (path_eq_dec (tmp c ++ r) (target o)) as [E|N]; auto.
    apply H2. rewrite <- Hf; auto.
Qed.

Lemma pre_safe_tear : forall c, tear_closed (pre_safe c).
Proof. intros c o o' n Hs Ht. apply tear_inv in Ht. destruct Ht as (p & k & -> & ->). exact Hs. Qed.

Definition tmark (c : config) : path := tmp c ++ [sname].

Lemma create_split : forall c,
    create_ops true c =
    ((mkdir_p (c_parent c) ++ [MkdirOk (tmp c); Create (tmark c)]) ++ [Write (tmark c) start_text])
      ++ [Rename (tmp c) (dst c)].
Proof. intros c. unfold create_ops, tmark. rewrite <- !app_assoc. reflexivity. Qed.

Lemma create_pre_safe : forall c o,
    In o ((mkdir_p (c_parent c) ++ [MkdirOk (tmp c); Create (tmark c)]) ++ [Write (tmark c) start_text]) -> pre_safe c o.
Proof.
  intros c o H. rewrite <- app_assoc in H. apply in_app_iff in H. destruct H as [H|H].
  - unfold mkdir_p in H. apply in_map_iff in H. destruct H as (a & <- & H).
    assert (Hi : In a (inits (c_parent c))).
    { destruct (c_parent c); simpl in *; auto. }
    destruct (ancestor_outside _ _ Hi) as [Hd Ht]. split; [reflexivity|]. split; simpl; auto.
    intros r E. exfalso. eapply Ht; eauto.
  - assert (Hx : target o = tmp c \/ target o = tmark c).
    { simpl in H. destruct H as [<-|[<-|[<-|[]]]]; simpl; auto. }
    assert (Hr : is_rename o = false).
    { simpl in H. destruct H as [<-|[<-|[<-|[]]]]; simpl; auto. }
    split; auto. split.
    + intros r E. destruct Hx as [Hx|Hx]; rewrite Hx in E.
      * rewrite <- (app_nil_r (tmp c)) in E. symmetry in E. eapply dst_tmp_disjoint; eauto.
      * unfold tmark in E. symmetry in E. eapply dst_tmp_disjoint; eauto.
    + intros r E. destruct Hx as [Hx|Hx]; rewrite Hx in E.
      * rewrite <- (app_nil_r (tmp c)) in E at 1. apply app_inv_head in E. auto.
      * unfold tmark in E. apply app_inv_head in E. auto.
Qed.

Lemma rename_clean : forall c s s2 e a, pre0 c s -> lookup s (tmark c) = Some (File a) ->
    apply (Rename (tmp c) (dst c)) s = Some (s2, e) -> clean c s2.
Proof.
  intros c s s2 e a [H1 H2] Hm Ha. apply apply_rename in Ha. destruct Ha as (-> & Htd & _).
  pose proof (lookup_rename (tmp c) (dst c) s H1) as L.
  assert (Ld : forall r, lookup (rename (tmp c) (dst c) s) (dst c ++ r) = lookup s (tmp c ++ r)).
  { intros r. rewrite L, strip_app. reflexivity. }
  assert (Lt : forall r, lookup (rename (tmp c) (dst c) s) (tmp c ++ r) = None).
  { intros r. rewrite L, strip_dst_tmp, under_app. reflexivity. }
  assert (Hnone : forall r, r <> [] -> r <> [sname] -> lookup s (tmp c ++ r) = None).
  { intros r Hr1 Hr2. destruct (lookup s (tmp c ++ r)) eqn:E; auto.
    destruct (H2 r); congruence. }
  split; [split; [|split; [|split]]|].
  - pose proof (Ld []) as X. rewrite !app_nil_r in X. rewrite X. auto.
  - exists a. unfold smark. rewrite Ld. exact Hm.
  - unfold emark. rewrite Ld. apply Hnone; [discriminate|]. intros E. apply sname_neq_ename. congruence.
  - intros r Hl. rewrite Lt in Hl. congruence.
  - intros r Hr1 Hr2. rewrite Ld. auto.
Qed.

Lemma create_run_clean : forall c s s2 e, pre0 c s -> run (create_ops true c) s = Some (s2, e) -> clean c s2.
Proof.
  intros c s s2 e Hp H. rewrite create_split in H.
  apply run_app_inv in H. destruct H as (s1 & e1 & e2 & H1 & H2 & _).
  assert (Hp1 : pre0 c s1).
  { eapply run_pres; [| exact Hp | exact H1]. intros o sa sb eb Hi Hpa Ha.
    eapply pre_safe_pres; eauto. apply create_pre_safe; auto. }
  apply run_app_inv in H1. destruct H1 as (s0 & e3 & e4 & _ & Hw & _).
  apply run_cons_inv in Hw. destruct Hw as (s1' & e5 & e6 & Hw & Hn & _). simpl in Hn. inv Hn.
  apply apply_write in Hw.
  apply run_cons_inv in H2. destruct H2 as (s2' & e7 & e8 & Hr & Hn & _). simpl in Hn. inv Hn.
  eapply rename_clean; eauto.
Qed.

Lemma reach_one : forall o s s', (forall n, tear n o = None) -> reach [o] s s' ->
    s' = s \/ exists e, apply o s = Some (s', e).
Proof.
  intros o s s' Hn H. inversion H as [|o' ops' s0 s1 e s2 Ha Hr|o' o'' n ops' s0 s1 e Ht Ha]; subst; auto.
  - inversion Hr; subst. eauto.
  - rewrite Hn in Ht. discriminate.
Qed.

Lemma create_reach : forall c s s', pre0 c s -> reach (create_ops true c) s s' -> pre0 c s' \/ clean c s'.
Proof.
  intros c s s' Hp H. rewrite create_split in H. apply reach_app in H. destruct H as [H|(s1 & e1 & H1 & H2)].
  - left. eapply (reach_pres (pre_safe c)); [apply pre_safe_tear| | |exact Hp|exact H].
    + intros o sa sb eb Hi Hpa Ha. eapply pre_safe_pres; eauto.
    + intros o Hi. apply create_pre_safe; auto.
  - assert (Hp1 : pre0 c s1).
    { eapply run_pres; [| exact Hp | exact H1]. intros o sa sb eb Hi Hpa Ha.
      eapply pre_safe_pres; eauto. apply create_pre_safe; auto. }
    apply reach_one in H2; [|reflexivity]. destruct H2 as [->|(e & Hr)]; auto.
    right. apply run_app_inv in H1. destruct H1 as (s0 & e3 & e4 & _ & Hw & _).
    apply run_cons_inv in Hw. destruct Hw as (s1' & e5 & e6 & Hw & Hn & _). simpl in Hn. inv Hn.
    apply apply_write in Hw. eapply rename_clean; eauto.
Qed.

(* ---- start marker, copy, end marker ---- *)
Definition pre2 (c : config) (sched : list nat) : list op :=
  [Create (smark c); Write (smark c) start_text] ++ copy_ops c sched.
Definition last2 (c : config) : list op := [Create (emark c); Write (emark c) end_text].

Lemma common_split : forall c sched, common_ops c sched = pre2 c sched ++ last2 c.
Proof. intros c sched. unfold common_ops, pre2, last2. rewrite app_assoc. reflexivity. Qed.

Lemma src_ok_markers : forall c, src_ok c = true -> src_lookup c [sname] = None /\ src_lookup c [ename] = None.
Proof.
  intros c H. unfold src_ok in H. apply andb_true_iff in H. destruct H as [H H2].
  apply andb_true_iff in H. destruct H as [_ H1].
  destruct (src_lookup c [sname]); [discriminate|]. destruct (src_lookup c [ename]); [discriminate|]. auto.
Qed.

Lemma entries_not_marker : forall c r e, src_ok c = true -> In (r, e) (src_entries c) -> r <> [sname] /\ r <> [ename].
Proof.
  intros c r e Hok Hi. destruct (src_ok_markers _ Hok) as [H1 H2].
  apply entries_spec in Hi; auto. destruct Hi as [(-> & _)|[Hr Hl]].
  - split; discriminate.
  - split; intros ->; congruence.
Qed.

Lemma ops_of_entry_target : forall base r e o, In o (ops_of_entry base (r, e)) ->
    o = MkdirOk (base ++ r) \/ o = Create (base ++ r) \/ exists k, o = Write (base ++ r) k.
Proof.
  intros base r e o H. unfold ops_of_entry in H. simpl in H. destruct e as [|[|z k]]; simpl in H.
  - destruct H as [<-|[]]; auto.
  - destruct H as [<-|[]]; auto.
  - destruct H as [<-|[<-|[]]]; eauto.
Qed.

Lemma pre2_safe : forall c sched, src_ok c = true -> forall o, In o (pre2 c sched) -> mid_safe c o.
Proof.
  intros c sched Hok o H. unfold pre2 in H. apply in_app_iff in H. destruct H as [H|H].
  - assert (Hu : under (dst c) (smark c) = true) by apply under_app.
    pose proof (smark_neq_emark c). simpl in H. destruct H as [<-|[<-|[]]]; simpl; auto.
  - unfold copy_ops in H. apply in_flat_map in H. destruct H as ([r e] & Hi & H).
    apply copy_entries_in in Hi.
    destruct (entries_not_marker _ _ _ Hok Hi) as [_ Hne].
    assert (Hn : dst c ++ r <> emark c).
    { unfold emark. intros E. apply app_inv_head in E. auto. }
    pose proof (under_app (dst c) r) as Hu.
    apply ops_of_entry_target in H. destruct H as [->|[->|(k & ->)]]; simpl; auto.
Qed.

Lemma pre2_run : forall c sched s s2 e, src_ok c = true -> clean c s -> run (pre2 c sched) s = Some (s2, e) -> copied c s2.
Proof.
  intros c sched s s2 e Hok [Hk Hcl] H.
  assert (Hk2 : midK c s2).
  { eapply run_pres; [| exact Hk | exact H]. intros o sa sb eb Hi Hka Ha.
    eapply mid_safe_pres; eauto. eapply pre2_safe; eauto. }
  unfold pre2 in H. apply run_app_inv in H. destruct H as (s1 & e1 & e2 & H1 & H2 & _).
  apply run_cons_inv in H1. destruct H1 as (sa & ea & eb & Ha & H1 & _).
  apply run_cons_inv in H1. destruct H1 as (sb & ec & ed & Hb & H1 & _). simpl in H1. inv H1.
  assert (Hs1 : lookup s1 (smark c) = Some (File start_text)) by (eapply apply_write; eauto).
  assert (Hf1 : forall x, x <> smark c -> lookup s1 x = lookup s x).
  { intros x Hx. rewrite (apply_frame _ _ _ _ Hb eq_refl); auto. apply (apply_frame _ _ _ _ Ha eq_refl); auto. }
  unfold copy_ops in H2. apply run_entries in H2; [|apply copy_entries_consistent; auto].
  destruct H2 as [Hin Hout]. split; auto. split.
  - rewrite Hout; auto. intros r e' Hi E. unfold smark in E. apply app_inv_head in E. subst r.
    apply copy_entries_in in Hi. apply entries_not_marker in Hi; auto. tauto.
  - intros r Hr1 Hr2 Hr3. destruct (src_lookup c r) as [e'|] eqn:El.
    + apply Hin. apply copy_entries_in. apply entries_spec; auto.
    + rewrite Hout.
      * rewrite Hf1; auto. unfold smark. intros E. apply app_inv_head in E. auto.
      * intros r' e' Hi E. apply app_inv_head in E. subst r'. apply copy_entries_in in Hi.
        apply entries_spec in Hi; auto.
        destruct Hi as [(-> & _)|[_ Hl]]; congruence.
Qed.

Lemma end_states : forall c s2 s3, copied c s2 ->
    (forall x, x <> emark c -> lookup s3 x = lookup s2 x) -> (exists b, lookup s3 (emark c) = Some (File b)) ->
    complete_copy c s3 /\ tmp_small c s3 /\ lookup s3 (smark c) = Some (File start_text).
Proof.
  intros c s2 s3 ((Hd & _ & _ & Ht) & Hs & Hall) Hf He.
  assert (N1 : dst c <> emark c).
  { unfold emark. rewrite <- (app_nil_r (dst c)) at 1. intros E. apply app_inv_head in E. discriminate. }
  pose proof (smark_neq_emark c) as N2.
  split; [|split].
  - split; [rewrite Hf; auto|]. split; [rewrite Hf; eauto|]. split; auto.
    intros r Hr1 Hr2 Hr3. rewrite Hf; auto. unfold emark. intros E. apply app_inv_head in E. auto.
  - intros r Hl. apply Ht. rewrite <- Hf; auto. unfold emark. intros E. symmetry in E. eapply dst_tmp_disjoint; eauto.
  - rewrite Hf; auto.
Qed.

Lemma last2_run : forall c s2 s3 e, copied c s2 -> run (last2 c) s2 = Some (s3, e) ->
    complete_copy c s3 /\ tmp_small c s3 /\ lookup s3 (smark c) = Some (File start_text)
    /\ lookup s3 (emark c) = Some (File end_text).
Proof.
  intros c s2 s3 e Hc H. unfold last2 in H.
  apply run_cons_inv in H. destruct H as (sa & ea & eb & Ha & H & _).
  apply run_cons_inv in H. destruct H as (sb & ec & ed & Hb & H & _). simpl in H. inv H.
  assert (He : lookup s3 (emark c) = Some (File end_text)) by (eapply apply_write; eauto).
  destruct (end_states c s2 s3 Hc) as (H1 & H2 & H3); eauto.
  intros x Hx. rewrite (apply_frame _ _ _ _ Hb eq_refl); auto. apply (apply_frame _ _ _ _ Ha eq_refl); auto.
Qed.

Lemma copied_midK : forall c s, copied c s -> midK c s.
Proof. intros c s [H _]. exact H. Qed.

Lemma last2_reach : forall c s2 s', copied c s2 -> reach (last2 c) s2 s' -> auto_state c s'.
Proof.
  intros c s2 s' Hc H. unfold last2 in H.
  inversion H as [|o1 ops1 s0 sa ea s0' Ha Hr|o1 o1' n1 ops1 s0 sa ea Ht Ha]; subst.
  - apply midK_auto. apply copied_midK; auto.
  - assert (Hfa : forall x, x <> emark c -> lookup sa x = lookup s2 x).
    { intros x Hx. apply (apply_frame _ _ _ _ Ha eq_refl); auto. }
    inversion Hr as [|o2 ops2 s1 sb eb s1' Hb Hr2|o2 o2' n2 ops2 s1 sb eb Ht Hb]; subst.
    + destruct (end_states c s2 s' Hc Hfa) as (H1 & H2 & _).
      * apply apply_create in Ha. eauto.
      * apply complete_auto; auto.
    + inversion Hr2; subst.
      destruct (end_states c s2 s' Hc) as (H1 & H2 & _).
      * intros x Hx. rewrite (apply_frame _ _ _ _ Hb eq_refl); auto.
      * apply apply_write in Hb. eauto.
      * apply complete_auto; auto.
    + (* killed inside the write of the end marker: it exists with a prefix of its text *)
      simpl in Ht. inv Ht.
      destruct (end_states c s2 s' Hc) as (H1 & H2 & _).
      * intros x Hx. rewrite (apply_frame _ _ _ _ Hb eq_refl); auto.
      * apply apply_write in Hb. eauto.
      * apply complete_auto; auto.
  - simpl in Ht. discriminate.
Qed.

Lemma common_reach : forall c sched s s', src_ok c = true -> clean c s -> reach (common_ops c sched) s s' -> auto_state c s'.
Proof.
  intros c sched s s' Hok Hcl H. rewrite common_split in H. apply reach_app in H.
  destruct H as [H|(s2 & e2 & H2 & H)].
  - apply midK_auto. destruct Hcl as [Hk _].
    eapply (reach_pres (mid_safe c)); [apply mid_safe_tear| | |exact Hk|exact H].
    + intros o sa sb eb Hi Hka Ha. eapply mid_safe_pres; eauto.
    + intros o Hi. eapply pre2_safe; eauto.
  - eapply last2_reach; eauto. eapply pre2_run; eauto.
Qed.

Lemma common_run : forall c sched s s' e, src_ok c = true -> clean c s -> run (common_ops c sched) s = Some (s', e) ->
    complete_copy c s' /\ tmp_small c s' /\ lookup s' (smark c) = Some (File start_text)
    /\ lookup s' (emark c) = Some (File end_text) /\ e <> [].
Proof.
  intros c sched s s' e Hok Hcl H. rewrite common_split in H.
  apply run_app_inv in H. destruct H as (s2 & e1 & e2 & H1 & H2 & ->).
  pose proof (pre2_run _ _ _ _ _ Hok Hcl H1) as Hc.
  destruct (last2_run _ _ _ _ Hc H2) as (A & B & C & D).
  split; [auto|split; [auto|split; [auto|split; [auto|]]]].
  unfold pre2 in H1. simpl app in H1. apply run_cons_inv in H1. destruct H1 as (sa & ea & eb & Ha & _ & ->).
  apply apply_create_ev in Ha. subst ea. intros E. apply app_eq_nil in E. destruct E as [E _]. discriminate E.
Qed.

(* ====================================================================== *)
(* 5. invocations and histories (the repaired code)                        *)
(* ====================================================================== *)
Definition res_create (c : config) : result :=
  {| was_copied := true; was_deleted := false; source_format := Some (format_of c) |}.
Definition res_wipe (c : config) : result :=
  {| was_copied := true; was_deleted := true; source_format := Some (format_of c) |}.

Lemma plan_cases : forall c order sched s, auto_state c s ->
    (src_exists c = false /\ plan c order sched s = ORaise) \/
    (src_exists c = true /\ lookup s (dst c) = None /\ pre0 c s /\
     plan c order sched s = ORun (create_ops true c ++ common_ops c sched) (res_create c)) \/
    (src_exists c = true /\ midK c s /\
     plan c order sched s = ORun (wipe_ops true c order ++ common_ops c sched) (res_wipe c)) \/
    (src_exists c = true /\ complete_copy c s /\ lookup s (emark c) <> None /\ plan c order sched s = OSkip nothing_done).
Proof.
  intros c order sched s [Ht Ha]. unfold plan, plan_gen. destruct (src_exists c); simpl; auto.
  right. destruct (lookup s (dst c)) as [e|] eqn:Ed.
  - destruct Ha as (-> & (a & Hm) & He). rewrite Hm. destruct (lookup s (emark c)) as [b|] eqn:Ee.
    + right. right. split; [reflexivity|]. split; [apply He; congruence|]. split; [congruence|reflexivity].
    + right. left. split; [reflexivity|]. split; [|reflexivity]. split; [exact Ed|]. split; eauto.
  - left. split; [reflexivity|]. split; [reflexivity|]. split; [|reflexivity]. split; auto.
Qed.

Lemma firstn_app_le : forall (A : Type) k (a b : list A), k <= List.length a -> firstn k (a ++ b) = firstn k a.
Proof.
  intros A k a b H. rewrite firstn_app. replace (k - List.length a) with 0 by lia. simpl. apply app_nil_r.
Qed.

(* a call that finds an interrupted copy and is killed before it creates the end marker: whatever its directory
   scan returned (below dst), dst still has its start marker and no end marker *)
Lemma wipe_killed_early : forall c order sched s k t, src_ok c = true -> midK c s -> order_in_dst c order ->
    k <= List.length (wipe_ops true c order ++ common_ops c sched) - 2 ->
    midK c (crash_state_t (wipe_ops true c order ++ common_ops c sched) k t s).
Proof.
  intros c order sched s k t Hok Hk Ho Hle.
  rewrite common_split, app_assoc in *. rewrite app_length in Hle.
  change (List.length (last2 c)) with 2 in Hle.
  eapply (reach_pres (mid_safe c)); [apply mid_safe_tear| | |exact Hk|apply crash_t_app_le].
  - intros o sa sb eb Hi Hka Hap. eapply mid_safe_pres; eauto.
  - intros o Hi. apply in_app_iff in Hi. destruct Hi as [Hi|Hi]; [eapply wipe_safe; eauto|eapply pre2_safe; eauto].
  - lia.
  - intros o n Hh. unfold last2 in Hh. simpl in Hh. inv Hh. reflexivity.
Qed.

Lemma crashed_pres : forall c s a, src_ok c = true -> auto_state c s ->
    order_in_dst c (a_order a) -> (seals c s a -> order_covers c s (a_order a)) ->
    auto_state c (invoke_crashed true true c s a).
Proof.
  intros c s a Hok Ha Ho Hc. unfold invoke_crashed, seals in *. fold (plan c (a_order a) (a_sched a) s).
  destruct (plan_cases c (a_order a) (a_sched a) s Ha) as [(_ & E)|[(_ & Hd & Hp & E)|[(_ & Hk & E)|(_ & _ & _ & E)]]];
    rewrite E in *; auto.
  - pose proof (crash_t_reach (create_ops true c ++ common_ops c (a_sched a)) (a_kill a) (a_torn a) s) as H.
    apply reach_app in H. destruct H as [H|(s1 & e1 & H1 & H)].
    + apply create_reach in H; auto. destruct H as [H|[H _]]; [apply pre0_auto|apply midK_auto]; auto.
    + eapply common_reach; eauto. eapply create_run_clean; eauto.
  - destruct (le_lt_dec (a_kill a) (List.length (wipe_ops true c (a_order a) ++ common_ops c (a_sched a)) - 2)) as [Hle|Hlt].
    + apply midK_auto. apply wipe_killed_early; auto.
    + specialize (Hc Hlt).
      pose proof (crash_t_reach (wipe_ops true c (a_order a) ++ common_ops c (a_sched a)) (a_kill a) (a_torn a) s) as H.
      apply reach_app in H. destruct H as [H|(s1 & e1 & H1 & H)].
      * apply midK_auto. eapply (reach_pres (mid_safe c)); [apply mid_safe_tear| | |exact Hk|exact H].
        -- intros o sa sb eb Hi Hka Hap. eapply mid_safe_pres; eauto.
        -- intros o Hi. eapply wipe_safe; eauto.
      * eapply common_reach; eauto. eapply wipe_run_clean; eauto.
Qed.

Lemma auto_state_history : forall c h s, src_ok c = true -> auto_state c s -> attempts_ok c h s ->
    auto_state c (after_crashes true true c h s).
Proof.
  intros c h. induction h as [|a h IH]; intros s Hok Ha Hh; simpl; auto.
  destruct Hh as (H1 & H2 & H3). apply IH; auto. apply crashed_pres; auto.
Qed.

(* "every call sees an honest listing" is a special case of what is assumed *)
Lemma honest_attempts_ok : forall c h s, attempts_honest c h s -> attempts_ok c h s.
Proof.
  intros c h. induction h as [|a h IH]; intros s H; simpl in *; auto.
  destruct H as (H1 & H2 & H3). auto.
Qed.

Lemma fresh_auto : forall c s, fresh c s -> auto_state c s.
Proof.
  intros c s [H1 H2]. apply pre0_auto. split; auto. intros r Hl. rewrite H2 in Hl. congruence.
Qed.

(* what a call that returns has done *)
Lemma invoke_spec : forall c order sched s s' r evs, src_ok c = true -> auto_state c s ->
    order_in_dst c order -> order_covers c s order ->
    invoke true true c order sched s = Some (s', r, evs) ->
    (complete_copy c s' /\ tmp_small c s' /\
     lookup s' (smark c) = Some (File start_text) /\ lookup s' (emark c) = Some (File end_text) /\
     evs <> [] /\ lookup s (emark c) = None /\
     ((lookup s (dst c) = None /\ r = res_create c) \/ (lookup s (dst c) = Some Dir /\ r = res_wipe c)))
    \/ (complete_copy c s /\ lookup s (emark c) <> None /\ s' = s /\ r = nothing_done /\ evs = []).
Proof.
  intros c order sched s s' r evs Hok Ha Ho Hc H. unfold invoke in H. fold (plan c order sched s) in H.
  destruct (plan_cases c order sched s Ha) as [(_ & E)|[(_ & Hd & Hp & E)|[(_ & Hk & E)|(_ & Hcc & Hee & E)]]];
    rewrite E in H; try discriminate.
  - left. destruct (run (create_ops true c ++ common_ops c sched) s) as [[s2 e2]|] eqn:Er; [|discriminate]. inv H.
    apply run_app_inv in Er. destruct Er as (s1 & e1 & e3 & H1 & H2 & ->).
    apply create_run_clean in H1; auto. apply common_run in H2; auto.
    destruct H2 as (A & B & C & D & F).
    split; [exact A|]. split; [exact B|]. split; [exact C|]. split; [exact D|].
    split; [intros X; apply app_eq_nil in X; tauto|].
    split; [destruct Hp as [Hp _]; unfold emark; apply Hp|].
    left. split; auto.
  - left. destruct (run (wipe_ops true c order ++ common_ops c sched) s) as [[s2 e2]|] eqn:Er; [|discriminate]. inv H.
    apply run_app_inv in Er. destruct Er as (s1 & e1 & e3 & H1 & H2 & ->).
    eapply wipe_run_clean in H1; eauto. apply common_run in H2; auto.
    destruct H2 as (A & B & C & D & F). destruct Hk as (K1 & K2 & K3 & K4).
    split; [exact A|]. split; [exact B|]. split; [exact C|]. split; [exact D|].
    split; [intros X; apply app_eq_nil in X; tauto|].
    split; [exact K3|]. right. split; auto.
  - right. inv H. auto.
Qed.

(* ---- manual folders ---- *)
Lemma manual_plan : forall fa fw c order sched s, manual c s ->
    plan_gen fa fw c order sched s = ORaise \/ plan_gen fa fw c order sched s = OSkip nothing_done.
Proof.
  intros fa fw c order sched s [H1 H2]. unfold plan_gen. destruct (src_exists c); simpl; auto.
  destruct (lookup s (dst c)); [|congruence]. rewrite H2. auto.
Qed.

Lemma manual_crashed : forall fa fw c s a, manual c s -> invoke_crashed fa fw c s a = s.
Proof.
  intros fa fw c s a H. unfold invoke_crashed.
  destruct (manual_plan fa fw c (a_order a) (a_sched a) s H) as [-> | ->]; auto.
Qed.

Lemma manual_crashes : forall fa fw c h s, manual c s -> after_crashes fa fw c h s = s.
Proof.
  intros fa fw c h. induction h as [|a h IH]; intros s H; simpl; auto.
  rewrite manual_crashed; auto.
Qed.

Lemma manual_untouched : forall c h order sched s0 s' r evs, manual c s0 ->
    history_run true true c h order sched s0 = Some (s', r, evs) -> s' = s0 /\ r = nothing_done /\ evs = [].
Proof.
  intros c h order sched s0 s' r evs Hm H. unfold history_run in H. rewrite manual_crashes in H; auto.
  unfold invoke in H. destruct (manual_plan true true c order sched s0 Hm) as [E|E]; rewrite E in H; [discriminate|].
  inv H. auto.
Qed.

(* ---- a completed copy ---- *)
Lemma done_plan : forall fa fw c order sched s, src_exists c = true ->
    lookup s (dst c) <> None -> lookup s (smark c) <> None -> lookup s (emark c) <> None ->
    plan_gen fa fw c order sched s = OSkip nothing_done.
Proof.
  intros fa fw c order sched s Hs H1 H2 H3. unfold plan_gen. rewrite Hs. simpl.
  destruct (lookup s (dst c)); [|congruence]. destruct (lookup s (smark c)); [|congruence].
  destruct (lookup s (emark c)); [|congruence]. reflexivity.
Qed.

Lemma done_never_redone : forall c s, src_exists c = true ->
    lookup s (dst c) <> None -> lookup s (smark c) <> None -> lookup s (emark c) <> None ->
    (forall order sched, invoke true true c order sched s = Some (s, nothing_done, [])) /\
    (forall h, after_crashes true true c h s = s).
Proof.
  intros c s Hs H1 H2 H3. split.
  - intros order sched. unfold invoke. rewrite done_plan; auto.
  - assert (Hc : forall a, invoke_crashed true true c s a = s).
    { intros a. unfold invoke_crashed. rewrite done_plan; auto. }
    induction h as [|a h IH]; simpl; auto. rewrite Hc. exact IH.
Qed.

Lemma complete_marks : forall c s, complete_copy c s ->
    lookup s (dst c) <> None /\ lookup s (smark c) <> None /\ lookup s (emark c) <> None.
Proof. intros c s (H1 & (a & H2) & (b & H3) & _). repeat split; congruence. Qed.

Lemma invoke_src_exists : forall fa fw c order sched s x, invoke fa fw c order sched s = Some x -> src_exists c = true.
Proof.
  intros fa fw c order sched s x H. unfold invoke, plan_gen in H. destruct (src_exists c); auto. simpl in H. discriminate.
Qed.

(* ---- the theorems ---- *)
Lemma complete_call_yields_copy_l : forall c order sched s s' r evs, src_ok c = true -> auto_state c s ->
    order_in_dst c order -> order_covers c s order ->
    invoke true true c order sched s = Some (s', r, evs) ->
    complete_copy c s' /\
    (was_copied r = true -> lookup s' (smark c) = Some (File start_text) /\ lookup s' (emark c) = Some (File end_text)).
Proof.
  intros c order sched s s' r evs Hok Ha Ho Hc H.
  destruct (invoke_spec _ _ _ _ _ _ _ Hok Ha Ho Hc H) as [(A & B & C & D & _)|(A & _ & -> & -> & _)].
  - auto.
  - split; auto. simpl. discriminate.
Qed.

Lemma result_truthful_l : forall c order sched s s' r evs, src_ok c = true -> auto_state c s ->
    order_in_dst c order -> order_covers c s order ->
    invoke true true c order sched s = Some (s', r, evs) ->
    (was_copied r = true /\ source_format r = Some (format_of c) /\ evs <> [] /\
     complete_copy c s' /\ lookup s (emark c) = None /\
     (was_deleted r = true <-> lookup s (dst c) <> None))
    \/ (r = nothing_done /\ evs = [] /\ s' = s /\ complete_copy c s).
Proof.
  intros c order sched s s' r evs Hok Ha Ho Hc H.
  destruct (invoke_spec _ _ _ _ _ _ _ Hok Ha Ho Hc H) as [(A & B & C & D & E & F & G)|(A & _ & -> & -> & ->)].
  - left. destruct G as [[G ->]|[G ->]]; simpl.
    + split; [reflexivity|]. split; [reflexivity|]. split; [exact E|]. split; [exact A|]. split; [exact F|].
      split; [intros X; discriminate X|intros X; congruence].
    + split; [reflexivity|]. split; [reflexivity|]. split; [exact E|]. split; [exact A|]. split; [exact F|].
      split; [intros X; congruence|reflexivity].
  - right. auto.
Qed.

Lemma crash_safe_l : forall c h order sched s0 s' r evs, src_ok c = true -> (fresh c s0 \/ manual c s0) ->
    attempts_ok c h s0 -> order_in_dst c order -> order_covers c (after_crashes true true c h s0) order ->
    history_run true true c h order sched s0 = Some (s', r, evs) ->
    (fresh c s0 /\ complete_copy c s') \/ (manual c s0 /\ s' = s0).
Proof.
  intros c h order sched s0 s' r evs Hok [Hf|Hm] Hh Ho Hc H.
  - left. split; auto. unfold history_run in H.
    eapply complete_call_yields_copy_l in H; eauto; [tauto|].
    apply auto_state_history; auto. apply fresh_auto; auto.
  - right. split; auto. eapply manual_untouched in H; eauto. tauto.
Qed.

Lemma completed_copy_never_redone_l : forall c h order sched s0 s' r evs, src_ok c = true -> fresh c s0 ->
    attempts_ok c h s0 -> order_in_dst c order -> order_covers c (after_crashes true true c h s0) order ->
    history_run true true c h order sched s0 = Some (s', r, evs) ->
    forall h2 order2 sched2, history_run true true c h2 order2 sched2 s' = Some (s', nothing_done, []).
Proof.
  intros c h order sched s0 s' r evs Hok Hf Hh Ho Hc H h2 order2 sched2.
  pose proof (invoke_src_exists _ _ _ _ _ _ _ H) as Hs.
  destruct (crash_safe_l _ _ _ _ _ _ _ _ Hok (or_introl Hf) Hh Ho Hc H) as [[_ Hcc]|[[Hm _] _]].
  - destruct (complete_marks _ _ Hcc) as (M1 & M2 & M3).
    destruct (done_never_redone c s' Hs M1 M2 M3) as [D1 D2].
    unfold history_run. rewrite D2. apply D1.
  - destruct Hf as [Hf _]. specialize (Hf []). rewrite app_nil_r in Hf. congruence.
Qed.

(* ====================================================================== *)
(* 6. the code before the repairs: refuting histories                      *)
(* ====================================================================== *)
Open Scope string_scope.
Definition w_cfg : config :=
  {| c_variant := VFolder; c_parent := ["l"]; c_name := "data";
     c_dir := Some [("a.txt", TFile [65%Z]); ("z.txt", TFile [90%Z])]; c_zips := []; c_zip := None; c_workers := 0 |}.
Definition w_s0 : fs := [([], Dir)].
Definition w_dst : path := ["l"; "data"].

(* window (i): killed right after dst_path.mkdir(parents=True), before the start marker is written *)
Definition w1_history : list attempt := [{| a_order := []; a_sched := []; a_kill := 2; a_torn := None |}].
(* window (ii): first attempt killed while copying (a.txt is there, z.txt not yet); the second attempt finds the
   incomplete copy, its rmtree scan lists the start marker first, and it is killed after that one unlink *)
Definition w2_history : list attempt :=
  [{| a_order := []; a_sched := []; a_kill := 6; a_torn := None |};
   {| a_order := [(w_dst ++ [sname])%list; (w_dst ++ ["a.txt"])%list]; a_sched := []; a_kill := 1; a_torn := None |}].
(* the same second window when only the first repair is in place (the folder is created atomically) *)
Definition w2_history_atomic : list attempt :=
  [{| a_order := []; a_sched := []; a_kill := 9; a_torn := None |};
   {| a_order := [(w_dst ++ [sname])%list; (w_dst ++ ["a.txt"])%list]; a_sched := []; a_kill := 1; a_torn := None |}].
Close Scope string_scope.

(* the listings of the witnesses are honest *)
Fixpoint honest (fa fw : bool) (c : config) (h : list attempt) (s : fs) : Prop :=
  match h with
  | [] => True
  | a :: h' => order_in_dst c (a_order a) /\ order_covers c s (a_order a)
               /\ honest fa fw c h' (invoke_crashed fa fw c s a)
  end.

Lemma lookup_in_keys : forall s p, lookup s p <> None -> In p (map fst s).
Proof.
  induction s as [|[k e] s IH]; intros p H; simpl in *; [congruence|].
  destruct (path_eqb_spec k p); auto.
Qed.

Lemma w_fresh : fresh w_cfg w_s0.
Proof. split; intros r; reflexivity. Qed.

Lemma w_src_ok : src_ok w_cfg = true.
Proof. vm_compute. reflexivity. Qed.

Ltac covers_by_keys :=
  let r := fresh "r" in let Hr := fresh "Hr" in let Hl := fresh "Hl" in
  intros r Hr Hl; apply lookup_in_keys in Hl; vm_compute in Hl;
  change (dst w_cfg ++ r) with ("l"%string :: "data"%string :: r);
  repeat (destruct Hl as [Hl|Hl];
          [first [discriminate Hl | (exfalso; apply Hr; injection Hl; intros; subst; reflexivity) | (rewrite <- Hl; vm_compute; tauto)]|]);
  try contradiction.

Lemma w1_refutes : exists s' r evs,
    honest false false w_cfg w1_history w_s0 /\
    history_run false false w_cfg w1_history [] [] w_s0 = Some (s', r, evs) /\
    r = nothing_done /\ ~ complete_copy w_cfg s'.
Proof.
  eexists. eexists. eexists. split; [|split; [vm_compute; reflexivity|split; [reflexivity|]]].
  - simpl. split; [constructor|]. split; [covers_by_keys|exact I].
  - intros (_ & (a & H) & _). vm_compute in H. discriminate.
Qed.

Lemma w2_refutes_gen : forall fa h, (fa = false /\ h = w2_history) \/ (fa = true /\ h = w2_history_atomic) ->
    exists s' r evs,
    honest fa false w_cfg h w_s0 /\
    order_covers w_cfg (after_crashes fa false w_cfg h w_s0) [w_dst ++ ["a.txt"%string]] /\
    history_run fa false w_cfg h [w_dst ++ ["a.txt"%string]] [] w_s0 = Some (s', r, evs) /\
    r = nothing_done /\ ~ complete_copy w_cfg s'.
Proof.
  intros fa h [[-> ->]|[-> ->]].
  - eexists. eexists. eexists. split; [|split; [|split; [vm_compute; reflexivity|split; [reflexivity|]]]].
    + simpl. split; [constructor|]. split; [covers_by_keys|].
      split; [repeat constructor|]. split; [covers_by_keys|exact I].
    + covers_by_keys.
    + intros (_ & (a & H) & _). vm_compute in H. discriminate.
  - eexists. eexists. eexists. split; [|split; [|split; [vm_compute; reflexivity|split; [reflexivity|]]]].
    + simpl. split; [constructor|]. split; [covers_by_keys|].
      split; [repeat constructor|]. split; [covers_by_keys|exact I].
    + covers_by_keys.
    + intros (_ & (a & H) & _). vm_compute in H. discriminate.
Qed.

(* with only the second repair (the wipe keeps the marker) window (i) is still open *)
Lemma w1_refutes_wipe_fix_only : exists s' r evs,
    honest false true w_cfg w1_history w_s0 /\
    history_run false true w_cfg w1_history [] [] w_s0 = Some (s', r, evs) /\
    r = nothing_done /\ ~ complete_copy w_cfg s'.
Proof.
  eexists. eexists. eexists. split; [|split; [vm_compute; reflexivity|split; [reflexivity|]]].
  - simpl. split; [constructor|]. split; [covers_by_keys|exact I].
  - intros (_ & (a & H) & _). vm_compute in H. discriminate.
Qed.

(* ... and the same histories are harmless for the repaired code *)
Lemma w_repaired_ok : forall h, h = w1_history \/ h = w2_history_atomic ->
    exists s' r evs, history_run true true w_cfg h
                                 [w_dst ++ [sname]] [] w_s0 = Some (s', r, evs)
                     /\ complete_copyb w_cfg s' = true /\ was_copied r = true.
Proof.
  intros h [->| ->]; eexists; eexists; eexists; (split; [vm_compute; reflexivity|split; vm_compute; reflexivity]).
Qed.

(* ====================================================================== *)
(* 7. the executable completeness test used by the correspondence check    *)
(* ====================================================================== *)
Lemma content_eqb_eq : forall a b, content_eqb a b = true -> a = b.
Proof.
  induction a as [|x a IH]; destruct b as [|y b]; simpl; intros H; try discriminate; auto.
  apply andb_true_iff in H. destruct H as [H1 H2]. apply Z.eqb_eq in H1. f_equal; auto.
Qed.

Lemma oentry_eqb_eq : forall a b, oentry_eqb a b = true -> a = b.
Proof.
  intros [[|x]|] [[|y]|]; simpl; intros H; try discriminate; auto.
  apply content_eqb_eq in H. congruence.
Qed.

Lemma lookup_in : forall s p, lookup s p <> None -> exists e, In (p, e) s.
Proof.
  induction s as [|[k e] s IH]; intros p H; simpl in *; [congruence|].
  destruct (path_eqb_spec k p) as [->|N].
  - exists e. auto.
  - destruct (IH _ H) as (e' & Hi). eauto.
Qed.

Lemma complete_copyb_sound_l : forall c s, src_ok c = true -> complete_copyb c s = true -> complete_copy c s.
Proof.
  intros c s Hok H. unfold complete_copyb in H.
  apply andb_true_iff in H. destruct H as [H H5]. apply andb_true_iff in H. destruct H as [H H4].
  apply andb_true_iff in H. destruct H as [H H3]. apply andb_true_iff in H. destruct H as [H1 H2].
  apply oentry_eqb_eq in H1. rewrite forallb_forall in H4, H5.
  split; auto. split.
  { destruct (lookup s (smark c)) as [[|a]|]; try discriminate. eauto. }
  split.
  { destruct (lookup s (emark c)) as [[|a]|]; try discriminate. eauto. }
  intros r Hr1 Hr2 Hr3. destruct (lookup s (dst c ++ r)) as [e|] eqn:El.
  - assert (Hl : lookup s (dst c ++ r) <> None) by congruence.
    apply lookup_in in Hl. destruct Hl as (e' & Hi). specialize (H4 _ Hi). simpl in H4.
    rewrite strip_app in H4. destruct r as [|n r]; [congruence|].
    rewrite (path_eqb_neq _ _ Hr2), (path_eqb_neq _ _ Hr3) in H4. simpl in H4.
    apply oentry_eqb_eq in H4. congruence.
  - destruct (src_lookup c r) as [e|] eqn:Es; auto. exfalso.
    assert (Hi : In (r, e) (src_entries c)).
    { apply entries_spec; auto. }
    specialize (H5 _ Hi). simpl in H5. destruct r as [|n r]; [congruence|].
    rewrite El, Es in H5. discriminate.
Qed.

(* ====================================================================== *)
(* 8. the premises of the theorems are satisfiable                         *)
(* ====================================================================== *)
Definition nv_history : list attempt :=
  [{| a_order := []; a_sched := []; a_kill := 9; a_torn := None |};
   {| a_order := [w_dst ++ [sname]; w_dst ++ ["a.txt"%string]]; a_sched := []; a_kill := 0; a_torn := None |};
   {| a_order := [w_dst ++ ["a.txt"%string]; w_dst ++ [sname]]; a_sched := []; a_kill := 3; a_torn := None |}].
Definition nv_order : list path := [w_dst ++ [sname]].

Lemma nv_premises : src_ok w_cfg = true /\ fresh w_cfg w_s0 /\ attempts_ok w_cfg nv_history w_s0 /\
    order_in_dst w_cfg nv_order /\ order_covers w_cfg (after_crashes true true w_cfg nv_history w_s0) nv_order /\
    exists s' evs, history_run true true w_cfg nv_history nv_order [] w_s0 = Some (s', res_wipe w_cfg, evs).
Proof.
  split; [apply w_src_ok|]. split; [apply w_fresh|]. split; [|split; [repeat constructor|split]].
  - apply honest_attempts_ok. simpl. split; [constructor|]. split; [covers_by_keys|].
    split; [repeat constructor|]. split; [covers_by_keys|].
    split; [repeat constructor|]. split; [covers_by_keys|exact I].
  - covers_by_keys.
  - eexists. eexists. vm_compute. reflexivity.
Qed.

Definition nv_manual_s0 : fs :=
  [([], Dir); (["l"%string], Dir); (w_dst, Dir); (w_dst ++ ["mine.txt"%string], File [1%Z])].

Lemma nv_manual : manual w_cfg nv_manual_s0 /\
    history_run true true w_cfg nv_history nv_order [] nv_manual_s0 = Some (nv_manual_s0, nothing_done, []).
Proof. split; [split; [vm_compute; discriminate|reflexivity]|vm_compute; reflexivity]. Qed.

(* ====================================================================== *)
(* 9. nothing that existed outside dst / the temporary sibling is touched  *)
(* ====================================================================== *)
Definition outside (c : config) (x : path) : Prop := under (dst c) x = false /\ under (tmp c) x = false.
Definition keeps (c : config) (s s' : fs) : Prop :=
  forall x, outside c x -> lookup s x <> None -> lookup s' x = lookup s x.

Lemma keeps_refl : forall c s, keeps c s s.
Proof. intros c s x _ _. reflexivity. Qed.

Lemma keeps_trans : forall c s1 s2 s3, keeps c s1 s2 -> keeps c s2 s3 -> keeps c s1 s3.
Proof.
  intros c s1 s2 s3 H1 H2 x Ho Hl. rewrite H2; auto. rewrite H1; auto.
Qed.

Definition benign (c : config) (o : op) : Prop :=
  is_rename o = false /\
  ((exists r, target o = dst c ++ r) \/ (exists r, target o = tmp c ++ r) \/ (exists a, o = MkdirOk a)).

Lemma benign_keeps : forall c o s s1 e, benign c o -> apply o s = Some (s1, e) -> keeps c s s1.
Proof.
  intros c o s s1 e [Hr Hb] Ha x [Hd Ht] Hl.
  destruct Hb as [(r & E)|[(r & E)|(a & ->)]].
  - apply (apply_frame _ _ _ _ Ha Hr). rewrite E. intros ->. rewrite under_app in Hd. discriminate.
  - apply (apply_frame _ _ _ _ Ha Hr). rewrite E. intros ->. rewrite under_app in Ht. discriminate.
  - destruct (path_eq_dec x a) as [->|N].
    + simpl in Ha. destruct (lookup s a) as [[|k]|] eqn:El; try discriminate; [inv Ha; assumption|congruence].
    + apply (apply_frame _ _ _ _ Ha eq_refl). exact N.
Qed.

Lemma benign_list_keeps : forall c ops, (forall o, In o ops -> benign c o) ->
    forall s s', reach ops s s' -> keeps c s s'.
Proof.
  intros c ops Hb s s' H. induction H.
  - apply keeps_refl.
  - eapply keeps_trans.
    + eapply benign_keeps; eauto. apply Hb. left; auto.
    + apply IHreach. intros o' Hi. apply Hb. right; auto.
  - eapply benign_keeps; eauto. apply tear_inv in H. destruct H as (p & k & -> & ->).
    assert (Hx : benign c (Write p k)) by (apply Hb; left; auto).
    destruct Hx as [Hr [Hx|[Hx|(a & Hx)]]]; [split; auto|split; auto|discriminate Hx].
Qed.

Lemma mid_safe_benign : forall c o, mid_safe c o -> benign c o.
Proof. intros c o H. destruct (mid_safe_target _ _ H) as [Hr Ht]. split; auto. Qed.

Lemma pre1_benign : forall c o,
    In o ((mkdir_p (c_parent c) ++ [MkdirOk (tmp c); Create (tmark c)]) ++ [Write (tmark c) start_text]) -> benign c o.
Proof.
  intros c o H. rewrite <- app_assoc in H. apply in_app_iff in H. destruct H as [H|H].
  - unfold mkdir_p in H. apply in_map_iff in H. destruct H as (a & <- & _). split; [reflexivity|]. right. right. eauto.
  - simpl in H. destruct H as [<-|[<-|[<-|[]]]]; (split; [reflexivity|]); right; left; simpl.
    + exists []. rewrite app_nil_r. reflexivity.
    + exists [sname]. reflexivity.
    + exists [sname]. reflexivity.
Qed.

Lemma last2_benign : forall c o, In o (last2 c) -> benign c o.
Proof.
  intros c o H. unfold last2 in H. simpl in H.
  destruct H as [<-|[<-|[]]]; (split; [reflexivity|]); left; exists [ename]; reflexivity.
Qed.

Lemma common_benign : forall c sched o, src_ok c = true -> In o (common_ops c sched) -> benign c o.
Proof.
  intros c sched o Hok H. rewrite common_split in H. apply in_app_iff in H. destruct H as [H|H].
  - apply mid_safe_benign. eapply pre2_safe; eauto.
  - apply last2_benign; auto.
Qed.

Lemma rename_keeps : forall c s s2 e, pre0 c s -> apply (Rename (tmp c) (dst c)) s = Some (s2, e) -> keeps c s s2.
Proof.
  intros c s s2 e [H1 _] Ha x [Hd Ht] _. apply apply_rename in Ha. destruct Ha as (-> & _ & _).
  rewrite (lookup_rename (tmp c) (dst c) s H1). unfold under in Hd.
  destruct (strip (dst c) x); [discriminate|]. rewrite Ht. reflexivity.
Qed.

Lemma create_keeps : forall c s s', pre0 c s -> reach (create_ops true c) s s' -> keeps c s s'.
Proof.
  intros c s s' Hp H. rewrite create_split in H. apply reach_app in H. destruct H as [H|(s1 & e1 & H1 & H2)].
  - eapply benign_list_keeps; [|exact H]. apply pre1_benign.
  - assert (Hp1 : pre0 c s1).
    { eapply run_pres; [| exact Hp | exact H1]. intros o sa sb eb Hi Hpa Ha.
      eapply pre_safe_pres; eauto. apply create_pre_safe; auto. }
    eapply keeps_trans.
    + eapply benign_list_keeps; [apply pre1_benign|]. eapply run_reach; eauto.
    + apply reach_one in H2; [|reflexivity]. destruct H2 as [->|(e & Hr)]; [apply keeps_refl|]. eapply rename_keeps; eauto.
Qed.

Lemma plan_keeps : forall c order sched s s' ops r, src_ok c = true -> auto_state c s -> order_in_dst c order ->
    plan c order sched s = ORun ops r -> reach ops s s' -> keeps c s s'.
Proof.
  intros c order sched s s' ops r Hok Ha Ho Hp H.
  destruct (plan_cases c order sched s Ha) as [(_ & E)|[(_ & Hd & Hp0 & E)|[(_ & Hk & E)|(_ & _ & _ & E)]]];
    rewrite E in Hp; try discriminate; inv Hp.
  - apply reach_app in H. destruct H as [H|(s1 & e1 & H1 & H)].
    + apply create_keeps; auto.
    + eapply keeps_trans.
      * apply create_keeps; auto. eapply run_reach; eauto.
      * eapply benign_list_keeps; [|exact H]. intros o Hi. eapply common_benign; eauto.
  - eapply benign_list_keeps; [|exact H]. intros o Hi. apply in_app_iff in Hi. destruct Hi as [Hi|Hi].
    + apply mid_safe_benign. eapply wipe_safe; eauto.
    + eapply common_benign; eauto.
Qed.

Lemma crashed_keeps : forall c s a, src_ok c = true -> auto_state c s -> order_in_dst c (a_order a) ->
    keeps c s (invoke_crashed true true c s a).
Proof.
  intros c s a Hok Ha Ho. unfold invoke_crashed. fold (plan c (a_order a) (a_sched a) s).
  destruct (plan c (a_order a) (a_sched a) s) as [|r|ops r] eqn:E; try apply keeps_refl.
  eapply plan_keeps; eauto. apply crash_t_reach.
Qed.

Lemma history_keeps : forall c h s, src_ok c = true -> auto_state c s -> attempts_ok c h s ->
    keeps c s (after_crashes true true c h s).
Proof.
  intros c h. induction h as [|a h IH]; intros s Hok Ha Hh; simpl.
  - apply keeps_refl.
  - destruct Hh as (H1 & H2 & H3). eapply keeps_trans.
    + apply crashed_keeps; eauto.
    + apply IH; auto. apply crashed_pres; auto.
Qed.

Lemma other_files_untouched_l : forall c h order sched s0 s' r evs, src_ok c = true -> auto_state c s0 ->
    attempts_ok c h s0 -> order_in_dst c order ->
    history_run true true c h order sched s0 = Some (s', r, evs) ->
    forall x, under (dst c) x = false -> under (tmp c) x = false -> lookup s0 x <> None -> lookup s' x = lookup s0 x.
Proof.
  intros c h order sched s0 s' r evs Hok Ha Hh Ho H x Hd Ht Hl.
  assert (K : keeps c s0 s').
  { eapply keeps_trans; [apply history_keeps; eauto|].
    unfold history_run, invoke in H. fold (plan c order sched (after_crashes true true c h s0)) in H.
    destruct (plan c order sched (after_crashes true true c h s0)) as [|r0|ops r0] eqn:E; try discriminate.
    - inv H. apply keeps_refl.
    - destruct (run ops (after_crashes true true c h s0)) as [[s2 e2]|] eqn:Er; [|discriminate]. inv H.
      eapply plan_keeps; eauto; [apply auto_state_history; auto|eapply run_reach; eauto]. }
  apply K; auto. split; auto.
Qed.

(* ====================================================================== *)
(* 10. killed while the end marker is being written                        *)
(* ====================================================================== *)
(* wherever a call is killed: if the end marker exists afterwards (even empty: killed between open(.., "w") and
   the write), the copy is complete *)
Lemma end_marker_after_kill_l : forall c s a, src_ok c = true -> auto_state c s ->
    order_in_dst c (a_order a) -> (seals c s a -> order_covers c s (a_order a)) ->
    lookup (invoke_crashed true true c s a) (emark c) <> None ->
    complete_copy c (invoke_crashed true true c s a).
Proof.
  intros c s a Hok Ha Ho Hc He. pose proof (crashed_pres c s a Hok Ha Ho Hc) as [_ H].
  destruct (lookup (invoke_crashed true true c s a) (dst c)) as [e|].
  - destruct H as (_ & _ & H). auto.
  - exfalso. apply He. unfold emark. apply H.
Qed.

(* ====================================================================== *)
(* 11. two copiers at once (outside the property: what the model says)     *)
(* ====================================================================== *)
(* A creates the folder and has copied a.txt when B starts; B finds an incomplete automatic copy and deletes
   a.txt; A carries on, writes the end marker and returns: a.txt is missing (until B has copied it again) *)
Definition cc_orderB : list path := [w_dst ++ [sname]; w_dst ++ ["a.txt"%string]].

Lemma concurrent_copiers_l : exists opsA rA opsB rB s1 e1 s2 e2 s3 e3,
    plan w_cfg [] [] w_s0 = ORun opsA rA /\
    run (firstn 10 opsA) w_s0 = Some (s1, e1) /\
    order_in_dst w_cfg cc_orderB /\ order_covers w_cfg s1 cc_orderB /\
    plan w_cfg cc_orderB [] s1 = ORun opsB rB /\
    run (firstn 1 opsB) s1 = Some (s2, e2) /\
    run (skipn 10 opsA) s2 = Some (s3, e3) /\
    was_copied rA = true /\ lookup s3 (emark w_cfg) = Some (File end_text) /\ ~ complete_copy w_cfg s3.
Proof.
  do 10 eexists.
  split; [vm_compute; reflexivity|]. split; [vm_compute; reflexivity|].
  split; [repeat constructor|]. split; [covers_by_keys|].
  split; [vm_compute; reflexivity|]. split; [vm_compute; reflexivity|]. split; [vm_compute; reflexivity|].
  split; [reflexivity|]. split; [vm_compute; reflexivity|].
  intros (_ & _ & _ & H). specialize (H ["a.txt"%string]).
  vm_compute in H. assert (Y : @None entry = Some (File [65%Z])) by (apply H; discriminate). discriminate Y.
Qed.

(* ====================================================================== *)
(* 12. restatements used by Property.v; a parallel witness                 *)
(* ====================================================================== *)
Lemma wipe_killed_early_l : forall c order sched s k t,
    src_ok c = true ->
    lookup s (dst c) = Some Dir -> (exists a, lookup s (smark c) = Some (File a)) -> lookup s (emark c) = None ->
    tmp_small c s -> order_in_dst c order ->
    k <= List.length (wipe_ops true c order ++ common_ops c sched) - 2 ->
    let s' := crash_state_t (wipe_ops true c order ++ common_ops c sched) k t s in
    lookup s' (dst c) = Some Dir /\ (exists a, lookup s' (smark c) = Some (File a)) /\ lookup s' (emark c) = None.
Proof.
  intros c order sched s k t Hok H1 H2 H3 H4 Ho Hk.
  destruct (wipe_killed_early c order sched s k t Hok (conj H1 (conj H2 (conj H3 H4))) Ho Hk) as (A & B & C & _).
  exact (conj A (conj B C)).
Qed.

Open Scope string_scope.
(* three archives, two workers, image-folder variant (class-wise) *)
Definition par_cfg : config :=
  {| c_variant := VImage; c_parent := ["l"]; c_name := "ds";
     c_dir := Some [("n1.zip", TFile []); ("n0.zip", TFile []); ("README", TFile [82%Z]); ("n2.zip", TFile [])];
     c_zips := [("n0.zip", [{| m_path := ["a.txt"]; m_file := Some [65%Z] |}; {| m_path := ["sub"; "b"]; m_file := Some [] |}]);
                ("n1.zip", [{| m_path := ["c.txt"]; m_file := Some [67%Z] |}]);
                ("n2.zip", [{| m_path := ["d"]; m_file := None |}; {| m_path := ["d"; "e"]; m_file := Some [69%Z; 69%Z] |}])];
     c_zip := None; c_workers := 2 |}.
Close Scope string_scope.
Definition par_sched : list nat := [2; 1; 1; 0; 2; 7; 1].

Lemma par_witness :
    src_ok par_cfg = true /\ fresh par_cfg w_s0 /\
    unzip_jobs (c_workers par_cfg) (zip_items [("n1.zip", TFile []); ("n0.zip", TFile []); ("README", TFile [82%Z]); ("n2.zip", TFile [])]%string)
      = [["n1.zip"]; ["n0.zip"]; ["n2.zip"]]%string /\
    copy_entries par_cfg par_sched <> src_entries par_cfg /\
    exists s' evs, invoke true true par_cfg [] par_sched w_s0 = Some (s', res_create par_cfg, evs)
                   /\ complete_copyb par_cfg s' = true.
Proof.
  split; [vm_compute; reflexivity|]. split; [split; intros r; reflexivity|]. split; [vm_compute; reflexivity|].
  split; [vm_compute; discriminate|]. eexists. eexists. split; vm_compute; reflexivity.
Qed.

(* killed inside the write of the end marker after 5 bytes: the copy counts as (and is) complete *)
Definition torn_history : list attempt := [{| a_order := []; a_sched := []; a_kill := 13; a_torn := Some 5 |}].
Lemma torn_end_marker_witness :
    attempts_ok w_cfg torn_history w_s0 /\
    lookup (after_crashes true true w_cfg torn_history w_s0) (emark w_cfg) = Some (File (firstn 5 end_text)) /\
    complete_copyb w_cfg (after_crashes true true w_cfg torn_history w_s0) = true /\
    history_run true true w_cfg torn_history [] [] w_s0
      = Some (after_crashes true true w_cfg torn_history w_s0, nothing_done, []).
Proof.
  split; [|split; [vm_compute; reflexivity|split; vm_compute; reflexivity]].
  apply honest_attempts_ok. simpl. split; [constructor|]. split; [covers_by_keys|exact I].
Qed.
