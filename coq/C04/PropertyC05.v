(* Property C05 — interleaved scheduler: side passes run exactly when due, whole,
   and unmixed.  Theorems only. *)
From Coq Require Import ZArith List Bool.
Import ListNotations.
From KD Require Import C04.Model C04.Spec C04.Lists C04.Arith C04.Sides C04.Proofs C04.Corollaries C04.Batches C04.Example.
Open Scope Z_scope.

(* the model IS the spec; in the spec every update is followed by
   [passes_from 0 (sides c) k] = for each config in order, its whole pass iff due *)
Theorem c05_model_is_spec : forall c mi, WF c mi -> forall n e,
  run c mi n (init_state e (upe c * e) (spe c * e)) = spec_run c mi e n.
Proof. exact model_eq_spec. Qed.
Print Assumptions c05_model_is_spec.

(* after every main update, and only there: the non-main part of an update is
   exactly the passes of the due configs, in config order *)
Theorem c05_update_side_part : forall c e bs j,
  filter (fun x => negb (is_main x)) (u_events (upd_at c e bs j))
  = passes_from c 0 (sides c) (counters_at c e bs j).
Proof. exact update_side_part. Qed.
Print Assumptions c05_update_side_part.

(* due = one of the config's intervals was reached or crossed by this update *)
Theorem c05_due_iff_reached_or_crossed : forall sc k, (forall n, ens sc = Some n -> 0 < n) ->
  due sc k = true <->
  (exists n, ene sc = Some n /\ k_epoch_end k = true /\ k_epoch k mod n = 0) \/
  (exists n, enu sc = Some n /\ k_update k mod n = 0) \/
  (exists n m, ens sc = Some n /\ k_prev_sample k < m * n <= k_sample k).
Proof. exact due_iff. Qed.
Print Assumptions c05_due_iff_reached_or_crossed.

(* the implementation's per-config pass (running counter, modulo test) is the
   spec's pass: all indices, shifted into the config's range, cut by the config's
   (else the main) batch size with a short final batch *)
Theorem c05_pass_batching : forall c mi, WF c mi -> forall ci sc, wf_side sc ->
  side_pass c ci (offset_of c ci) sc = side_events c ci sc.
Proof. exact side_pass_eq. Qed.
Print Assumptions c05_pass_batching.

Theorem c05_pass_is_whole : forall c ci sc, 0 < or_default (sbs sc) (cB c) ->
  map ev_idx (side_events c ci sc) = map (Z.add (offset_of c ci)) (sidx sc).
Proof. exact side_pass_whole. Qed.
Print Assumptions c05_pass_is_whole.

(* every yielded index resolves to the dataset and sample it was drawn for *)
Theorem c05_offset_roundtrip : forall c mi ci sc j, WF c mi ->
  nth_error (sides c) ci = Some sc -> 0 <= j < dslen sc ->
  concat_lookup c (offset_of c ci + j) = Some (S ci, j).
Proof. exact offset_roundtrip. Qed.
Print Assumptions c05_offset_roundtrip.

Theorem c05_main_roundtrip : forall c j, 0 <= j < dsN c -> concat_lookup c j = Some (0%nat, j).
Proof. exact main_roundtrip. Qed.
Print Assumptions c05_main_roundtrip.

(* a zero budget yields exactly one full pass over every config *)
Theorem c05_zero_budget_one_pass : forall c mi, WF c mi -> zero_budget c = true ->
  sampler_iter c mi 0 0 0 = Some (spec_eval c 0 (sides c)).
Proof. exact zero_budget_one_pass. Qed.
Print Assumptions c05_zero_budget_one_pass.

(* no batch mixes datasets: the batches the batch sampler cuts are exactly the
   stream's own single-dataset batches (tag = dataset), nothing lost or reordered *)
Theorem c05_no_mixed_batch : forall c mi, WF c mi -> forall n e tr,
  run c mi n (start_state c e) = Some tr ->
  exists tagged : list (nat * list Z),
    fst (batches (render tr)) = map snd tagged /\
    flat_map (fun tb => map (pair (fst tb)) (snd tb)) tagged = stream_tags tr.
Proof. exact no_mixed_batch. Qed.
Print Assumptions c05_no_mixed_batch.

Example c05_premises_satisfiable :
  WF ex_cfg ex_iter /\ wf_side ex_side /\ nth_error (sides ex_cfg) 1 = Some ex_side /\ 0 <= 3 < dslen ex_side.
Proof. split; [exact ex_wf|]. split; [exact ex_side_wf|]. split; [reflexivity|]. cbn. split; reflexivity || discriminate. Qed.
