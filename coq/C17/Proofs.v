(* C17 — proofs.  DINO: invariants of _mask_block / _generate_mask / collate.
   I-JEPA: rectangles, index lists, constrained sampling under the premise, truncation, row layout. *)
From Coq Require Import ZArith List Bool Lia ZifyBool Permutation Arith.
Import ListNotations.
From KD Require Import C17.Model C17.Spec.
Open Scope Z_scope.

Ltac splits := repeat match goal with |- _ /\ _ => split end.

(* ======================================================================== *)
(* generic list facts                                                       *)
(* ======================================================================== *)
Lemma len_nonneg {A} (l : list A) : 0 <= len l.
Proof. unfold len. lia. Qed.

Lemma len_cons {A} (x : A) l : len (x :: l) = 1 + len l.
Proof. unfold len. simpl length. lia. Qed.

Lemma len_app {A} (a b : list A) : len (a ++ b) = len a + len b.
Proof. unfold len. rewrite app_length. lia. Qed.

Lemma len_nil {A} : len (@nil A) = 0.
Proof. reflexivity. Qed.

Lemma map_nth_seq {A} (l : list A) d : map (fun k => nth k l d) (seq 0 (length l)) = l.
Proof.
  induction l as [|x l IH]; simpl; [reflexivity|].
  f_equal. rewrite <- seq_shift, map_map. exact IH.
Qed.

Lemma filter_perm_length {A} (f : A -> bool) l l' :
  Permutation l l' -> length (filter f l) = length (filter f l').
Proof.
  induction 1; simpl; try congruence.
  - destruct (f x); simpl; congruence.
  - destruct (f x), (f y); simpl; congruence.
Qed.

Lemma filter_repeat_false {A} (f : A -> bool) x n : f x = false -> filter f (repeat x n) = [].
Proof. intros H. induction n; simpl; [reflexivity|]. rewrite H. exact IHn. Qed.

Lemma filter_length_le {A} (f : A -> bool) l : (length (filter f l) <= length l)%nat.
Proof. induction l; simpl; [lia|]. destruct (f a); simpl; lia. Qed.

Lemma Forall_repeat {A} (P : A -> Prop) x n : P x -> Forall P (repeat x n).
Proof. intros H. induction n; simpl; constructor; assumption. Qed.

(* ======================================================================== *)
(* DINO                                                                     *)
(* ======================================================================== *)
Lemma count_true_cons b r : count_true (b :: r) = (if b then 1 else 0) + count_true r.
Proof. reflexivity. Qed.

Lemma popcount_cons r m : popcount (r :: m) = count_true r + popcount m.
Proof. reflexivity. Qed.

Lemma count_true_nonneg r : 0 <= count_true r.
Proof. induction r as [|b r IH]; [simpl; lia|]. rewrite count_true_cons. destruct b; lia. Qed.

Lemma popcount_nonneg m : 0 <= popcount m.
Proof. induction m as [|r m IH]; [simpl; lia|]. rewrite popcount_cons. pose proof (count_true_nonneg r). lia. Qed.

Lemma count_true_repeat_false n : count_true (repeat false n) = 0.
Proof. induction n; [reflexivity|]. simpl repeat. rewrite count_true_cons. exact IHn. Qed.

Lemma popcount_zero_rows r n : count_true r = 0 -> popcount (repeat r n) = 0.
Proof. intros H. induction n; [reflexivity|]. simpl repeat. rewrite popcount_cons. lia. Qed.

Lemma popcount_zero_mask c : popcount (zero_mask c) = 0.
Proof. unfold zero_mask. apply popcount_zero_rows, count_true_repeat_false. Qed.

Lemma well_shaped_zero_mask c : 0 <= dH c -> 0 <= dW c -> well_shaped (dH c) (dW c) (zero_mask c).
Proof.
  intros HH HW. unfold well_shaped, zero_mask, len. split.
  - rewrite repeat_length. lia.
  - apply Forall_repeat. rewrite repeat_length. lia.
Qed.

(* one row of the update loop *)
Lemma row_set_spec : forall r j l rt r' d, row_set j l rt r = (r', d) ->
  count_true r' = count_true r + d /\ length r' = length r /\ 0 <= d /\
  d + row_cnt j l rt r <= Z.max 0 (rt - Z.max l j).
Proof.
  induction r as [|b r IH]; intros j l rt r' d H; simpl in H.
  - inversion H; subst. simpl. lia.
  - destruct (row_set (j + 1) l rt r) as [r'' d'] eqn:E.
    destruct (IH _ _ _ _ _ E) as (I1 & I2 & I3 & I4).
    simpl row_cnt. unfold in_rng in *.
    destruct ((l <=? j) && (j <? rt)) eqn:R; inversion H; subst; rewrite !count_true_cons; simpl length;
      destruct b; simpl andb; splits; try lia.
Qed.

Definition wbound (l rt : Z) : Z := Z.max 0 (rt - Z.max l 0).

Lemma blk_set_spec : forall m i top bot l rt m' d, blk_set i top bot l rt m = (m', d) ->
  popcount m' = popcount m + d /\ length m' = length m /\ 0 <= d /\
  (forall W, Forall (fun r => len r = W) m -> Forall (fun r => len r = W) m') /\
  d + blk_cnt i top bot l rt m <= wbound l rt * Z.max 0 (bot - Z.max top i).
Proof.
  induction m as [|r m IH]; intros i top bot l rt m' d H; simpl in H.
  - inversion H; subst. simpl. unfold wbound. splits; try lia; try nia. intros; constructor.
  - destruct (blk_set (i + 1) top bot l rt m) as [m'' d'] eqn:E.
    destruct (IH _ _ _ _ _ _ _ E) as (I1 & I2 & I3 & I4 & I5).
    simpl blk_cnt. unfold in_rng in *.
    assert (0 <= wbound l rt) by (unfold wbound; lia).
    destruct ((top <=? i) && (i <? bot)) eqn:R.
    + destruct (row_set 0 l rt r) as [r' dr] eqn:Er. inversion H; subst.
      destruct (row_set_spec _ _ _ _ _ _ Er) as (J1 & J2 & J3 & J4).
      rewrite !popcount_cons. simpl length. splits; try lia.
      * intros W HW. inversion HW; subst. constructor; [unfold len in *; lia | auto].
      * fold (wbound l rt) in J4.
        replace (Z.max 0 (bot - Z.max top i)) with (Z.max 0 (bot - Z.max top (i + 1)) + 1) by lia.
        lia.
    + inversion H; subst. rewrite !popcount_cons. simpl length. splits; try lia.
      all: try (intros W HW; inversion HW; subst; constructor; auto).
      all: try (assert (Z.max 0 (bot - Z.max top (i + 1)) <= Z.max 0 (bot - Z.max top i)) by lia; nia).
Qed.

Definition shaped (c : dcfg) (m : mask) : Prop := well_shaped (dH c) (dW c) m.

Lemma Forall_tail4 {A} (P : A -> Prop) a b c d l : Forall P (a :: b :: c :: d :: l) ->
  P a /\ P b /\ P c /\ P d /\ Forall P l.
Proof. intros H. repeat (inversion H as [|? ? ? H']; subst; clear H; rename H' into H). auto. Qed.

(* _mask_block: the mask gains exactly delta cells, 0 <= delta <= remaining budget *)
Lemma mask_block_spec : forall tries c m rem tr m' d tr',
  Forall draw_ok tr -> 0 <= rem -> mask_block tries c m rem tr = Ok (m', d, tr') ->
  popcount m' = popcount m + d /\ 0 <= d <= rem /\ (shaped c m -> shaped c m') /\ Forall draw_ok tr'.
Proof.
  induction tries as [|t IH]; intros c m rem tr m' d tr' Htr Hrem H; simpl in H.
  - inversion H; subst. splits; auto; try lia.
  - destruct tr as [|[lo hi v| | | |] tr]; try discriminate.
    destruct tr as [|[lo2 hi2 v2| | | |] tr]; try discriminate.
    destruct tr as [|[|h| | |] tr]; try discriminate.
    destruct tr as [|[|w| | |] tr]; try discriminate.
    destruct (Forall_tail4 _ _ _ _ _ _ Htr) as (_ & _ & Hh & Hw & Htr1). simpl in Hh, Hw.
    destruct (negb _); try discriminate.
    destruct ((dW c <=? w) || (dH c <=? h)) eqn:OOB; [eapply IH; eauto|].
    destruct tr as [|[| |lo1 hi1 top| |] tr]; try discriminate.
    destruct tr as [|[| |lo3 hi3 lf| |] tr]; try discriminate.
    destruct (negb _) eqn:Args; try discriminate.
    inversion Htr1 as [|? ? Ht Htr2]; subst. inversion Htr2 as [|? ? Hl Htr3]; subst. simpl in Ht, Hl.
    destruct (h * w - blk_cnt 0 top (top + h) lf (lf + w) m =? 0) eqn:Z0; [eapply IH; eauto|].
    destruct (rem <? h * w - blk_cnt 0 top (top + h) lf (lf + w) m) eqn:Over; [eapply IH; eauto|].
    destruct (blk_set 0 top (top + h) lf (lf + w) m) as [m1 delta] eqn:Eb.
    destruct (blk_set_spec _ _ _ _ _ _ _ _ Eb) as (B1 & B2 & B3 & B4 & B5).
    assert (Hd : delta <= rem).
    { assert (lo1 = 0 /\ lo3 = 0) as [-> ->] by lia.
      unfold wbound in B5.
      replace (Z.max 0 (lf + w - Z.max lf 0)) with w in B5 by lia.
      replace (Z.max 0 (top + h - Z.max top 0)) with h in B5 by lia.
      lia. }
    assert (Hs : shaped c m -> shaped c m1).
    { unfold shaped, well_shaped, len. intros [S1 S2]. split; [lia|]. apply B4. exact S2. }
    destruct (0 <? delta) eqn:Pos.
    + inversion H; subst. splits; auto; try lia.
    + assert (delta = 0) by lia. subst delta.
      destruct (IH c m1 rem tr m' d tr' Htr3 Hrem H) as (K1 & K2 & K3 & K4).
      splits; auto; try lia.
Qed.

Lemma mask_block_no_fuel : forall tries c m rem tr, mask_block tries c m rem tr <> OutOfFuel.
Proof.
  induction tries as [|t IH]; intros c m rem tr; simpl; [discriminate|].
  repeat (match goal with
          | |- context [match ?x with _ => _ end] => destruct x; try discriminate; try apply IH
          end).
Qed.

Lemma mask_block_delta_nonneg : forall t c m rem tr m' d tr',
  mask_block t c m rem tr = Ok (m', d, tr') -> 0 <= d.
Proof.
  induction t as [|t IHt]; intros c m rem tr m' d tr' Em; simpl in Em; [inversion Em; lia|].
  repeat (match type of Em with
          | context [match ?x with _ => _ end] => destruct x eqn:?; try discriminate; eauto
          end).
  inversion Em; subst. lia.
Qed.

Local Arguments mask_block : simpl never.

(* _generate_mask: popcount = num_masked_patches <= num_masked_patches_total is an invariant *)
Lemma generate_spec : forall fuel c m num total tr m' num' tr',
  Forall draw_ok tr -> popcount m = num ->
  generate fuel c m num total tr = Ok (m', num', tr') ->
  popcount m' = num' /\ num' <= Z.max num total /\ (shaped c m -> shaped c m') /\ Forall draw_ok tr'.
Proof.
  induction fuel as [|f IH]; intros c m num total tr m' num' tr' Htr Hp H; simpl in H;
    destruct (num <? total) eqn:Lt; try discriminate;
    try (inversion H; subst; splits; auto; lia).
  all: try (inversion H; subst; splits; auto; lia).
  destruct (mask_block 10 c m (total - num) tr) as [[[m1 delta] tr1]| |] eqn:Em; try discriminate.
  assert (Hrem : 0 <= total - num) by lia.
  destruct (mask_block_spec _ _ _ _ _ _ _ _ Htr Hrem Em) as (M1 & M2 & M3 & M4).
  destruct (delta =? 0) eqn:D0.
  - inversion H; subst. splits; auto; try lia.
  - assert (Hp1 : popcount m1 = num + delta) by lia.
    destruct (IH c m1 (num + delta) total tr1 m' num' tr' M4 Hp1 H) as (K1 & K2 & K3 & K4).
    splits; auto; try lia.
Qed.

(* the while loop ends: every iteration that does not break adds at least one patch *)
Lemma generate_no_fuel : forall fuel c m num total tr,
  total - num <= Z.of_nat fuel -> generate fuel c m num total tr <> OutOfFuel.
Proof.
  induction fuel as [|f IH]; intros c m num total tr Hf; simpl;
    destruct (num <? total) eqn:Lt; try discriminate; try lia.
  destruct (mask_block 10 c m (total - num) tr) as [[[m1 delta] tr1]| |] eqn:Em; try discriminate.
  - destruct (delta =? 0) eqn:D0; [discriminate|].
    apply IH.
    pose proof (mask_block_delta_nonneg _ _ _ _ _ _ _ _ Em). lia.
  - exfalso. eapply mask_block_no_fuel; eauto.
Qed.

Lemma rat_floor_mono (u r : rat) P : 0 <= P -> 0 < snd u -> 0 < snd r -> rat_le u r ->
  fst u * P / snd u <= fst r * P / snd r.
Proof.
  intros HP Hu Hr Hle. unfold rat_le in Hle.
  apply Z.div_le_lower_bound; [assumption|].
  pose proof (Z.mul_div_le (fst u * P) (snd u) Hu).
  assert (snd r * (fst u * P / snd u) * snd u <= fst r * P * snd u) by nia.
  nia.
Qed.

Lemma rat_le_trans (a b c : rat) : 0 < snd a -> 0 < snd b -> 0 < snd c -> rat_le a b -> rat_le b c -> rat_le a c.
Proof. unfold rat_le. intros. nia. Qed.

Lemma gen_masks_spec : forall n c tr ms tr', dcfg_ok c -> Forall draw_ok tr ->
  gen_masks n c tr = Ok (ms, tr') ->
  length ms = n /\ Forall (shaped c) ms /\ Forall (fun m => popcount m <= cap c) ms /\ Forall draw_ok tr'.
Proof.
  induction n as [|n IH]; intros c tr ms tr' Hc Htr H; simpl in H.
  - inversion H; subst. splits; auto.
  - destruct tr as [|[lo hi u| | | |] tr]; try discriminate.
    destruct (negb _) eqn:Hhi; try discriminate.
    inversion Htr as [|? ? Hu Htr1]; subst. simpl in Hu. destruct Hu as (U1 & U2 & U3 & U4 & U5).
    destruct (generate _ c (zero_mask c) 0 _ tr) as [[[m num] tr2]| |] eqn:Eg; try discriminate.
    destruct (gen_masks n c tr2) as [[ms1 tr3]| |] eqn:Er; try discriminate.
    inversion H; subst.
    destruct (generate_spec _ _ _ _ _ _ _ _ _ Htr1 (popcount_zero_mask c) Eg) as (G1 & G2 & G3 & G4).
    destruct (IH c tr2 ms1 tr' Hc G4 Er) as (K1 & K2 & K3 & K4).
    destruct Hc as (C1 & C2 & C3 & C4 & C5 & C6 & C7).
    splits; auto; simpl; try lia.
    + constructor; auto. apply G3. apply well_shaped_zero_mask; assumption.
    + constructor; auto.
      assert (rat_le u (dRn c, dRd c)).
      { unfold rat_leb in Hhi. simpl in Hhi. apply (rat_le_trans u hi (dRn c, dRd c)); simpl; auto.
        unfold rat_le; simpl. lia. }
      pose proof (rat_floor_mono u (dRn c, dRd c) (dP c) ltac:(unfold dP; nia) U3 C7 H0) as Hm.
      simpl in Hm. unfold cap. fold (dP c).
      assert (0 <= dRn c * dP c / dRd c) by (apply Z.div_pos; [unfold dP; nia | lia]).
      lia.
Qed.

Lemma gen_masks_no_fuel : forall n c tr, gen_masks n c tr <> OutOfFuel.
Proof.
  induction n as [|n IH]; intros c tr; simpl; [discriminate|].
  destruct tr as [|[lo hi u| | | |] tr]; try discriminate.
  destruct (negb _); try discriminate.
  destruct (generate _ c (zero_mask c) 0 _ tr) as [[[m num] tr2]| |] eqn:Eg; try discriminate.
  - specialize (IH c tr2). destruct (gen_masks n c tr2) as [[? ?]| |]; try discriminate. congruence.
  - exfalso. revert Eg. apply generate_no_fuel. lia.
Qed.

Lemma nonempty_zero_mask c : nonempty (zero_mask c) = false.
Proof. unfold nonempty. rewrite popcount_zero_mask. reflexivity. Qed.

(* the collator's output meets the DINO part of the property *)
Lemma dino_collate_ok : forall c B tr ms, dcfg_ok c -> 0 <= B -> Forall draw_ok tr ->
  dino_collate c B tr = Ok ms -> dino_ok c B ms.
Proof.
  intros c B tr ms Hc HB Htr H. unfold dino_collate in H.
  destruct (gen_masks _ c tr) as [[ms1 tr1]| |] eqn:Eg; try discriminate.
  destruct (gen_masks_spec _ _ _ _ _ Hc Htr Eg) as (G1 & G2 & G3 & G4).
  destruct tr1 as [|[| | |p|] [|? ?]]; try discriminate.
  destruct (Nat.eqb _ _) eqn:El; try discriminate. apply Nat.eqb_eq in El.
  inversion H; subst ms. clear H.
  inversion G4 as [|? ? Hp _]; subst. simpl in Hp.
  set (all := ms1 ++ repeat (zero_mask c) (Z.to_nat (B * dV c - num_masked_samples c B))) in *.
  assert (Hperm : Permutation (map (fun k => nth k all (zero_mask c)) p) all).
  { apply Permutation_trans with (map (fun k => nth k all (zero_mask c)) (seq 0 (length all))).
    - apply Permutation_map. rewrite <- El. exact Hp.
    - rewrite map_nth_seq. apply Permutation_refl. }
  destruct Hc as (C1 & C2 & C3 & C4 & C5 & C6 & C7).
  assert (Hnm : 0 <= num_masked_samples c B <= B * dV c).
  { unfold num_masked_samples. split.
    - apply Z.div_pos; nia.
    - apply Z.div_le_upper_bound; nia. }
  assert (Hall_s : Forall (shaped c) all).
  { apply Forall_app. split; auto. apply Forall_repeat. apply well_shaped_zero_mask; assumption. }
  assert (Hall_c : Forall (fun m => popcount m <= cap c) all).
  { apply Forall_app. split; auto. apply Forall_repeat. rewrite popcount_zero_mask.
    unfold cap. apply Z.div_pos; nia. }
  unfold dino_ok. splits.
  - unfold len. rewrite map_length, El. unfold all. rewrite app_length, repeat_length, G1. lia.
  - eapply Permutation_Forall; [apply Permutation_sym; exact Hperm | exact Hall_s].
  - unfold count_nonempty, len. rewrite (filter_perm_length _ _ _ Hperm).
    unfold all. rewrite filter_app, (filter_repeat_false _ _ _ (nonempty_zero_mask c)), app_nil_r.
    pose proof (filter_length_le nonempty ms1). unfold budget. unfold num_masked_samples in *. lia.
  - eapply Permutation_Forall; [apply Permutation_sym; exact Hperm | exact Hall_c].
Qed.

Lemma dino_collate_no_fuel : forall c B tr, dino_collate c B tr <> OutOfFuel.
Proof.
  intros c B tr. unfold dino_collate.
  pose proof (gen_masks_no_fuel (Z.to_nat (num_masked_samples c B)) c tr).
  destruct (gen_masks _ c tr) as [[ms1 tr1]| |]; try congruence.
  destruct tr1 as [|[| | |p|] [|? ?]]; try discriminate.
  destruct (Nat.eqb _ _); discriminate.
Qed.

(* ======================================================================== *)
(* I-JEPA                                                                   *)
(* ======================================================================== *)
Lemma zseq_length s n : length (zseq s n) = n.
Proof. revert s. induction n; intros s; simpl; [reflexivity|]. rewrite IHn. reflexivity. Qed.

Lemma zseq_In n : forall s x, In x (zseq s n) <-> s <= x < s + Z.of_nat n.
Proof.
  induction n as [|n IH]; intros s x; simpl zseq.
  - simpl. lia.
  - simpl In. rewrite IH. lia.
Qed.

Lemma zseq_app a b : forall s, zseq s (a + b) = zseq s a ++ zseq (s + Z.of_nat a) b.
Proof.
  induction a as [|a IH]; intros s.
  - simpl. f_equal. lia.
  - change (S a + b)%nat with (S (a + b)). simpl zseq. rewrite IH. simpl. do 3 f_equal. lia.
Qed.

Lemma zseq_map_add base n : forall s, map (fun j => base + j) (zseq s n) = zseq (base + s) n.
Proof.
  induction n as [|n IH]; intros s; simpl; [reflexivity|].
  rewrite IH. do 2 f_equal. lia.
Qed.

Lemma nz_app a : forall i b, nz i (a ++ b) = nz i a ++ nz (i + len a) b.
Proof.
  induction a as [|x a IH]; intros i b.
  - simpl. f_equal. unfold len. simpl. lia.
  - simpl. rewrite IH, len_cons. replace (i + 1 + len a) with (i + (1 + len a)) by lia.
    destruct x; reflexivity.
Qed.

Lemma nz_map_all_false (f : Z -> bool) l : forall i, (forall x, In x l -> f x = false) -> nz i (map f l) = [].
Proof.
  induction l as [|y l IH]; intros i H; simpl; [reflexivity|].
  rewrite (H y) by (left; reflexivity). apply IH. intros; apply H; right; assumption.
Qed.

Lemma nz_map_all_true (f : Z -> bool) n : forall i s,
  (forall x, s <= x < s + Z.of_nat n -> f x = true) -> nz i (map f (zseq s n)) = zseq i n.
Proof.
  induction n as [|n IH]; intros i s H; simpl; [reflexivity|].
  rewrite (H s) by lia. f_equal. apply IH. intros; apply H; lia.
Qed.

Lemma strictly_inc_nz l : forall i lo, lo <= i -> strictly_inc lo (nz i l) (i + len l) = true.
Proof.
  induction l as [|b l IH]; intros i lo H; simpl nz; [reflexivity|].
  rewrite len_cons. replace (i + (1 + len l)) with (i + 1 + len l) by lia.
  destruct b.
  - simpl strictly_inc. rewrite IH by lia. pose proof (len_nonneg l). lia.
  - apply IH. lia.
Qed.

Lemma strictly_inc_firstn l : forall lo hi n,
  strictly_inc lo l hi = true -> strictly_inc lo (firstn n l) hi = true.
Proof.
  induction l as [|x l IH]; intros lo hi n H; destruct n; simpl in *; try reflexivity.
  apply andb_true_iff in H. destruct H as [H1 H2]. rewrite H1. simpl. apply IH. exact H2.
Qed.

Lemma strictly_inc_weaken l : forall lo hi hi', hi <= hi' ->
  strictly_inc lo l hi = true -> strictly_inc lo l hi' = true.
Proof.
  induction l as [|x l IH]; intros lo hi hi' Hh H; simpl in *; [reflexivity|].
  apply andb_true_iff in H. destruct H as [H1 H2]. rewrite (IH _ _ _ Hh H2). lia.
Qed.

Lemma len_nz l : forall i, len (nz i l) = count_true l.
Proof.
  induction l as [|b l IH]; intros i; simpl nz; [reflexivity|].
  rewrite count_true_cons. destruct b; [rewrite len_cons|]; rewrite IH; lia.
Qed.

Lemma In_nz l : forall i x, In x (nz i l) -> exists k, x = i + Z.of_nat k /\ nth_error l k = Some true.
Proof.
  induction l as [|b l IH]; intros i x H; simpl in H; [contradiction|].
  destruct b.
  - destruct H as [<-|H].
    + exists 0%nat. split; [lia | reflexivity].
    + destruct (IH _ _ H) as (k & -> & Hk). exists (S k). split; [lia | exact Hk].
  - destruct (IH _ _ H) as (k & -> & Hk). exists (S k). split; [lia | exact Hk].
Qed.

Lemma flat_map_nil {A B} (f : A -> list B) l : (forall x, In x l -> f x = []) -> flat_map f l = [].
Proof.
  induction l as [|y l IH]; intros H; simpl; [reflexivity|].
  rewrite (H y) by (left; reflexivity). apply IH. intros; apply H; right; assumption.
Qed.

Lemma flat_map_ext_in {A B} (f g : A -> list B) l : (forall x, In x l -> f x = g x) -> flat_map f l = flat_map g l.
Proof.
  induction l as [|y l IH]; intros H; simpl; [reflexivity|].
  rewrite (H y) by (left; reflexivity). f_equal. apply IH. intros; apply H; right; assumption.
Qed.

Lemma flat_map_const_length {A B} (f : A -> list B) L l :
  (forall x, In x l -> length (f x) = L) -> length (flat_map f l) = (length l * L)%nat.
Proof.
  induction l as [|y l IH]; intros H; simpl; [reflexivity|].
  rewrite app_length, (H y) by (left; reflexivity). rewrite IH; [lia|]. intros; apply H; right; assumption.
Qed.

Lemma nz_flat_map_rows (f : Z -> list bool) W : (forall x, len (f x) = W) -> forall n s,
  nz (s * W) (flat_map f (zseq s n)) = flat_map (fun x => nz (x * W) (f x)) (zseq s n).
Proof.
  intros HW. induction n as [|n IH]; intros s; simpl; [reflexivity|].
  rewrite nz_app, HW. replace (s * W + W) with ((s + 1) * W) by lia. rewrite IH. reflexivity.
Qed.

(* one row of a rectangle *)
Lemma nz_row base W lf w : 0 <= lf -> 0 <= w -> lf + w <= W ->
  nz base (map (fun j => in_rng lf j (lf + w)) (zseq 0 (Z.to_nat W))) =
  map (fun j => base + j) (zseq lf (Z.to_nat w)).
Proof.
  intros H1 H2 H3.
  replace (Z.to_nat W) with (Z.to_nat lf + (Z.to_nat w + Z.to_nat (W - lf - w)))%nat by lia.
  rewrite !zseq_app, !map_app, !nz_app.
  rewrite (nz_map_all_false _ (zseq 0 (Z.to_nat lf))).
  2:{ intros x Hx. apply zseq_In in Hx. unfold in_rng. lia. }
  rewrite (nz_map_all_false _ (zseq _ (Z.to_nat (W - lf - w)))).
  2:{ intros x Hx. apply zseq_In in Hx. unfold in_rng. lia. }
  rewrite app_nil_r. simpl app.
  rewrite nz_map_all_true.
  2:{ intros x Hx. unfold in_rng. lia. }
  rewrite zseq_map_add. f_equal. unfold len. rewrite map_length, zseq_length. lia.
Qed.

Lemma rect_grid_length c t b l r : length (rect_grid c t b l r) = (Z.to_nat (jH c) * Z.to_nat (jW c))%nat.
Proof.
  unfold rect_grid. rewrite (flat_map_const_length _ (Z.to_nat (jW c))).
  - rewrite zseq_length. reflexivity.
  - intros. rewrite map_length, zseq_length. reflexivity.
Qed.

(* zeros; m[top:top+h, lf:lf+w] = 1; flatten().nonzero()  is the list of the rectangle's flat indices *)
Lemma nz_rect_grid c top lf h w :
  0 <= top -> 0 <= h -> top + h <= jH c -> 0 <= lf -> 0 <= w -> lf + w <= jW c ->
  nz 0 (rect_grid c top (top + h) lf (lf + w)) = rect_list (jW c) top lf h w.
Proof.
  intros T1 T2 T3 L1 L2 L3. unfold rect_grid, rect_list.
  set (rowf := fun i => map (fun j => in_rng top i (top + h) && in_rng lf j (lf + w)) (zseq 0 (Z.to_nat (jW c)))).
  replace (nz 0 (flat_map rowf (zseq 0 (Z.to_nat (jH c)))))
    with (nz (0 * jW c) (flat_map rowf (zseq 0 (Z.to_nat (jH c))))) by (f_equal; lia).
  rewrite (nz_flat_map_rows rowf (jW c)).
  2:{ intros x. unfold rowf, len. rewrite map_length, zseq_length. lia. }
  replace (Z.to_nat (jH c)) with (Z.to_nat top + (Z.to_nat h + Z.to_nat (jH c - top - h)))%nat by lia.
  rewrite !zseq_app, !flat_map_app.
  rewrite (flat_map_nil _ (zseq 0 (Z.to_nat top))).
  2:{ intros x Hx. apply zseq_In in Hx. unfold rowf. apply nz_map_all_false. intros. unfold in_rng. lia. }
  rewrite (flat_map_nil _ (zseq _ (Z.to_nat (jH c - top - h)))).
  2:{ intros x Hx. apply zseq_In in Hx. unfold rowf. apply nz_map_all_false. intros. unfold in_rng. lia. }
  rewrite app_nil_r. simpl app. rewrite ?Z.add_0_l. rewrite (Z2Nat.id top) by lia.
  apply flat_map_ext_in. intros x Hx. apply zseq_In in Hx. unfold rowf.
  rewrite <- (nz_row (x * jW c) (jW c) lf w) by assumption. f_equal.
  apply map_ext. intros j. unfold in_rng at 1.
  replace ((top <=? x) && (x <? top + h)) with true by lia. reflexivity.
Qed.

Lemma rect_list_len W top lf h w : 0 <= h -> 0 <= w -> len (rect_list W top lf h w) = h * w.
Proof.
  intros. unfold rect_list, len. rewrite (flat_map_const_length _ (Z.to_nat w)).
  - rewrite zseq_length. nia.
  - intros. rewrite map_length, zseq_length. reflexivity.
Qed.

(* ---- cell-wise facts about the constrained mask ---- *)
Lemma map2_length_eq {A B C} (f : A -> B -> C) : forall a b, length a = length b -> length (map2 f a b) = length a.
Proof. induction a as [|x a IHa]; intros [|y b]; simpl; intros; try lia. f_equal. apply IHa. lia. Qed.

Lemma map2_length_le {A B C} (f : A -> B -> C) : forall a b, (length (map2 f a b) <= length a)%nat.
Proof. induction a as [|x a IHa]; intros [|y b]; simpl; try lia. specialize (IHa b). lia. Qed.

Lemma fold_map2_length_le : forall (xs : list (list bool)) g, (length (fold_left (map2 andb) xs g) <= length g)%nat.
Proof.
  induction xs as [|x xs IH]; intros g; simpl; [lia|].
  specialize (IH (map2 andb g x)). pose proof (map2_length_le andb g x). lia.
Qed.

Lemma count_andb_negb : forall a g, length a = length g ->
  count_true a <= count_true (map2 andb a (map negb g)) + count_true g.
Proof.
  induction a as [|x a IH]; destruct g as [|y g]; simpl map2; simpl map; intros H; try (simpl in H; lia).
  - simpl. lia.
  - rewrite !count_true_cons. assert (Hl : length a = length g) by (simpl in H; lia).
    specialize (IH g Hl). destruct x, y; simpl andb; simpl negb; cbv iota; lia.
Qed.

Lemma fold_count : forall gs a ar, Forall (fun g => length g = length a /\ count_true g = ar) gs ->
  count_true a - Z.of_nat (length gs) * ar <= count_true (fold_left (map2 andb) (map (map negb) gs) a).
Proof.
  induction gs as [|g gs IH]; intros a ar H; simpl fold_left; simpl map.
  - simpl. lia.
  - inversion H as [|? ? [Hl Hc] Hr]; subst.
    pose proof (count_andb_negb a g (eq_sym Hl)) as Hcnt.
    assert (Hlen : length (map2 andb a (map negb g)) = length a)
      by (apply map2_length_eq; rewrite map_length; congruence).
    specialize (IH (map2 andb a (map negb g)) (count_true g)).
    simpl fold_left.
    assert (Forall (fun g0 => length g0 = length (map2 andb a (map negb g)) /\ count_true g0 = count_true g) gs).
    { eapply Forall_impl; [|exact Hr]. simpl. intros g0 [? ?]. split; congruence. }
    specialize (IH H0). simpl length. rewrite Nat2Z.inj_succ. nia.
Qed.

Lemma nth_error_map2_andb : forall a b k, nth_error (map2 andb a b) k = Some true ->
  nth_error a k = Some true /\ nth_error b k = Some true.
Proof.
  induction a as [|x a IH]; destruct b as [|y b]; intros k H; simpl in H; try (destruct k; discriminate).
  destruct k; simpl in *.
  - inversion H. destruct x, y; simpl in *; try discriminate. auto.
  - apply IH. exact H.
Qed.

Lemma nth_error_fold_andb : forall xs g k, nth_error (fold_left (map2 andb) xs g) k = Some true ->
  nth_error g k = Some true /\ forall x, In x xs -> nth_error x k = Some true.
Proof.
  induction xs as [|x xs IH]; intros g k H; simpl in H.
  - split; [exact H | intros ? []].
  - destruct (IH _ _ H) as [H1 H2]. apply nth_error_map2_andb in H1. destruct H1 as [H1 H3].
    split; [exact H1|]. intros y [<-|Hy]; auto.
Qed.

Lemma nth_error_map_negb : forall g k, nth_error (map negb g) k = Some true -> nth_error g k = Some false.
Proof.
  induction g as [|y g IH]; intros k H; destruct k; simpl in *; try discriminate.
  - inversion H. destruct y; simpl in *; try discriminate. reflexivity.
  - apply IH. exact H.
Qed.

(* an index that survived all complements is not an index of any of the blocks *)
Lemma fold_disjoint gs a g : In g gs ->
  disjoint (nz 0 (fold_left (map2 andb) (map (map negb) gs) a)) (nz 0 g).
Proof.
  intros Hg x H1 H2.
  destruct (In_nz _ _ _ H1) as (k1 & E1 & N1). destruct (In_nz _ _ _ H2) as (k2 & E2 & N2).
  assert (k1 = k2) by lia. subst k2.
  destruct (nth_error_fold_andb _ _ _ N1) as [_ Hall].
  specialize (Hall (map negb g) (in_map _ _ _ Hg)). apply nth_error_map_negb in Hall. congruence.
Qed.

(* ---- the loops ---- *)
Definition jN (c : jcfg) : Z := jH c * jW c.

Definition is_grid (c : jcfg) (h w : Z) (g : list bool) : Prop :=
  exists top lf, 0 <= top /\ top + h <= jH c /\ 0 <= lf /\ lf + w <= jW c /\
                 g = rect_grid c top (top + h) lf (lf + w).

Lemma is_grid_facts c h w g : jcfg_ok c -> 0 <= h -> 0 <= w -> is_grid c h w g ->
  len g = jN c /\ count_true g = h * w /\ is_rect (jH c) (jW c) h w (nz 0 g).
Proof.
  intros [C1 C2] Hh Hw (top & lf & T1 & T2 & L1 & L2 & ->). splits.
  - unfold len, jN. rewrite rect_grid_length. nia.
  - rewrite <- (len_nz _ 0), nz_rect_grid by lia. apply rect_list_len; assumption.
  - exists top, lf. splits; try lia. apply nz_rect_grid; lia.
Qed.

Lemma draw_box_spec c bh bw tr top lf tr' : Forall draw_ok tr -> draw_box c bh bw tr = Ok (top, lf, tr') ->
  0 <= top < jH c - bh /\ 0 <= lf < jW c - bw /\ Forall draw_ok tr'.
Proof.
  intros Htr H. unfold draw_box in H.
  destruct tr as [|[| |lo1 hi1 t| |] tr]; try discriminate.
  destruct tr as [|[| |lo2 hi2 l| |] tr]; try discriminate.
  destruct ((lo1 =? 0) && (hi1 =? jH c - bh) && (lo2 =? 0) && (hi2 =? jW c - bw)) eqn:E; try discriminate.
  inversion H; subst. inversion Htr as [|? ? D1 Htr1]; subst. inversion Htr1 as [|? ? D2 Htr2]; subst.
  simpl in D1, D2. splits; auto; lia.
Qed.

(* lower / greatest-lower bound bookkeeping of min_keep_pred, min_keep_enc *)
Definition glb (mk : Z) (ms : list (list Z)) (mk' : Z) : Prop :=
  mk' <= mk /\ Forall (fun m => mk' <= len m) ms /\
  forall k, k <= mk -> Forall (fun m => k <= len m) ms -> k <= mk'.

Lemma glb_nil mk : glb mk [] mk.
Proof. unfold glb. splits; auto; lia. Qed.

Lemma glb_cons mk m ms mk' : glb (Z.min mk (len m)) ms mk' -> glb mk (m :: ms) mk'.
Proof.
  intros (G1 & G2 & G3). unfold glb. splits.
  - lia.
  - constructor; [lia | exact G2].
  - intros k Hk Hf. inversion Hf; subst. apply G3; [lia | assumption].
Qed.

Lemma glb_app mk a b mk1 mk2 : glb mk a mk1 -> glb mk1 b mk2 -> glb mk (a ++ b) mk2.
Proof.
  intros (A1 & A2 & A3) (B1 & B2 & B3). unfold glb. splits.
  - lia.
  - apply Forall_app. split; [|exact B2]. eapply Forall_impl; [|exact A2]. simpl. intros; lia.
  - intros k Hk Hf. apply Forall_app in Hf. destruct Hf as [Fa Fb]. apply B3; auto.
Qed.

Lemma pred_loop_spec : forall n c ph pw mk tr ms comps mk' tr', Forall draw_ok tr -> 0 <= ph -> 0 <= pw ->
  pred_loop n c ph pw mk tr = Ok (ms, comps, mk', tr') ->
  exists gs, length gs = n /\ Forall (is_grid c ph pw) gs /\ ms = map (nz 0) gs /\
             comps = map (map negb) gs /\ glb mk ms mk' /\ Forall draw_ok tr'.
Proof.
  induction n as [|n IH]; intros c ph pw mk tr ms comps mk' tr' Htr Hh Hw H; simpl in H.
  - inversion H; subst. exists []. splits; auto. apply glb_nil.
  - unfold sample_block_mask in H.
    destruct (draw_box c ph pw tr) as [[[top lf] tr1]| |] eqn:Ed; try discriminate.
    destruct (draw_box_spec _ _ _ _ _ _ _ Htr Ed) as (D1 & D2 & D3).
    destruct (pred_loop n c ph pw _ tr1) as [[[[ms1 comps1] mk1] tr2]| |] eqn:Ep; try discriminate.
    inversion H; subst.
    destruct (IH _ _ _ _ _ _ _ _ _ D3 Hh Hw Ep) as (gs & G1 & G2 & G3 & G4 & G5 & G6).
    exists (rect_grid c top (top + ph) lf (lf + pw) :: gs). subst. splits; auto.
    * constructor; auto. exists top, lf. splits; auto; lia.
    * apply glb_cons. exact G5.
Qed.

Lemma constrained_spec : forall fuel c eh ew acc tries tr l tr', jcfg_ok c -> Forall draw_ok tr ->
  constrained fuel c eh ew acc tries tr = Ok (l, tr') ->
  (exists g', len g' <= jN c /\ l = nz 0 g') /\ Forall draw_ok tr'.
Proof.
  induction fuel as [|f IH]; intros c eh ew acc tries tr l tr' Hc Htr H; simpl in H; try discriminate.
  destruct (draw_box c eh ew tr) as [[[top lf] tr1]| |] eqn:Ed; try discriminate.
  destruct (draw_box_spec _ _ _ _ _ _ _ Htr Ed) as (D1 & D2 & D3).
  destruct (jMinKeep c <? _) eqn:E.
  - inversion H; subst. split; auto. eexists. split; [|reflexivity].
    pose proof (fold_map2_length_le (firstn (Z.to_nat (Z.max (len acc - tries / jTries c) 0)) acc)
                  (rect_grid c top (top + eh) lf (lf + ew))) as Hl.
    rewrite rect_grid_length in Hl. destruct Hc as [C1 C2]. unfold len, jN.
    apply inj_le in Hl. rewrite Nat2Z.inj_mul, !Z2Nat.id in Hl by lia. exact Hl.
  - eapply IH; eauto.
Qed.

(* inside the premise the first try is accepted with every complement applied *)
Lemma constrained_premise : forall fuel c ph pw eh ew gs tr l tr', jcfg_ok c -> Forall draw_ok tr ->
  0 <= ph -> 0 <= pw -> 0 <= eh -> 0 <= ew -> Forall (is_grid c ph pw) gs ->
  eh * ew - Z.of_nat (length gs) * (ph * pw) > jMinKeep c ->
  constrained fuel c eh ew (map (map negb) gs) 0 tr = Ok (l, tr') ->
  (forall g, In g gs -> disjoint l (nz 0 g)) /\ length tr = S (S (length tr')).
Proof.
  intros fuel c ph pw eh ew gs tr l tr' Hc Htr Hph Hpw Heh Hew Hgs Hprem H.
  destruct fuel as [|f]; simpl in H; try discriminate.
  destruct (draw_box c eh ew tr) as [[[top lf] tr1]| |] eqn:Ed; try discriminate.
  destruct (draw_box_spec _ _ _ _ _ _ _ Htr Ed) as (D1 & D2 & D3).
  assert (Hlen : length tr = S (S (length tr1))).
  { unfold draw_box in Ed. destruct tr as [|[| |? ? ?| |] [|[| |? ? ?| |] tr]]; try discriminate.
    destruct (_ && _) in Ed; try discriminate. inversion Ed; subst. reflexivity. }
  rewrite Zdiv_0_l in H.
  replace (Z.to_nat (Z.max (len (map (map negb) gs) - 0) 0)) with (length (map (map negb) gs)) in H
    by (unfold len; lia).
  rewrite firstn_all in H.
  set (g := rect_grid c top (top + eh) lf (lf + ew)) in *.
  assert (Hg : is_grid c eh ew g) by (exists top, lf; splits; auto; lia).
  destruct (is_grid_facts _ _ _ _ Hc Heh Hew Hg) as (Lg & Cg & _).
  assert (Hcnt : count_true g - Z.of_nat (length gs) * (ph * pw)
                 <= count_true (fold_left (map2 andb) (map (map negb) gs) g)).
  { apply fold_count. eapply Forall_impl; [|exact Hgs]. simpl. intros g0 Hg0.
    destruct (is_grid_facts _ _ _ _ Hc Hph Hpw Hg0) as (L0 & C0 & _). unfold len in *. split; [lia | exact C0]. }
  rewrite len_nz in H.
  destruct (jMinKeep c <? _) eqn:E; [|lia].
  inversion H; subst. split; [|exact Hlen].
  intros g0 Hg0. apply fold_disjoint. exact Hg0.
Qed.

Lemma enc_loop_spec : forall n c ph pw eh ew gs mk tr ms mk' tr', jcfg_ok c -> Forall draw_ok tr ->
  0 <= ph -> 0 <= pw -> 0 <= eh -> 0 <= ew -> Forall (is_grid c ph pw) gs ->
  enc_loop n c eh ew (map (map negb) gs) mk tr = Ok (ms, mk', tr') ->
  length ms = n /\ Forall (fun e => exists g', len g' <= jN c /\ e = nz 0 g') ms /\
  (eh * ew - Z.of_nat (length gs) * (ph * pw) > jMinKeep c ->
   Forall (fun e => forall g, In g gs -> disjoint e (nz 0 g)) ms /\
   length tr = (2 * n + length tr')%nat) /\
  glb mk ms mk' /\ Forall draw_ok tr'.
Proof.
  induction n as [|n IH]; intros c ph pw eh ew gs mk tr ms mk' tr' Hc Htr Hph Hpw Heh Hew Hgs H; simpl in H.
  - inversion H; subst. splits; auto. apply glb_nil.
  - destruct (constrained (length tr) c eh ew _ 0 tr) as [[m tr1]| |] eqn:Ec; try discriminate.
    destruct (enc_loop n c eh ew _ _ tr1) as [[[ms1 mk1] tr2]| |] eqn:Ee; try discriminate.
    inversion H; subst.
    destruct (constrained_spec _ _ _ _ _ _ _ _ _ Hc Htr Ec) as (S1 & S2).
    destruct (IH _ _ _ _ _ _ _ _ _ _ _ Hc S2 Hph Hpw Heh Hew Hgs Ee) as (K1 & K2 & K3 & K4 & K5).
    splits; auto.
    + simpl. lia.
    + intros Hprem. destruct (K3 Hprem) as [K3a K3b].
      destruct (constrained_premise _ _ _ _ _ _ _ _ _ _ Hc Htr Hph Hpw Heh Hew Hgs Hprem Ec) as [P1 P2].
      split; [constructor; auto | lia].
    + apply glb_cons. exact K4.
Qed.

Lemma pred_loop_trace_len : forall n c ph pw mk tr ms comps mk' tr',
  pred_loop n c ph pw mk tr = Ok (ms, comps, mk', tr') -> length tr = (2 * n + length tr')%nat.
Proof.
  induction n as [|n IHn]; intros c ph pw mk tr ms comps mk' tr' Ep; simpl in Ep.
  - inversion Ep; subst. simpl. lia.
  - unfold sample_block_mask, draw_box in Ep.
    destruct tr as [|[| |? ? ?| |] [|[| |? ? ?| |] tr]]; try discriminate.
    destruct (_ && _) in Ep; try discriminate.
    destruct (pred_loop n c ph pw _ tr) as [[[[ms1 comps1] mk1] tr2]| |] eqn:Ep1; try discriminate.
    inversion Ep; subst. specialize (IHn _ _ _ _ _ _ _ _ _ Ep1). simpl length. lia.
Qed.

(* outside the premise: once tries // self.tries reaches the number of complements none is applied any more, so a
   block with more than min_keep patches is accepted: at most len(acceptable_regions) * self.tries + 1 iterations *)
Lemma constrained_ends : forall fuel c eh ew acc tries tr, jcfg_ok c -> Forall draw_ok tr ->
  0 <= eh -> 0 <= ew -> 1 <= jTries c -> 0 <= tries -> jMinKeep c < eh * ew ->
  Z.max (len acc * jTries c - tries) 0 + 1 <= Z.of_nat fuel ->
  constrained fuel c eh ew acc tries tr <> OutOfFuel.
Proof.
  induction fuel as [|f IH]; intros c eh ew acc tries tr Hc Htr Heh Hew HT Htries Hmk Hf; [lia|].
  simpl. destruct (draw_box c eh ew tr) as [[[top lf] tr1]| |] eqn:Ed; try discriminate.
  - destruct (draw_box_spec _ _ _ _ _ _ _ Htr Ed) as (D1 & D2 & D3).
    destruct (jMinKeep c <? _) eqn:E; [discriminate|].
    apply IH; auto; try lia.
    destruct (Z_lt_le_dec tries (len acc * jTries c)) as [Hlt|Hge]; [lia|].
    exfalso.
    assert (Hq : len acc <= tries / jTries c) by (apply Z.div_le_lower_bound; lia).
    replace (Z.to_nat (Z.max (len acc - tries / jTries c) 0)) with 0%nat in E by lia.
    simpl in E.
    assert (Hg : is_grid c eh ew (rect_grid c top (top + eh) lf (lf + ew))) by (exists top, lf; splits; auto; lia).
    destruct (is_grid_facts _ _ _ _ Hc Heh Hew Hg) as (_ & Cg & _).
    rewrite len_nz, Cg in E. lia.
  - unfold draw_box in Ed. destruct tr as [|[| | | |] [|[| | | |] ?]]; try discriminate.
    destruct (_ && _) in Ed; discriminate.
Qed.

(* what holds of one sample before truncation *)
Definition sample_inv (c : jcfg) (ph pw : Z) (prem : Prop) (s : sample) : Prop :=
  exists gs, length gs = jNPred c /\ Forall (is_grid c ph pw) gs /\ fst s = map (nz 0) gs /\
             length (snd s) = jNEnc c /\
             Forall (fun e => exists g', len g' <= jN c /\ e = nz 0 g') (snd s) /\
             (prem -> Forall (fun e => forall g, In g gs -> disjoint e (nz 0 g)) (snd s)).

Lemma batch_loop_spec : forall b c ph pw eh ew mkp mke tr ss mkp' mke' tr', jcfg_ok c -> Forall draw_ok tr ->
  0 <= ph -> 0 <= pw -> 0 <= eh -> 0 <= ew ->
  batch_loop b c ph pw eh ew mkp mke tr = Ok (ss, mkp', mke', tr') ->
  length ss = b /\
  Forall (sample_inv c ph pw (eh * ew - Z.of_nat (jNPred c) * (ph * pw) > jMinKeep c)) ss /\
  glb mkp (concat (map fst ss)) mkp' /\ glb mke (concat (map snd ss)) mke' /\
  (eh * ew - Z.of_nat (jNPred c) * (ph * pw) > jMinKeep c ->
   length tr = (b * (2 * jNPred c + 2 * jNEnc c) + length tr')%nat) /\
  Forall draw_ok tr'.
Proof.
  induction b as [|b IH]; intros c ph pw eh ew mkp mke tr ss mkp' mke' tr' Hc Htr Hph Hpw Heh Hew H; simpl in H.
  - inversion H; subst. splits; auto; try apply glb_nil. all: try (intros; simpl; lia).
  - destruct (pred_loop (jNPred c) c ph pw mkp tr) as [[[[pm comps] mkp1] tr1]| |] eqn:Ep; try discriminate.
    destruct (pred_loop_spec _ _ _ _ _ _ _ _ _ _ Htr Hph Hpw Ep) as (gs & G1 & G2 & G3 & G4 & G5 & G6).
    subst comps.
    destruct (enc_loop (jNEnc c) c eh ew _ mke tr1) as [[[em mke1] tr2]| |] eqn:Ee; try discriminate.
    destruct (enc_loop_spec _ _ _ _ _ _ _ _ _ _ _ _ Hc G6 Hph Hpw Heh Hew G2 Ee) as (E1 & E2 & E3 & E4 & E5).
    destruct (batch_loop b c ph pw eh ew mkp1 mke1 tr2) as [[[[ss1 mkp2] mke2] tr3]| |] eqn:Eb; try discriminate.
    inversion H; subst.
    destruct (IH _ _ _ _ _ _ _ _ _ _ _ _ Hc E5 Hph Hpw Heh Hew Eb) as (K1 & K2 & K3 & K4 & K5 & K6).
    rewrite G1 in E3.
    splits; auto.
    + simpl. lia.
    + constructor; auto. exists gs. simpl. splits; auto. intros Hp. apply (E3 Hp).
    + simpl. eapply glb_app; eauto.
    + simpl. eapply glb_app; eauto.
    + intros Hp. destruct (E3 Hp) as [_ L1]. specialize (K5 Hp).
      pose proof (pred_loop_trace_len _ _ _ _ _ _ _ _ _ _ Ep).
      lia.
Qed.

(* ---- truncation to the batch minima and the row layout of the returned tensors ---- *)
Lemma In_firstn {A} (x : A) : forall n l, In x (firstn n l) -> In x l.
Proof.
  induction n as [|n IH]; intros [|y l] H; simpl in H; try contradiction.
  destruct H as [->|H]; [left; reflexivity | right; apply IH; exact H].
Qed.

Lemma len_firstn {A} (l : list A) k : 0 <= k <= len l -> len (firstn (Z.to_nat k) l) = k.
Proof. unfold len. intros H. rewrite firstn_length. lia. Qed.

Lemma In_rows_of n sel ss r : In r (rows_of n sel ss) ->
  exists j s, (j < n)%nat /\ In s ss /\ r = nth j (sel s) [].
Proof.
  unfold rows_of. intros H. apply in_flat_map in H. destruct H as (j & Hj & H).
  apply in_map_iff in H. destruct H as (s & <- & Hs). apply in_seq in Hj.
  exists j, s. splits; auto. lia.
Qed.

Lemma rows_of_length n sel ss : length (rows_of n sel ss) = (n * length ss)%nat.
Proof.
  unfold rows_of. rewrite (flat_map_const_length _ (length ss)).
  - rewrite seq_length. reflexivity.
  - intros. apply map_length.
Qed.

Lemma nth_flat_map_const {A} (f : nat -> list A) L d : (forall k, length (f k) = L) ->
  forall n s j b, (j < n)%nat -> (b < L)%nat ->
  nth (j * L + b) (flat_map f (seq s n)) d = nth b (f (s + j)%nat) d.
Proof.
  intros Hf. induction n as [|n IH]; intros s j b Hj Hb; [lia|].
  simpl seq. simpl flat_map. destruct j as [|j].
  - simpl Nat.mul. simpl Nat.add. rewrite app_nth1 by (rewrite Hf; exact Hb). rewrite Nat.add_0_r. reflexivity.
  - rewrite app_nth2 by (rewrite Hf; simpl; lia). rewrite Hf.
    replace (S j * L + b - L)%nat with (j * L + b)%nat by (simpl; lia).
    rewrite IH by lia. f_equal. f_equal. lia.
Qed.

(* row j*B + b of the returned tensor is mask j of sample b *)
Lemma nth_rows_of n sel ss j b d : (j < n)%nat -> (b < length ss)%nat ->
  nth (j * length ss + b) (rows_of n sel ss) [] = nth j (sel (nth b ss d)) [].
Proof.
  intros Hj Hb. unfold rows_of.
  rewrite (nth_flat_map_const (fun j => map (fun s => nth j (sel s) []) ss) (length ss) [])
    by (auto; intros; apply map_length).
  simpl Nat.add.
  rewrite (nth_indep _ [] ((fun s => nth j (sel s) []) d)) by (rewrite map_length; exact Hb).
  apply (map_nth (fun s => nth j (sel s) [])).
Qed.

Definition tsample_ok (c : jcfg) (ph pw mkp mke : Z) (prem : Prop) (s : sample) : Prop :=
  length (fst s) = jNPred c /\ length (snd s) = jNEnc c /\
  Forall (fun l => strictly_inc 0 l (jN c) = true) (fst s ++ snd s) /\
  Forall (is_rect (jH c) (jW c) ph pw) (fst s) /\
  Forall (fun l => len l = mkp) (fst s) /\ Forall (fun l => len l = mke) (snd s) /\
  (prem -> sample_disjoint s).

Lemma truncate_ok c ph pw mkp mke prem s : jcfg_ok c -> 0 <= ph -> 0 <= pw ->
  sample_inv c ph pw prem s -> ph * pw <= mkp -> Forall (fun m => mkp <= len m) (fst s) ->
  0 <= mke -> Forall (fun e => mke <= len e) (snd s) ->
  tsample_ok c ph pw mkp mke prem (truncate mkp mke s).
Proof.
  intros Hc Hph Hpw (gs & G1 & G2 & G3 & G4 & G5 & G6) Hmkp Hlow Hmke Hlowe.
  assert (Hfacts : Forall (fun m => len m = ph * pw /\ strictly_inc 0 m (jN c) = true /\
                                    is_rect (jH c) (jW c) ph pw m) (fst s)).
  { rewrite G3. apply Forall_forall. intros m Hm. apply in_map_iff in Hm. destruct Hm as (g & <- & Hg).
    rewrite Forall_forall in G2. destruct (is_grid_facts _ _ _ _ Hc Hph Hpw (G2 g Hg)) as (F1 & F2 & F3).
    splits; auto.
    - rewrite len_nz. exact F2.
    - pose proof (strictly_inc_nz g 0 0 ltac:(lia)) as Hs. rewrite F1 in Hs. exact Hs. }
  assert (Hfst : map (firstn (Z.to_nat mkp)) (fst s) = fst s).
  { rewrite <- (map_id (fst s)) at 2. apply map_ext_in. intros m Hm.
    rewrite Forall_forall in Hfacts. destruct (Hfacts m Hm) as (F1 & _).
    apply firstn_all2. unfold len in F1. lia. }
  unfold tsample_ok, truncate. simpl fst. simpl snd. rewrite Hfst. splits.
  - rewrite G3, map_length. exact G1.
  - rewrite map_length. exact G4.
  - apply Forall_app. split.
    + eapply Forall_impl; [|exact Hfacts]. simpl. intros m (_ & F & _). exact F.
    + apply Forall_forall. intros e He. apply in_map_iff in He. destruct He as (e0 & <- & He0).
      rewrite Forall_forall in G5. destruct (G5 e0 He0) as (g' & Lg & ->).
      apply strictly_inc_firstn. apply (strictly_inc_weaken _ 0 (0 + len g')); [lia|].
      apply strictly_inc_nz. lia.
  - eapply Forall_impl; [|exact Hfacts]. simpl. intros m (_ & _ & F). exact F.
  - apply Forall_forall. intros m Hm. rewrite Forall_forall in Hfacts, Hlow.
    destruct (Hfacts m Hm) as (F1 & _). specialize (Hlow m Hm). lia.
  - apply Forall_forall. intros e He. apply in_map_iff in He. destruct He as (e0 & <- & He0).
    rewrite Forall_forall in Hlowe. specialize (Hlowe e0 He0). apply len_firstn. lia.
  - intros Hp e p He Hpin. simpl fst in Hpin. simpl snd in He.
    apply in_map_iff in He. destruct He as (e0 & <- & He0).
    rewrite G3 in Hpin. apply in_map_iff in Hpin. destruct Hpin as (g & <- & Hg).
    specialize (G6 Hp). rewrite Forall_forall in G6.
    intros x Hx. apply In_firstn in Hx. exact (G6 e0 He0 g Hg x Hx).
Qed.

Lemma Forall_concat_elim {A} (P : A -> Prop) (ls : list (list A)) l :
  Forall P (concat ls) -> In l ls -> Forall P l.
Proof.
  intros H Hl. rewrite Forall_forall in *. intros x Hx. apply H. apply in_concat. exists l. auto.
Qed.

Lemma block_sizes_bounds c sizes ctr ph pw eh ew : jcfg_ok c -> sizes_ok sizes ->
  block_sizes c sizes ctr = ((ph, pw), (eh, ew)) ->
  0 <= ph <= jH c - 1 /\ 0 <= pw <= jW c - 1 /\ 0 <= eh <= jH c - 1 /\ 0 <= ew <= jW c - 1.
Proof.
  intros [C1 C2] Hs H. unfold block_sizes in H. specialize (Hs (ctr + 1)).
  destruct (sizes (ctr + 1)) as [[[a b] e] f]. unfold clamp_size in H. inversion H; subst. lia.
Qed.

(* the I-JEPA collator's output meets the I-JEPA part of the property *)
Lemma ijepa_collate_ok : forall c sizes ctr B tr o,
  jcfg_ok c -> sizes_ok sizes -> 0 <= B -> Forall draw_ok tr ->
  ijepa_collate c sizes ctr B tr = Ok o ->
  (o_psize o, o_esize o) = block_sizes c sizes ctr /\ o_ctr o = ctr + 1 /\
  ijepa_ok c B (o_psize o) (o_esize o) (o_enc o) (o_pred o) /\
  (premise c (o_psize o) (o_esize o) ->
   length tr = S (Z.to_nat B * (2 * jNPred c + 2 * jNEnc c))).
Proof.
  intros c sizes ctr B tr o Hc Hs HB Htr H. unfold ijepa_collate in H.
  destruct tr as [|[| | | |s] tr0]; try discriminate.
  destruct (negb (s =? ctr + 1)); try discriminate.
  destruct (block_sizes c sizes ctr) as [[ph pw] [eh ew]] eqn:Ebs.
  destruct (block_sizes_bounds _ _ _ _ _ _ _ Hc Hs Ebs) as (Bph & Bpw & Beh & Bew).
  inversion Htr as [|? ? _ Htr0]; subst.
  destruct (batch_loop (Z.to_nat B) c ph pw eh ew (jH c * jW c) (jH c * jW c) tr0)
    as [[[[ss mkp] mke] tr1]| |] eqn:Eb; try discriminate.
  destruct tr1; try discriminate. inversion H; subst o; clear H. simpl.
  assert (Hph : 0 <= ph) by lia. assert (Hpw : 0 <= pw) by lia.
  assert (Heh : 0 <= eh) by lia. assert (Hew : 0 <= ew) by lia.
  destruct (batch_loop_spec _ _ _ _ _ _ _ _ _ _ _ _ _ Hc Htr0 Hph Hpw Heh Hew Eb)
    as (K1 & K2 & K3 & K4 & K5 & K6).
  set (prem := eh * ew - Z.of_nat (jNPred c) * (ph * pw) > jMinKeep c) in *.
  destruct K3 as (P1 & P2 & P3). destruct K4 as (E1 & E2 & E3).
  fold (jN c) in *.
  assert (Hmkp : ph * pw <= mkp).
  { apply P3; [unfold jN; destruct Hc; nia|].
    apply Forall_forall. intros m Hm. apply in_concat in Hm. destruct Hm as (ms & Hms & Hm).
    apply in_map_iff in Hms. destruct Hms as (s0 & <- & Hs0).
    rewrite Forall_forall in K2. destruct (K2 s0 Hs0) as (gs & _ & G2 & G3 & _).
    rewrite G3 in Hm. apply in_map_iff in Hm. destruct Hm as (g & <- & Hg).
    rewrite Forall_forall in G2.
    destruct (is_grid_facts _ _ _ _ Hc Hph Hpw (G2 g Hg)) as (_ & F2 & _).
    rewrite len_nz. lia. }
  assert (Hmke : 0 <= mke).
  { apply E3; [unfold jN; destruct Hc; nia|]. apply Forall_forall. intros; apply len_nonneg. }
  assert (Hss : Forall (tsample_ok c ph pw mkp mke prem) (map (truncate mkp mke) ss)).
  { apply Forall_forall. intros s' Hs'. apply in_map_iff in Hs'. destruct Hs' as (s0 & <- & Hs0).
    rewrite Forall_forall in K2.
    apply truncate_ok; auto; try lia.
    - apply (Forall_concat_elim _ _ _ P2). apply in_map. exact Hs0.
    - apply (Forall_concat_elim _ _ _ E2). apply in_map. exact Hs0. }
  set (ss' := map (truncate mkp mke) ss) in *.
  assert (Hlen : length ss' = Z.to_nat B) by (unfold ss'; rewrite map_length; exact K1).
  rewrite Forall_forall in Hss.
  assert (Hrow : forall (sel : sample -> list (list Z)) n (P : list Z -> Prop),
            (forall s, In s ss' -> length (sel s) = n /\ Forall P (sel s)) -> Forall P (rows_of n sel ss')).
  { intros sel n P HP. apply Forall_forall. intros r Hr. apply In_rows_of in Hr.
    destruct Hr as (j & s0 & Hj & Hs0 & ->). destruct (HP s0 Hs0) as [L F].
    rewrite Forall_forall in F. apply F. apply nth_In. lia. }
  splits; auto.
  unfold ijepa_ok. simpl fst. simpl snd. splits.
  - unfold len. rewrite rows_of_length, Hlen. lia.
  - unfold len. rewrite rows_of_length, Hlen. lia.
  - apply Forall_app. split.
    + apply Hrow. intros s0 Hs0. destruct (Hss s0 Hs0) as (T1 & T2 & T3 & _).
      apply Forall_app in T3. destruct T3. split; auto.
    + apply Hrow. intros s0 Hs0. destruct (Hss s0 Hs0) as (T1 & T2 & T3 & _).
      apply Forall_app in T3. destruct T3. split; auto.
  - exists mke. apply Hrow. intros s0 Hs0. destruct (Hss s0 Hs0) as (T1 & T2 & T3 & T4 & T5 & T6 & T7). auto.
  - exists mkp. apply Hrow. intros s0 Hs0. destruct (Hss s0 Hs0) as (T1 & T2 & T3 & T4 & T5 & T6 & T7). auto.
  - apply Hrow. intros s0 Hs0. destruct (Hss s0 Hs0) as (T1 & T2 & T3 & T4 & T5 & T6 & T7). auto.
  - intros Hp j k b Hj Hk Hb. unfold row.
    assert (Hbn : (b < length ss')%nat) by lia.
    replace (Z.to_nat (Z.of_nat j * B + Z.of_nat b)) with (j * length ss' + b)%nat by (rewrite Hlen; nia).
    replace (Z.to_nat (Z.of_nat k * B + Z.of_nat b)) with (k * length ss' + b)%nat by (rewrite Hlen; nia).
    rewrite (nth_rows_of _ snd ss' j b ([], [])) by assumption.
    rewrite (nth_rows_of _ fst ss' k b ([], [])) by assumption.
    pose proof (nth_In ss' ([], []) Hbn) as Hin.
    destruct (Hss _ Hin) as (T1 & T2 & T3 & T4 & T5 & T6 & T7).
    apply (T7 Hp); apply nth_In; lia.
  - intros Hp. simpl length. f_equal. specialize (K5 Hp). rewrite K5. simpl. lia.
Qed.

(* ---- the small ones ---- *)
Lemma ijepa_sizes_step : forall c sizes ctr B1 B2 tr1 tr2 o1 o2,
  ijepa_collate c sizes ctr B1 tr1 = Ok o1 -> ijepa_collate c sizes ctr B2 tr2 = Ok o2 ->
  o_psize o1 = o_psize o2 /\ o_esize o1 = o_esize o2 /\ o_ctr o1 = ctr + 1 /\ o_ctr o2 = ctr + 1.
Proof.
  intros c sizes ctr B1 B2 tr1 tr2 o1 o2 H1 H2. unfold ijepa_collate in *.
  destruct tr1 as [|[| | | |s1] tr1]; try discriminate. destruct tr2 as [|[| | | |s2] tr2]; try discriminate.
  destruct (negb (s1 =? ctr + 1)); try discriminate. destruct (negb (s2 =? ctr + 1)); try discriminate.
  destruct (block_sizes c sizes ctr) as [[ph pw] [eh ew]].
  destruct (batch_loop (Z.to_nat B1) _ _ _ _ _ _ _ tr1) as [[[[ss1 mkp1] mke1] t1]| |]; try discriminate.
  destruct (batch_loop (Z.to_nat B2) _ _ _ _ _ _ _ tr2) as [[[[ss2 mkp2] mke2] t2]| |]; try discriminate.
  destruct t1; try discriminate. destruct t2; try discriminate.
  inversion H1; inversion H2; subst. simpl. auto.
Qed.

Lemma dino_call_passthrough : forall (A : Type) c (batch : A) has_ctx B tr b' r,
  dino_call c batch has_ctx B tr = Ok (b', r) -> b' = batch /\ (has_ctx = false -> r = None /\ tr = []).
Proof.
  intros A c batch has_ctx B tr b' r H. unfold dino_call in H. destruct has_ctx.
  - destruct (dino_collate c B tr); try discriminate. inversion H; subst. split; [reflexivity | discriminate].
  - destruct tr; try discriminate. inversion H; subst. auto.
Qed.

Lemma ijepa_call_passthrough : forall (A : Type) c sizes ctr (batch : A) has_ctx B tr b' ctr' r,
  ijepa_call c sizes ctr batch has_ctx B tr = Ok (b', ctr', r) ->
  b' = batch /\ (has_ctx = false -> r = None /\ tr = [] /\ ctr' = ctr).
Proof.
  intros A c sizes ctr batch has_ctx B tr b' ctr' r H. unfold ijepa_call in H. destruct has_ctx.
  - destruct (ijepa_collate c sizes ctr B tr); try discriminate. inversion H; subst. split; [reflexivity | discriminate].
  - destruct tr; try discriminate. inversion H; subst. auto.
Qed.

(* ---- the statements of Property.v ---- *)
Lemma P_dino_nonempty_masks_le_budget : forall c B tr ms, dcfg_ok c -> 0 <= B -> Forall draw_ok tr ->
  dino_collate c B tr = Ok ms -> count_nonempty ms <= budget c B.
Proof. intros c B tr ms Hc HB Htr H. exact (proj1 (proj2 (proj2 (dino_collate_ok _ _ _ _ Hc HB Htr H)))). Qed.

Lemma P_dino_no_mask_exceeds_upper_ratio : forall c B tr ms, dcfg_ok c -> 0 <= B -> Forall draw_ok tr ->
  dino_collate c B tr = Ok ms -> Forall (fun m => popcount m <= cap c) ms.
Proof. intros c B tr ms Hc HB Htr H. exact (proj2 (proj2 (proj2 (dino_collate_ok _ _ _ _ Hc HB Htr H)))). Qed.

Lemma P_dino_masks_have_grid_size : forall c B tr ms, dcfg_ok c -> 0 <= B -> Forall draw_ok tr ->
  dino_collate c B tr = Ok ms -> len ms = B * dV c /\ Forall (well_shaped (dH c) (dW c)) ms.
Proof.
  intros c B tr ms Hc HB Htr H. destruct (dino_collate_ok _ _ _ _ Hc HB Htr H) as (A1 & A2 & _). auto.
Qed.

Lemma P_dino_count_le_target : forall fuel c m num total tr m' num' tr',
  Forall draw_ok tr -> popcount m = num -> num <= total ->
  generate fuel c m num total tr = Ok (m', num', tr') -> popcount m' = num' /\ num' <= total.
Proof.
  intros fuel c m num total tr m' num' tr' Htr Hp Hle H.
  destruct (generate_spec _ _ _ _ _ _ _ _ _ Htr Hp H) as (G1 & G2 & _). split; [exact G1 | lia].
Qed.

Lemma P_dino_target_le_cap : forall c lo hi u, dcfg_ok c -> draw_ok (DUnif lo hi u) ->
  rat_leb hi (dRn c, dRd c) = true -> fst u * dP c / snd u <= cap c.
Proof.
  intros c lo hi u (C1 & C2 & C3 & C4 & C5 & C6 & C7) (U1 & U2 & U3 & U4 & U5) Hhi.
  assert (rat_le u (dRn c, dRd c)).
  { unfold rat_leb in Hhi. simpl in Hhi. apply (rat_le_trans u hi (dRn c, dRd c)); simpl; auto.
    unfold rat_le; simpl. lia. }
  pose proof (rat_floor_mono u (dRn c, dRd c) (dP c) ltac:(unfold dP; nia) U3 C7 H) as Hm.
  exact Hm.
Qed.

Lemma P_dino_generate_terminates : forall c,
  (forall m num total tr fuel, total - num <= Z.of_nat fuel -> generate fuel c m num total tr <> OutOfFuel) /\
  (forall B tr, dino_collate c B tr <> OutOfFuel).
Proof.
  intros c. split.
  - intros. apply generate_no_fuel. assumption.
  - intros. apply dino_collate_no_fuel.
Qed.

Section IjepaProjections.
  Variables (c : jcfg) (sizes : Z -> raw4) (ctr B : Z) (tr : list draw) (o : jout).
  Hypothesis Hc : jcfg_ok c.
  Hypothesis Hs : sizes_ok sizes.
  Hypothesis HB : 0 <= B.
  Hypothesis Htr : Forall draw_ok tr.
  Hypothesis H : ijepa_collate c sizes ctr B tr = Ok o.

  Let OK := proj1 (proj2 (proj2 (ijepa_collate_ok c sizes ctr B tr o Hc Hs HB Htr H))).

  Lemma P_ijepa_indices_sorted_nodup_inrange :
    Forall (fun l => strictly_inc 0 l (jH c * jW c) = true) (o_enc o ++ o_pred o).
  Proof. exact (proj1 (proj2 (proj2 OK))). Qed.

  Lemma P_ijepa_pred_rect_common_size :
    len (o_pred o) = Z.of_nat (jNPred c) * B /\
    Forall (is_rect (jH c) (jW c) (fst (o_psize o)) (snd (o_psize o))) (o_pred o).
  Proof. split; [exact (proj1 (proj2 OK)) | exact (proj1 (proj2 (proj2 (proj2 (proj2 (proj2 OK))))))]. Qed.

  Lemma P_ijepa_enc_disjoint_from_pred : premise c (o_psize o) (o_esize o) ->
    forall j k b : nat, (j < jNEnc c)%nat -> (k < jNPred c)%nat -> Z.of_nat b < B ->
      disjoint (row (o_enc o) B (Z.of_nat j) (Z.of_nat b)) (row (o_pred o) B (Z.of_nat k) (Z.of_nat b)).
  Proof. exact (proj2 (proj2 (proj2 (proj2 (proj2 (proj2 OK)))))). Qed.

  Lemma P_ijepa_common_length :
    len (o_enc o) = Z.of_nat (jNEnc c) * B /\
    (exists k, common_length k (o_enc o)) /\ (exists k, common_length k (o_pred o)).
  Proof.
    split; [exact (proj1 OK)|].
    split; [exact (proj1 (proj2 (proj2 (proj2 OK)))) | exact (proj1 (proj2 (proj2 (proj2 (proj2 OK)))))].
  Qed.

  Lemma P_ijepa_no_retry_inside_premise : premise c (o_psize o) (o_esize o) ->
    length tr = S (Z.to_nat B * (2 * jNPred c + 2 * jNEnc c)).
  Proof. exact (proj2 (proj2 (proj2 (ijepa_collate_ok c sizes ctr B tr o Hc Hs HB Htr H)))). Qed.
End IjepaProjections.

Lemma P_ijepa_size_depends_only_on_step : forall c sizes ctr B1 B2 tr1 tr2 o1 o2,
  ijepa_collate c sizes ctr B1 tr1 = Ok o1 -> ijepa_collate c sizes ctr B2 tr2 = Ok o2 ->
  o_psize o1 = o_psize o2 /\ o_esize o1 = o_esize o2 /\ o_ctr o1 = ctr + 1 /\ o_ctr o2 = ctr + 1.
Proof. exact ijepa_sizes_step. Qed.

Lemma P_batch_passthrough : forall (A : Type) (batch : A),
  (forall c has_ctx B tr b' r, dino_call c batch has_ctx B tr = Ok (b', r) ->
     b' = batch /\ (has_ctx = false -> r = None /\ tr = [])) /\
  (forall c sizes ctr has_ctx B tr b' ctr' r, ijepa_call c sizes ctr batch has_ctx B tr = Ok (b', ctr', r) ->
     b' = batch /\ (has_ctx = false -> r = None /\ tr = [] /\ ctr' = ctr)).
Proof.
  intros A batch. split.
  - intros. eapply dino_call_passthrough; eauto.
  - intros. eapply ijepa_call_passthrough; eauto.
Qed.

(* ================================================= sequences of calls on one collator object *)
Definition call_ok (cl : bool * Z * list draw) : Prop := 0 <= snd (fst cl) /\ Forall draw_ok (snd cl).

(* number of calls with a ctx *)
Definition nctx (calls : list (bool * Z * list draw)) : Z := len (filter (fun cl => fst (fst cl)) calls).

Lemma dino_seq_ok : forall c calls k has_ctx B tr b r,
  dcfg_ok c -> nth_error calls k = Some (has_ctx, B, tr) -> 0 <= B -> Forall draw_ok tr ->
  nth_error (dino_seq c calls) k = Some (Ok (b, r)) ->
  (has_ctx = true -> exists ms, r = Some ms /\ dino_ok c B ms) /\
  (has_ctx = false -> r = None /\ tr = []).
Proof.
  intros c calls k has_ctx B tr b r Hc Hk HB Htr H.
  unfold dino_seq in H. rewrite nth_error_map, Hk in H. simpl in H. inversion H as [H1]. clear H.
  unfold dino_call in H1. destruct has_ctx.
  - split; [intros _|discriminate].
    destruct (dino_collate c B tr) as [ms| |] eqn:E; try discriminate.
    inversion H1; subst. exists ms. split; auto. eapply dino_collate_ok; eauto.
  - split; [discriminate|intros _]. destruct tr; try discriminate. inversion H1; subst. auto.
Qed.

Lemma nctx_cons : forall cl calls, nctx (cl :: calls) = (if fst (fst cl) then 1 else 0) + nctx calls.
Proof.
  intros [[hc B] tr] calls. unfold nctx, len. simpl. destruct hc; simpl length; lia.
Qed.

Lemma ijepa_seq_ok : forall calls c sizes ctr k has_ctx B tr ctrk r,
  jcfg_ok c -> sizes_ok sizes -> Forall call_ok calls ->
  nth_error calls k = Some (has_ctx, B, tr) ->
  nth_error (ijepa_seq c sizes ctr calls) k = Some (ctrk, r) ->
  ctrk = ctr + nctx (firstn k calls) /\
  (has_ctx = false -> r = None) /\
  (has_ctx = true -> exists o, r = Some o /\ (o_psize o, o_esize o) = block_sizes c sizes ctrk /\
                               o_ctr o = ctrk + 1 /\
                               ijepa_ok c B (o_psize o) (o_esize o) (o_enc o) (o_pred o)).
Proof.
  induction calls as [|[[hc0 B0] tr0] calls IH]; intros c sizes ctr k has_ctx B tr ctrk r Hc Hs Hall Hk H.
  - destruct k; discriminate.
  - inversion Hall as [|? ? [HB0 Htr0] Hall']; subst. simpl in HB0, Htr0.
    simpl in H. destruct (ijepa_call c sizes ctr tt hc0 B0 tr0) as [[[u ctr'] o]| |] eqn:Ecall;
      try (destruct k; discriminate).
    assert (Hctr' : ctr' = ctr + (if hc0 then 1 else 0) /\
                    (hc0 = false -> o = None) /\
                    (hc0 = true -> exists oo, o = Some oo /\ (o_psize oo, o_esize oo) = block_sizes c sizes ctr /\
                                              o_ctr oo = ctr + 1 /\
                                              ijepa_ok c B0 (o_psize oo) (o_esize oo) (o_enc oo) (o_pred oo))).
    { unfold ijepa_call in Ecall. destruct hc0.
      - destruct (ijepa_collate c sizes ctr B0 tr0) as [oo| |] eqn:Eo; try discriminate.
        inversion Ecall; subst. destruct (ijepa_collate_ok _ _ _ _ _ _ Hc Hs HB0 Htr0 Eo) as (A1 & A2 & A3 & _).
        split; [auto|]. split; [discriminate|]. intros _. exists oo. auto.
      - destruct tr0; try discriminate. inversion Ecall; subst. split; [lia|]. split; [auto|discriminate]. }
    destruct Hctr' as (E1 & E2 & E3).
    destruct k as [|k].
    + simpl in Hk, H. inversion Hk; subst. inversion H; subst. simpl. unfold nctx, len; simpl.
      split; [lia|]. split; auto.
    + simpl in Hk, H.
      destruct (IH c sizes ctr' k has_ctx B tr ctrk r Hc Hs Hall' Hk H) as (F1 & F2 & F3).
      split; auto. simpl firstn. rewrite nctx_cons. simpl. lia.
Qed.

(* ================================================= outside the premise: relaxation levels and draw counts *)
Lemma draw_box_len c bh bw tr top lf tr' : draw_box c bh bw tr = Ok (top, lf, tr') -> length tr = S (S (length tr')).
Proof.
  unfold draw_box. intros H. destruct tr as [|[| |? ? ?| |] [|[| |? ? ?| |] tr]]; try discriminate.
  destruct (_ && _) in H; try discriminate. inversion H; subst. reflexivity.
Qed.

(* _sample_block_mask_constrained entered with the counter [tries]: if it returns after n rejected iterations (2 integer
   draws each), the returned mask avoids the first max(len(regions) - (tries + n) // self.tries, 0) predictor blocks *)
Lemma constrained_relaxed : forall fuel c eh ew gs tries tr l tr',
  constrained fuel c eh ew (map (map negb) gs) tries tr = Ok (l, tr') ->
  exists n : nat, length tr = (2 * S n + length tr')%nat /\
    forall g, In g (firstn (Z.to_nat (Z.max (len gs - (tries + Z.of_nat n) / jTries c) 0)) gs) -> disjoint l (nz 0 g).
Proof.
  induction fuel as [|f IH]; intros c eh ew gs tries tr l tr' H; simpl in H; try discriminate.
  destruct (draw_box c eh ew tr) as [[[top lf] tr1]| |] eqn:Ed; try discriminate.
  pose proof (draw_box_len _ _ _ _ _ _ _ Ed) as Hlen.
  destruct (jMinKeep c <? _) eqn:E.
  - inversion H; subst. exists 0%nat. split; [simpl; lia|].
    intros g Hg. replace (tries + Z.of_nat 0) with tries in Hg by lia.
    assert (Hl : len (map (map negb) gs) = len gs) by (unfold len; rewrite map_length; reflexivity).
    rewrite Hl, firstn_map. apply fold_disjoint. exact Hg.
  - destruct (IH _ _ _ _ _ _ _ _ H) as (n & L & D). exists (S n). split; [lia|].
    intros g Hg. apply D. replace (tries + 1 + Z.of_nat n) with (tries + Z.of_nat (S n)) by lia. exact Hg.
Qed.

(* as soon as the encoder block has more than min_keep patches the loop needs at most len(regions) * self.tries
   rejected iterations (counted from tries = 0) *)
Lemma constrained_draws : forall fuel c eh ew acc tries tr l tr', jcfg_ok c -> Forall draw_ok tr ->
  0 <= eh -> 0 <= ew -> 1 <= jTries c -> 0 <= tries -> jMinKeep c < eh * ew ->
  constrained fuel c eh ew acc tries tr = Ok (l, tr') ->
  Z.of_nat (length tr) <= 2 * (Z.max (len acc * jTries c - tries) 0 + 1) + Z.of_nat (length tr').
Proof.
  induction fuel as [|f IH]; intros c eh ew acc tries tr l tr' Hc Htr Heh Hew HT Htries Hmk H; simpl in H; try discriminate.
  destruct (draw_box c eh ew tr) as [[[top lf] tr1]| |] eqn:Ed; try discriminate.
  pose proof (draw_box_len _ _ _ _ _ _ _ Ed) as Hlen.
  destruct (draw_box_spec _ _ _ _ _ _ _ Htr Ed) as (D1 & D2 & D3).
  destruct (jMinKeep c <? _) eqn:E.
  - inversion H; subst. lia.
  - assert (Ht1 : 0 <= tries + 1) by lia.
    specialize (IH _ _ _ _ _ _ _ _ Hc D3 Heh Hew HT Ht1 Hmk H).
    destruct (Z_lt_le_dec tries (len acc * jTries c)) as [Hlt|Hge]; [lia|].
    exfalso.
    assert (Hq : len acc <= tries / jTries c) by (apply Z.div_le_lower_bound; lia).
    replace (Z.to_nat (Z.max (len acc - tries / jTries c) 0)) with 0%nat in E by lia.
    simpl in E.
    assert (Hg : is_grid c eh ew (rect_grid c top (top + eh) lf (lf + ew))) by (exists top, lf; splits; auto; lia).
    destruct (is_grid_facts _ _ _ _ Hc Heh Hew Hg) as (_ & Cg & _).
    rewrite len_nz, Cg in E. lia.
Qed.

Lemma enc_loop_draws : forall n c eh ew acc mk tr ms mk' tr', jcfg_ok c -> Forall draw_ok tr ->
  0 <= eh -> 0 <= ew -> 1 <= jTries c -> jMinKeep c < eh * ew ->
  enc_loop n c eh ew acc mk tr = Ok (ms, mk', tr') ->
  Z.of_nat (length tr) <= Z.of_nat n * (2 * (len acc * jTries c + 1)) + Z.of_nat (length tr') /\ Forall draw_ok tr'.
Proof.
  induction n as [|n IH]; intros c eh ew acc mk tr ms mk' tr' Hc Htr Heh Hew HT Hmk H; simpl in H.
  - inversion H; subst. split; [lia|auto].
  - destruct (constrained (length tr) c eh ew acc 0 tr) as [[m tr1]| |] eqn:Ec; try discriminate.
    destruct (enc_loop n c eh ew acc _ tr1) as [[[ms1 mk1] tr2]| |] eqn:Ee; try discriminate.
    inversion H; subst.
    destruct (constrained_spec _ _ _ _ _ _ _ _ _ Hc Htr Ec) as (_ & S2).
    pose proof (constrained_draws _ _ _ _ _ _ _ _ _ Hc Htr Heh Hew HT (Z.le_refl 0) Hmk Ec) as Hd.
    destruct (IH _ _ _ _ _ _ _ _ _ Hc S2 Heh Hew HT Hmk Ee) as [K1 K2].
    split; auto. assert (0 <= len acc) by (unfold len; lia). nia.
Qed.

Lemma pred_loop_comps_len : forall n c ph pw mk tr ms comps mk' tr',
  pred_loop n c ph pw mk tr = Ok (ms, comps, mk', tr') -> length comps = n.
Proof.
  induction n as [|n IHn]; intros c ph pw mk tr ms comps mk' tr' Ep; simpl in Ep.
  - inversion Ep; subst. reflexivity.
  - destruct (sample_block_mask c ph pw tr) as [[[m comp] tr1]| |]; try discriminate.
    destruct (pred_loop n c ph pw _ tr1) as [[[[ms1 comps1] mk1] tr2]| |] eqn:Ep1; try discriminate.
    inversion Ep; subst. simpl. f_equal. eapply IHn; eauto.
Qed.

Lemma batch_loop_draws : forall b c ph pw eh ew mkp mke tr ss mkp' mke' tr', jcfg_ok c -> Forall draw_ok tr ->
  0 <= ph -> 0 <= pw -> 0 <= eh -> 0 <= ew -> 1 <= jTries c -> jMinKeep c < eh * ew ->
  batch_loop b c ph pw eh ew mkp mke tr = Ok (ss, mkp', mke', tr') ->
  Z.of_nat (length tr) <=
  Z.of_nat b * (2 * Z.of_nat (jNPred c) + Z.of_nat (jNEnc c) * (2 * (Z.of_nat (jNPred c) * jTries c + 1)))
  + Z.of_nat (length tr').
Proof.
  induction b as [|b IH]; intros c ph pw eh ew mkp mke tr ss mkp' mke' tr' Hc Htr Hph Hpw Heh Hew HT Hmk H; simpl in H.
  - inversion H; subst. lia.
  - destruct (pred_loop (jNPred c) c ph pw mkp tr) as [[[[pm comps] mkp1] tr1]| |] eqn:Ep; try discriminate.
    destruct (pred_loop_spec _ _ _ _ _ _ _ _ _ _ Htr Hph Hpw Ep) as (gs & G1 & G2 & G3 & G4 & G5 & G6).
    pose proof (pred_loop_trace_len _ _ _ _ _ _ _ _ _ _ Ep) as Lp.
    pose proof (pred_loop_comps_len _ _ _ _ _ _ _ _ _ _ Ep) as Lc.
    destruct (enc_loop (jNEnc c) c eh ew comps mke tr1) as [[[em mke1] tr2]| |] eqn:Ee; try discriminate.
    destruct (enc_loop_draws _ _ _ _ _ _ _ _ _ _ Hc G6 Heh Hew HT Hmk Ee) as [Le E5].
    destruct (batch_loop b c ph pw eh ew mkp1 mke1 tr2) as [[[[ss1 mkp2] mke2] tr3]| |] eqn:Eb; try discriminate.
    inversion H; subst.
    specialize (IH _ _ _ _ _ _ _ _ _ _ _ _ Hc E5 Hph Hpw Heh Hew HT Hmk Eb).
    unfold len in Le. rewrite Lc in Le. nia.
Qed.

(* a whole collate call: one seed + at most 2 draws per predictor mask + 2 * (num_pred_masks * tries + 1) draws per encoder
   mask, per sample - inside or outside the premise, as soon as the (clamped) encoder block has more than min_keep patches *)
Lemma ijepa_collate_draws : forall c sizes ctr B tr o,
  jcfg_ok c -> sizes_ok sizes -> 0 <= B -> Forall draw_ok tr -> 1 <= jTries c ->
  ijepa_collate c sizes ctr B tr = Ok o ->
  jMinKeep c < fst (o_esize o) * snd (o_esize o) ->
  Z.of_nat (length tr) <=
  1 + B * (2 * Z.of_nat (jNPred c) + Z.of_nat (jNEnc c) * (2 * (Z.of_nat (jNPred c) * jTries c + 1))).
Proof.
  intros c sizes ctr B tr o Hc Hs HB Htr HT H Hmk. unfold ijepa_collate in H.
  destruct tr as [|[| | | |s] tr0]; try discriminate.
  destruct (negb (s =? ctr + 1)); try discriminate.
  destruct (block_sizes c sizes ctr) as [[ph pw] [eh ew]] eqn:Ebs.
  destruct (block_sizes_bounds _ _ _ _ _ _ _ Hc Hs Ebs) as (Bph & Bpw & Beh & Bew).
  inversion Htr as [|? ? _ Htr0]; subst.
  destruct (batch_loop (Z.to_nat B) c ph pw eh ew _ _ tr0) as [[[[ss mkp] mke] tr1]| |] eqn:Eb; try discriminate.
  destruct tr1; try discriminate. inversion H; subst o. simpl in Hmk.
  assert (Hph : 0 <= ph) by lia. assert (Hpw : 0 <= pw) by lia.
  assert (Heh : 0 <= eh) by lia. assert (Hew : 0 <= ew) by lia.
  pose proof (batch_loop_draws _ _ _ _ _ _ _ _ _ _ _ _ _ Hc Htr0 Hph Hpw Heh Hew HT Hmk Eb) as Hd.
  simpl length in *. rewrite Z2Nat.id in Hd by lia. lia.
Qed.
