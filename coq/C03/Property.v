(* C03 — each dataset-manipulation wrapper selects exactly the promised samples.
   Statements only; proofs are in Proofs.v.  Quantification: every class layout
   `classes` (label of sample 0, 1, ...; incl. empty, single-sample and absent classes),
   every number of classes C, every constructor argument and every draw sequence that
   satisfies the generator's contract (rng.shuffle / rng.permutation return a
   permutation).  `Some out` = the constructor returned and selected the samples `out`
   in this order, `None` = it raised.  A label -1 marks an unlabeled sample (utils/class_counts.py):
   labels_in_u classes C = every label is -1 or in [0, C); labels_in classes C = every label in [0, C).

   Percent bounds: the percent wrappers are stated over abstract percent operations O
   (0., 1., the range assertion, <=, and the percent -> index map p_cut) with the contract
   pct_contract O n (0. and 1. admissible and extremal; cut 0. = 0, cut 1. = n,
   0 <= cut p <= n).  Fractions with floor/ceil (rat_ops) meet the contract for every n; the
   executable model instantiates O with binary64 (ModelFloat.float_ops: product, then int()/np.ceil;
   ClasswiseSubsetWrapper: binary32, ModelFloat.float32_ops, because torch evaluates percent * 0-dim
   integer tensor in its default dtype) and the harness checks the contract clauses for these instances
   on every generated case.  For exact fractions the cut is also monotone (rat_cut_monotone), which
   removes the hypothesis `cut p <= cut q` from the partition theorems. *)
From Coq Require Import String.     (* first, so that List's length / concat stay the visible ones *)
From Coq Require Import ZArith List Bool Permutation Sorted Lia.
Import ListNotations.
From KD Require Import C03.Model C03.Spec C03.Proofs C03.Proofs2.
Open Scope Z_scope.

(* ---------------- ClassFilterWrapper ---------------- *)
Theorem class_filter_spec : forall valid cs classes,
    class_filter valid cs classes
    = spec_class_filter classes (fun c => Bool.eqb (existsb (Z.eqb c) cs) valid).
Proof. exact class_filter_spec_l. Qed.
Print Assumptions class_filter_spec.

Theorem class_filter_valid_keeps_exactly_allowed : forall cs classes i,
    In i (class_filter true cs classes) <-> 0 <= i < zlen classes /\ In (cls classes i) cs.
Proof. exact class_filter_valid_l. Qed.
Print Assumptions class_filter_valid_keeps_exactly_allowed.

Theorem class_filter_invalid_drops_exactly_forbidden : forall cs classes i,
    In i (class_filter false cs classes) <-> 0 <= i < zlen classes /\ ~ In (cls classes i) cs.
Proof. exact class_filter_invalid_l. Qed.
Print Assumptions class_filter_invalid_drops_exactly_forbidden.

Theorem class_filter_keeps_original_order : forall valid cs classes,
    StronglySorted Z.lt (class_filter valid cs classes).
Proof. exact class_filter_sorted_l. Qed.
Print Assumptions class_filter_keeps_original_order.

(* valid_classes = cs and invalid_classes = cs partition the dataset *)
Theorem class_filter_valid_invalid_partition : forall cs classes,
    Permutation (class_filter true cs classes ++ class_filter false cs classes) (all_ids classes).
Proof. exact class_filter_complementary_l. Qed.
Print Assumptions class_filter_valid_invalid_partition.

(* ---------------- ClassFilterWrapper by name (valid_class_names / invalid_class_names) ---------------- *)
(* class_name cn c = Some nm: c is a class of the dataset and nm its name (dataset.class_names[c]); several classes may
   carry the same name, a requested name need not be carried by any class, names are compared exactly *)
Theorem names_map_to_every_class_carrying_them : forall cn names c,
    In c (names_to_classes cn names) <-> exists nm, class_name cn c = Some nm /\ In nm names.
Proof. exact names_to_classes_iff. Qed.
Print Assumptions names_map_to_every_class_carrying_them.

(* a sample is selected iff the NAME of its class is requested (valid) / is not requested (invalid) *)
Theorem class_filter_by_name_spec : forall valid cn names classes,
    class_filter_by_name valid cn names classes = spec_class_filter_names classes valid cn names.
Proof. exact class_filter_by_name_spec_l. Qed.
Print Assumptions class_filter_by_name_spec.

(* name based filtering = number based filtering with ANY list cs that holds exactly the numbers of all classes
   carrying a requested name *)
Theorem class_filter_names_eq_numbers : forall valid cn names classes cs,
    (forall c, In c cs <-> exists nm, class_name cn c = Some nm /\ In nm names) ->
    class_filter_by_name valid cn names classes = class_filter valid cs classes.
Proof. exact class_filter_names_eq_numbers_l. Qed.
Print Assumptions class_filter_names_eq_numbers.

Theorem class_filter_by_name_valid_keeps_exactly_named : forall cn names classes i,
    In i (class_filter_by_name true cn names classes) <->
    0 <= i < zlen classes /\ exists nm, class_name cn (cls classes i) = Some nm /\ In nm names.
Proof. exact class_filter_by_name_valid_l. Qed.
Print Assumptions class_filter_by_name_valid_keeps_exactly_named.

Theorem class_filter_by_name_invalid_drops_exactly_named : forall cn names classes i,
    In i (class_filter_by_name false cn names classes) <->
    0 <= i < zlen classes /\ ~ exists nm, class_name cn (cls classes i) = Some nm /\ In nm names.
Proof. exact class_filter_by_name_invalid_l. Qed.
Print Assumptions class_filter_by_name_invalid_drops_exactly_named.

(* only WHICH of the dataset's names are requested matters: unknown names, repeated names, their order do not *)
Theorem class_filter_by_name_depends_on_requested_set : forall valid cn names1 names2 classes,
    (forall nm, In nm cn -> (In nm names1 <-> In nm names2)) ->
    class_filter_by_name valid cn names1 classes = class_filter_by_name valid cn names2 classes.
Proof. exact class_filter_by_name_ext. Qed.
Print Assumptions class_filter_by_name_depends_on_requested_set.

(* non-vacuity / the ImageNet situation: "crane" names classes 1 and 4 *)
Example class_filter_duplicate_name_example :
    let cn := ["tench"; "crane"; "goldfish"; "maillot"; "crane"]%string in
    names_to_classes cn ["crane"; "zebra"; "crane"]%string = [1; 4] /\
    class_filter_by_name true cn ["crane"]%string [4; 1; 0; 3; -1; 1; 4; 2] = [0; 1; 5; 6] /\
    class_filter_by_name false cn ["crane"]%string [4; 1; 0; 3; -1; 1; 4; 2] = [2; 3; 4; 7] /\
    (forall c, In c [4; 1; 1] <-> exists nm, class_name cn c = Some nm /\ In nm ["crane"]%string).
Proof.
  repeat split; try reflexivity.
  - intros H. apply (names_to_classes_iff _ ["crane"]%string c). simpl in H. simpl. intuition.
  - intros H. apply (names_to_classes_iff _ ["crane"]%string c) in H. simpl in H. simpl. intuition.
Qed.

(* ---------------- ranges: PercentFilterWrapper, SubsetWrapper ---------------- *)
Theorem ranges_contiguous :     (forall P (O : pct_ops P) n f t cf ct out, percent_filter_g O n f t cf ct = Some out ->
        out = zrange (p_cut O cf (odflt f (p_zero O)) n) (p_cut O ct (odflt t (p_one O)) n)) /\
    (forall n s e out, subset_range n s e = Some out ->
        out = zrange (odflt s 0) (Z.min (odflt e n) n) /\ odflt s 0 <= Z.min (odflt e n) n) /\
    (forall P (O : pct_ops P) n s e out, subset_percent_g O n s e = Some out ->
        out = zrange (p_cut O false (odflt s (p_zero O)) n) (p_cut O false (odflt e (p_one O)) n)) /\
    (* a block a .. b-1 *)
    (forall a b, zlen (zrange a b) = Z.max 0 (b - a) /\
                 forall k, (k < length (zrange a b))%nat -> nth k (zrange a b) 0 = a + Z.of_nat k).
Proof. exact ranges_contiguous_l. Qed.
Print Assumptions ranges_contiguous.

(* [0,a) ++ [a,b) ++ [b,n) = everything, for EVERY bound incl. 0 and n / 0.0 and 1.0 *)
Theorem complementary_ranges_partition_index : forall n a b,
    0 <= a <= b -> a <= n ->
    exists A B D,
      subset_range n None (Some a) = Some A /\
      subset_range n (Some a) (Some b) = Some B /\
      subset_range n (Some (Z.min b n)) None = Some D /\
      A ++ B ++ D = zrange 0 n.
Proof. exact subset_range_partition. Qed.
Print Assumptions complementary_ranges_partition_index.

Theorem complementary_ranges_partition_index2 : forall n c,
    0 <= c <= n ->
    exists A D, subset_range n None (Some c) = Some A /\ subset_range n (Some c) None = Some D /\
                A ++ D = zrange 0 n.
Proof. exact subset_range_partition2. Qed.
Print Assumptions complementary_ranges_partition_index2.

Theorem complementary_ranges_partition_percent_filter : forall P (O : pct_ops P) n p q c1 c2,
    pct_contract O n -> p_ok O p = true -> p_ok O q = true -> p_cut O c1 p n <= p_cut O c2 q n ->
    exists A B D,
      percent_filter_g O n None (Some p) false c1 = Some A /\
      percent_filter_g O n (Some p) (Some q) c1 c2 = Some B /\
      percent_filter_g O n (Some q) None c2 false = Some D /\
      A ++ B ++ D = zrange 0 n.
Proof. exact (@percent_filter_partition). Qed.
Print Assumptions complementary_ranges_partition_percent_filter.

Theorem complementary_ranges_partition_percent_filter2 : forall P (O : pct_ops P) n p c,
    pct_contract O n -> p_ok O p = true ->
    exists A D,
      percent_filter_g O n None (Some p) false c = Some A /\
      percent_filter_g O n (Some p) None c false = Some D /\
      A ++ D = zrange 0 n.
Proof. exact (@percent_filter_partition2). Qed.
Print Assumptions complementary_ranges_partition_percent_filter2.

Theorem complementary_ranges_partition_subset_percent : forall P (O : pct_ops P) n p q,
    pct_contract O n -> p_ok O p = true -> p_ok O q = true -> p_leb O p q = true ->
    p_cut O false p n <= p_cut O false q n ->
    exists A B D,
      subset_percent_g O n None (Some p) = Some A /\
      subset_percent_g O n (Some p) (Some q) = Some B /\
      subset_percent_g O n (Some q) None = Some D /\
      A ++ B ++ D = zrange 0 n.
Proof. exact (@subset_percent_partition). Qed.
Print Assumptions complementary_ranges_partition_subset_percent.

(* non-vacuity: exact fractions with floor/ceil meet the contract for every n >= 0; the
   partition at the bounds 0 and n; (that binary64 meets the computable clauses is evaluated
   by the harness on every case, see Check.float_contract_ok) *)
Theorem pct_contract_satisfiable : forall n, 0 <= n -> pct_contract rat_ops n.
Proof. exact rat_ops_contract. Qed.
Print Assumptions pct_contract_satisfiable.

(* exact fractions: the cut is monotone in the percent (p <= q -> cut p <= cut q, for floor and for
   ceil) and floor <= ceil, for every n >= 0 *)
Theorem rat_cut_monotone : forall n, 0 <= n -> pct_mono rat_ops n.
Proof. exact rat_ops_mono. Qed.
Print Assumptions rat_cut_monotone.

(* so for a monotone cut `assert start_percent <= end_percent` is all a partition needs *)
Theorem complementary_ranges_partition_subset_percent_monotone : forall P (O : pct_ops P) n p q,
    pct_contract O n -> pct_mono O n -> p_ok O p = true -> p_ok O q = true -> p_leb O p q = true ->
    exists A B D,
      subset_percent_g O n None (Some p) = Some A /\
      subset_percent_g O n (Some p) (Some q) = Some B /\
      subset_percent_g O n (Some q) None = Some D /\
      A ++ B ++ D = zrange 0 n.
Proof. exact (@subset_percent_partition_mono). Qed.
Print Assumptions complementary_ranges_partition_subset_percent_monotone.

(* PercentFilterWrapper: also with mixed rounding, as long as a ceil'ed lower cut is not paired with a
   floored upper cut *)
Theorem complementary_ranges_partition_percent_filter_monotone : forall P (O : pct_ops P) n p q c1 c2,
    pct_contract O n -> pct_mono O n -> p_ok O p = true -> p_ok O q = true -> p_leb O p q = true ->
    implb c1 c2 = true ->
    exists A B D,
      percent_filter_g O n None (Some p) false c1 = Some A /\
      percent_filter_g O n (Some p) (Some q) c1 c2 = Some B /\
      percent_filter_g O n (Some q) None c2 false = Some D /\
      A ++ B ++ D = zrange 0 n.
Proof. exact (@percent_filter_partition_mono). Qed.
Print Assumptions complementary_ranges_partition_percent_filter_monotone.

(* unconditional for exact fractions *)
Theorem complementary_ranges_partition_exact_fractions : forall n p q,
    0 <= n -> p_ok rat_ops p = true -> p_ok rat_ops q = true -> p_leb rat_ops p q = true ->
    exists A B D,
      subset_percent_g rat_ops n None (Some p) = Some A /\
      subset_percent_g rat_ops n (Some p) (Some q) = Some B /\
      subset_percent_g rat_ops n (Some q) None = Some D /\
      A ++ B ++ D = zrange 0 n.
Proof. exact subset_percent_partition_rat. Qed.
Print Assumptions complementary_ranges_partition_exact_fractions.

Example partition_at_zero : exists A D,
    subset_range 5 None (Some 0) = Some A /\ subset_range 5 (Some 0) None = Some D /\ A = [] /\ D = [0; 1; 2; 3; 4].
Proof. do 2 eexists. repeat split. Qed.
Example partition_percent_at_zero_and_one : exists A B D,
    percent_filter_g rat_ops 5 None (Some (0, 1)) false false = Some A /\
    percent_filter_g rat_ops 5 (Some (0, 1)) (Some (1, 1)) false false = Some B /\
    percent_filter_g rat_ops 5 (Some (1, 1)) None false false = Some D /\
    A = [] /\ B = [0; 1; 2; 3; 4] /\ D = [].
Proof. do 3 eexists. repeat split. Qed.

(* ---------------- ShuffleWrapper ---------------- *)
Theorem shuffle_perm : forall classes draw,
    Permutation draw (zrange 0 (zlen classes)) ->
    Permutation (shuffle (zlen classes) draw) (all_ids classes).
Proof. exact shuffle_perm_l. Qed.
Print Assumptions shuffle_perm.

(* ---------------- SortByClassWrapper ---------------- *)
(* `before classes i j`: i has the smaller class, or the same class and the smaller id *)
(* unlabeled samples (-1) included: they come first, in original order *)
Theorem sort_by_class_perm_sorted_stable : forall classes C,
    labels_in_u classes C ->
    Permutation (sort_by_class classes C) (all_ids classes) /\
    StronglySorted (before classes) (sort_by_class classes C).
Proof. exact sort_by_class_u_l. Qed.
Print Assumptions sort_by_class_perm_sorted_stable.

(* a fully labelled dataset: class block after class block *)
Theorem sort_by_class_labelled_is_class_blocks : forall classes C,
    labels_in classes C -> sort_by_class classes C = concat (map (fun c => positions c classes) (zrange 0 C)).
Proof. exact sort_by_class_labelled. Qed.
Print Assumptions sort_by_class_labelled_is_class_blocks.

(* ... and that determines the selection: it is THE stable sort by class *)
Theorem sort_by_class_is_the_stable_sort : forall classes C out,
    labels_in_u classes C -> Permutation out (all_ids classes) -> StronglySorted (before classes) out ->
    out = sort_by_class classes C.
Proof. exact stable_sort_unique. Qed.
Print Assumptions sort_by_class_is_the_stable_sort.

Example sort_example : labels_in [2; 0; 1; 0; 2] 3 /\ sort_by_class [2; 0; 1; 0; 2] 3 = [1; 3; 2; 0; 4].
Proof. split. now apply labels_in_b. reflexivity. Qed.
Example sort_unlabeled_example :
    labels_in_u [1; -1; 0; 1; -1; 0] 2 /\ sort_by_class [1; -1; 0; 1; -1; 0] 2 = [1; 4; 2; 5; 0; 3].
Proof. split. now apply labels_in_u_b. reflexivity. Qed.

(* ---------------- IntraClassShuffleWrapper ---------------- *)
(* unlabeled samples (-1) included: they are shuffled among themselves *)
Theorem intra_class_keeps_class_sequence : forall classes C draws,
    labels_in_u classes C -> intra_draws_ok classes C draws ->
    exists out, intra_class_shuffle classes C draws = Some out /\
                Permutation out (all_ids classes) /\ map (cls classes) out = classes.
Proof. exact intra_class_l. Qed.
Print Assumptions intra_class_keeps_class_sequence.

Example intra_example :
    labels_in_u [1; 0; -1; 1; 0; -1] 2 /\ intra_draws_ok [1; 0; -1; 1; 0; -1] 2 [[4; 1]; [0; 3]; [5; 2]] /\
    intra_class_shuffle [1; 0; -1; 1; 0; -1] 2 [[4; 1]; [0; 3]; [5; 2]] = Some [0; 4; 5; 3; 1; 2].
Proof.
  split. now apply labels_in_u_b. split; [|reflexivity].
  constructor. apply perm_swap. constructor. apply Permutation_refl. constructor. apply perm_swap. constructor.
Qed.

(* ---------------- RepeatWrapper ---------------- *)
Theorem repeat_spec : forall classes r,
    0 < zlen classes -> 0 < r ->
    repeat_wrapper (zlen classes) (Some r) None = Some (copies classes r).
Proof. exact repeat_reps_l. Qed.
Print Assumptions repeat_spec.

Theorem repeat_min_size_spec : forall classes m,
    0 < zlen classes -> 0 < m ->
    let n := zlen classes in
    let k := (m + n - 1) / n in
    repeat_wrapper n None (Some m) = Some (copies classes k) /\
    zlen (copies classes k) = k * n /\ (k - 1) * n < m <= k * n.
Proof. exact repeat_min_size_l. Qed.
Print Assumptions repeat_min_size_spec.

(* whole copies in round-robin order: position j holds sample j mod n *)
Theorem repeat_round_robin : forall classes k j,
    0 <= j < Z.of_nat k * zlen classes ->
    nth (Z.to_nat j) (concat (repeat (all_ids classes) k)) (-1) = j mod zlen classes.
Proof. exact copies_nth_l. Qed.
Print Assumptions repeat_round_robin.

(* ---------------- OversamplingWrapper ---------------- *)
(* every sample is kept, labelled or not *)
Theorem oversampling_keeps_all : forall ex classes C out i,
    oversample ex classes C = Some out -> labels_in_u classes (n_classes_eff C) ->
    0 <= i < zlen classes -> 1 <= occ i out.
Proof. exact oversample_keeps_all_l. Qed.
Print Assumptions oversampling_keeps_all.

(* an unlabeled sample belongs to no class: selected exactly once in both modes *)
Theorem oversampling_keeps_unlabeled_once : forall ex classes C out i,
    oversample ex classes C = Some out -> 0 <= i < zlen classes -> cls classes i = -1 -> occ i out = 1.
Proof. exact oversample_unlabeled_once. Qed.
Print Assumptions oversampling_keeps_unlabeled_once.

(* the constructor raises exactly when get_class_counts rejects a label (neither -1 nor a class) *)
Theorem oversampling_raises_iff_invalid_label : forall ex classes C,
    0 <= C -> (oversample ex classes C = None <-> ~ labels_in_u classes (n_classes_eff C)).
Proof. exact oversample_none_iff. Qed.
Print Assumptions oversampling_raises_iff_invalid_label.

Theorem oversampling_multiply_starts_with_dataset : forall classes C out,
    oversample false classes C = Some out -> exists extra, out = all_ids classes ++ extra.
Proof. exact oversample_multiply_prefix. Qed.
Print Assumptions oversampling_multiply_starts_with_dataset.

(* mode="multiply": every sample of a present class c is taken floor(max/count_c) times, hence
   max/2 < count'_c <= max; absent classes stay absent *)
Theorem oversampling_balance : forall classes C out,
    oversample false classes C = Some out ->
    let mx := mxc classes (n_classes_eff C) in
    (forall i, 0 <= i < zlen classes -> 0 <= cls classes i < n_classes_eff C ->
               occ i out = mx / count_of (cls classes i) classes) /\
    (forall c, 0 <= c < n_classes_eff C -> 0 < count_of c classes ->
               class_occ classes c out = count_of c classes * (mx / count_of c classes) /\
               mx < 2 * class_occ classes c out /\ class_occ classes c out <= mx) /\
    (forall c, count_of c classes = 0 -> class_occ classes c out = 0).
Proof. exact oversampling_balance_l. Qed.
Print Assumptions oversampling_balance.

(* mode="exact": every present class reaches exactly the majority count, every sample of it is
   taken floor(max/count_c) or one more time; absent classes contribute nothing *)
Theorem exact_reaches_max : forall classes C out,
    oversample true classes C = Some out ->
    let mx := mxc classes (n_classes_eff C) in
    (forall c, 0 <= c < n_classes_eff C ->
               class_occ classes c out = if count_of c classes =? 0 then 0 else mx) /\
    (forall i, 0 <= i < zlen classes -> 0 <= cls classes i < n_classes_eff C ->
               let q := mx / count_of (cls classes i) classes in 1 <= q /\ q <= occ i out <= q + 1).
Proof. exact exact_reaches_max_l. Qed.
Print Assumptions exact_reaches_max.

(* the per-class loop (fuel max+1) always finishes — also when classes are absent, when samples are
   unlabeled, when no sample is labelled at all; the constructor raises only if a label is invalid *)
Theorem exact_terminates : forall classes C counts,
    class_counts classes C = Some counts -> exists out, oversample true classes C = Some out.
Proof. exact exact_terminates_l. Qed.
Print Assumptions exact_terminates.

Theorem exact_succeeds_on_valid_labels : forall classes C,
    labels_in_u classes (n_classes_eff C) -> exists out, oversample true classes C = Some out.
Proof. exact exact_succeeds_l. Qed.
Print Assumptions exact_succeeds_on_valid_labels.

(* why the repair was needed: the loop of a class without samples makes no progress for any fuel *)
Theorem exact_loop_of_absent_class_diverges : forall fuel remaining,
    0 < remaining -> exact_loop fuel [] remaining = None.
Proof. exact exact_loop_empty_diverges. Qed.
Print Assumptions exact_loop_of_absent_class_diverges.

Example oversample_absent_class_example :
    labels_in [0; 0; 2; 2; 2] 3 /\
    oversample true [0; 0; 2; 2; 2] 3 = Some [0; 1; 0; 2; 3; 4] /\
    oversample false [0; 2; 2; 2; 2] 3 = Some [0; 1; 2; 3; 4; 0; 0; 0].
Proof. split. now apply labels_in_b. split; reflexivity. Qed.
Example oversample_unlabeled_example :
    labels_in_u [1; -1; 0; 1; -1; 1] 2 /\
    oversample true [1; -1; 0; 1; -1; 1] 2 = Some [2; 2; 2; 0; 3; 5; 1; 4] /\
    oversample false [1; -1; 0; 1; -1; 1] 2 = Some [0; 1; 2; 3; 4; 5; 2; 2] /\
    ~ labels_in_u [0; 2] 2 /\ oversample true [0; 2] 2 = None.
Proof.
  split. now apply labels_in_u_b. split. reflexivity. split. reflexivity. split; [|reflexivity].
  intros H. inversion H as [|? ? ? H2]. inversion H2. lia.
Qed.

(* ---------------- FewshotWrapper ---------------- *)
(* min(shots, count_c) distinct samples of every class 0..max(label), grouped by class *)
Theorem fewshot_counts : forall classes shots draws,
    classes <> [] -> 0 <= shots -> fewshot_draws_ok classes draws ->
    exists out, fewshot classes shots draws = Some out /\
      NoDup out /\ (forall x, In x out -> 0 <= x < zlen classes) /\
      StronglySorted (fun i j => cls classes i <= cls classes j) out /\
      (forall c, 0 <= c < fewshot_nc classes -> class_occ classes c out = Z.min shots (count_of c classes)) /\
      (forall c, ~ (0 <= c < fewshot_nc classes) -> class_occ classes c out = 0).
Proof. exact fewshot_l. Qed.
Print Assumptions fewshot_counts.

Theorem fewshot_covers_every_label : forall classes c, In c classes -> c < fewshot_nc classes.
Proof. exact fewshot_nc_covers. Qed.
Print Assumptions fewshot_covers_every_label.

Example fewshot_example :
    fewshot_draws_ok [1; 0; 1; 1] [[0]; [2; 0; 1]] /\ fewshot [1; 0; 1; 1] 2 [[0]; [2; 0; 1]] = Some [1; 3; 0].
Proof.
  split; [|reflexivity]. constructor. apply Permutation_refl. constructor; [|constructor].
  change (Permutation [2; 0; 1] [0; 1; 2]). apply (Permutation_cons_app [0; 1] [] 2). apply Permutation_refl.
Qed.

(* ---------------- ClasswiseSubsetWrapper ---------------- *)
(* class after class, the samples with rank [s, e) inside their class; with
   check_enough_samples the constructor raises iff some class has fewer than e samples *)
Theorem classwise_counts : forall classes C s e check,
    labels_in_u classes (n_classes_eff C) -> is_some s || is_some e = true ->
    let n := zlen classes in
    let e' := Z.min (odflt e n) n in
    let s' := odflt s 0 in
    0 <= s' <= e' ->
    classwise_range classes C s e check =
      (if check && existsb (fun c => count_of c classes <? e') (zrange 0 C) then None
       else Some (classwise_val classes C (fun _ => s') (fun _ => e'))) /\
    (forall c, 0 <= c < C ->
       class_occ classes c (classwise_val classes C (fun _ => s') (fun _ => e'))
       = Z.max 0 (Z.min (e' - s') (count_of c classes - s'))) /\
    (forall x, In x (classwise_val classes C (fun _ => s') (fun _ => e')) ->
       0 <= x < zlen classes /\ 0 <= cls classes x < C).
Proof. exact classwise_counts_l. Qed.
Print Assumptions classwise_counts.

Theorem classwise_percent_counts : forall P (O : pct_ops P) classes C s e,
    labels_in_u classes (n_classes_eff C) -> is_some s || is_some e = true ->
    p_ok O (odflt s (p_zero O)) = true -> p_ok O (odflt e (p_one O)) = true ->
    p_leb O (odflt s (p_zero O)) (odflt e (p_one O)) = true ->
    classwise_percent_g O classes C s e =
    Some (classwise_val classes C (p_cut O false (odflt s (p_zero O))) (p_cut O false (odflt e (p_one O)))).
Proof. exact (@classwise_percent_eq). Qed.
Print Assumptions classwise_percent_counts.

(* the selection in Spec.v's vocabulary: class after class, the samples whose rank inside their
   class (number of earlier samples of the same class) lies in [lo, hi) *)
Theorem classwise_is_rank_selection : forall classes C lo hi,
    (forall m, 0 <= m -> 0 <= lo m) -> classwise_val classes C lo hi = spec_classwise classes lo hi C.
Proof. exact classwise_val_spec. Qed.
Print Assumptions classwise_is_rank_selection.

(* complementary class-wise selections partition the dataset, for every bound incl. 0 *)
Theorem classwise_complementary_partition_index : forall classes C k,
    labels_in classes C -> labels_in classes (n_classes_eff C) -> 0 <= k <= zlen classes ->
    exists A B, classwise_range classes C None (Some k) false = Some A /\
                classwise_range classes C (Some k) None false = Some B /\
                Permutation (A ++ B) (all_ids classes).
Proof. exact classwise_range_partition. Qed.
Print Assumptions classwise_complementary_partition_index.

Theorem classwise_complementary_partition_percent : forall P (O : pct_ops P) classes C p,
    labels_in classes C -> labels_in classes (n_classes_eff C) ->
    (forall m, 0 <= m -> pct_contract O m) -> p_ok O p = true ->
    exists A B, classwise_percent_g O classes C None (Some p) = Some A /\
                classwise_percent_g O classes C (Some p) None = Some B /\
                Permutation (A ++ B) (all_ids classes).
Proof. exact (@classwise_percent_partition). Qed.
Print Assumptions classwise_complementary_partition_percent.

Example classwise_example :
    labels_in [0; 1; 0; 1; 1] 2 /\
    classwise_range [0; 1; 0; 1; 1] 2 None (Some 0) false = Some [] /\
    classwise_range [0; 1; 0; 1; 1] 2 (Some 0) (Some 2) true = Some [0; 2; 1; 3] /\
    classwise_range [0; 1; 0; 1; 1] 2 (Some 0) (Some 3) true = None.
Proof. split. now apply labels_in_b. repeat split; reflexivity. Qed.

(* ---------------- executable spec predicates used by the correspondence check ---------------- *)
Theorem spec_is_permutation_sound : forall classes out,
    is_permutation classes out = true <-> Permutation out (all_ids classes).
Proof. exact is_permutation_iff. Qed.
Print Assumptions spec_is_permutation_sound.

Theorem spec_sorted_stable_sound : forall classes out,
    sorted_stable classes out = true <-> StronglySorted (before classes) out.
Proof. exact sorted_stable_iff. Qed.
Print Assumptions spec_sorted_stable_sound.

Theorem spec_list_eqb_sound : forall a b, list_eqb a b = true <-> a = b.
Proof. exact list_eqb_eq. Qed.
Print Assumptions spec_list_eqb_sound.

(* the model's selections satisfy exactly the predicates the correspondence check evaluates on
   the real selections (Check.spec_holds) *)
Theorem sort_by_class_meets_spec : forall classes C,
    labels_in_u classes C ->
    is_permutation classes (sort_by_class classes C) && sorted_stable classes (sort_by_class classes C) = true.
Proof. exact sort_spec_bool. Qed.
Print Assumptions sort_by_class_meets_spec.

Theorem intra_class_meets_spec : forall classes C draws out,
    labels_in_u classes C -> intra_draws_ok classes C draws -> intra_class_shuffle classes C draws = Some out ->
    is_permutation classes out && list_eqb (map (cls classes) out) classes = true.
Proof. exact intra_spec_bool. Qed.
Print Assumptions intra_class_meets_spec.

Theorem oversampling_meets_spec_keeps_all : forall ex classes C out,
    oversample ex classes C = Some out -> labels_in_u classes (n_classes_eff C) -> keeps_all classes out = true.
Proof. exact keeps_all_bool. Qed.
Print Assumptions oversampling_meets_spec_keeps_all.

Theorem oversampling_meets_spec_unlabeled_once : forall ex classes C out,
    oversample ex classes C = Some out -> unlabeled_once classes out = true.
Proof. exact unlabeled_once_bool. Qed.
Print Assumptions oversampling_meets_spec_unlabeled_once.

Theorem fewshot_meets_spec : forall classes shots draws out,
    classes <> [] -> 0 <= shots -> fewshot_draws_ok classes draws -> fewshot classes shots draws = Some out ->
    fewshot_ok classes shots out = true.
Proof. exact fewshot_spec_bool. Qed.
Print Assumptions fewshot_meets_spec.

Theorem oversampling_meets_spec_multiply : forall classes C out,
    oversample false classes C = Some out -> balanced_multiply classes (n_classes_eff C) out = true.
Proof. exact balanced_multiply_bool. Qed.
Print Assumptions oversampling_meets_spec_multiply.

Theorem oversampling_meets_spec_exact : forall classes C out,
    oversample true classes C = Some out -> balanced_exact classes (n_classes_eff C) out = true.
Proof. exact balanced_exact_bool. Qed.
Print Assumptions oversampling_meets_spec_exact.

(* ---------------- function of arguments and draws ---------------- *)
(* In the model this is true by construction (run is a Gallina function of the labels, C, the
   constructor arguments and the recorded draws — no hidden state); that the REAL constructors
   read nothing else (no global generator, no dependence on the label provider) is what the
   harness checks on every case (second construction under another global RNG state, RNG-state
   tripwire). *)
Theorem selection_is_function_of_args_and_draws : forall P (O : pct_ops P) classes C w o1 o2,
    run_g O classes C w = o1 -> run_g O classes C w = o2 -> o1 = o2.
Proof. exact (@run_function). Qed.
Print Assumptions selection_is_function_of_args_and_draws.

(* ---------------- several wrappers on one dataset; wrappers on wrappers (KDSubset) ---------------- *)
(* The model hands the labels to every constructor by value: the k-th constructor call on a dataset returns what it
   returns as the only call - whatever was constructed before it.  True of the model by construction; that the REAL
   constructors (and every access through a wrapper) leave the dataset's labels, the wrapper they are put on and
   their arguments unchanged is the harness clause `construction_leaves_labels_unchanged` (label snapshots
   around every construction / access on datasets whose getall_class hands out their own list / ndarray / tensor). *)
Theorem later_constructor_sees_pristine_labels : forall P (O : pct_ops P) classes C ws k,
    nth_error (run_session_g O classes C ws) k = option_map (run_g O classes C) (nth_error ws k).
Proof. exact (@session_nth). Qed.
Print Assumptions later_constructor_sees_pristine_labels.

(* wrapper B on top of wrapper A: B's constructor runs on the labels A exposes, B's selection addresses A's positions *)
Theorem stacked_is_composition : forall P (O : pct_ops P) classes C wA wB out,
    stacked_g O classes C wA wB = Some out ->
    exists a b, run_g O classes C wA = Some a /\ run_g O (through classes a) C wB = Some b /\ out = through a b.
Proof. exact (@stacked_inv). Qed.
Print Assumptions stacked_is_composition.

(* the labels (sampler weights, any per-sample value) seen through both wrappers are what B exposes of what A exposes *)
Theorem stacked_values_are_outer_of_inner : forall values a b,
    (forall j, In j b -> 0 <= j < zlen a) -> through values (through a b) = through (through values a) b.
Proof. exact through_assoc. Qed.
Print Assumptions stacked_values_are_outer_of_inner.

(* a permutation on top of a permutation is a permutation; a stack never leaves what the inner wrapper selected *)
Theorem stacked_permutations_compose : forall classes a b,
    Permutation a (all_ids classes) -> Permutation b (zrange 0 (zlen a)) -> Permutation (through a b) (all_ids classes).
Proof. exact through_perm_ids. Qed.
Print Assumptions stacked_permutations_compose.

Theorem stacked_selects_from_inner_selection : forall a b x,
    (forall j, In j b -> 0 <= j < zlen a) -> In x (through a b) -> In x a.
Proof. exact through_In. Qed.
Print Assumptions stacked_selects_from_inner_selection.

Example stacked_example :
    stacked_g rat_ops [1; -1; 0; 1; 0] 2 WSortByClass (WClassFilter false [-1]) = Some [2; 4; 0; 3] /\
    through [1; -1; 0; 1; 0] [2; 4; 0; 3] = [0; 0; 1; 1].
Proof. split; reflexivity. Qed.
