(* consequences of model = spec used by the property files C04/C05/C06 *)
From Coq Require Import ZArith List Bool Lia.
Import ListNotations.
From KD Require Import C04.Model C04.Spec C04.Lists C04.Arith C04.Sides C04.Proofs.
Open Scope Z_scope.

Lemma take_until_found {A} (p : A -> bool) l x : In x l -> p x = true -> snd (take_until p l) = true.
Proof.
  induction l as [|y l IH]; intros Hin Hp; [inversion Hin|].
  cbn [take_until]. destruct (p y) eqn:E; [reflexivity|].
  destruct Hin as [->|Hin]; [congruence|].
  specialize (IH Hin Hp). destruct (take_until p l). exact IH.
Qed.

(* take_until stops at the FIRST hit: nothing before the last element hits, and
   the last element hits iff found *)
Lemma take_until_prefix {A} (p : A -> bool) l :
  let '(r, f) := take_until p l in
  exists rest, l = r ++ rest /\ Forall (fun x => p x = false) (removelast r) /\
               (f = true -> exists x, r = removelast r ++ [x] /\ p x = true) /\
               (f = false -> r = l /\ Forall (fun x => p x = false) l).
Proof.
  induction l as [|y l IH]; cbn [take_until].
  - exists []. repeat split; auto; try discriminate; try constructor.
  - destruct (p y) eqn:E.
    + exists l. split; [reflexivity|]. split; [constructor|]. split; [|discriminate].
      intros _. exists y. split; auto.
    + destruct (take_until p l) as [r f]. destruct IH as [rest [H1 [H2 [H3 H4]]]].
      exists rest. split; [now rewrite H1 at 1|]. split; [|split].
      * destruct r as [|z r]; [constructor|]. cbn [removelast] in *.
        change (match r with [] => [] | _ :: _ => z :: removelast r end) with (removelast (z :: r)) in *.
        constructor; auto.
      * intros Hf. destruct (H3 Hf) as [x [Hx Hpx]]. exists x. split; auto.
        destruct r as [|z r]; [destruct (removelast []); discriminate|].
        cbn [removelast]. change (match r with [] => [] | _ :: _ => z :: removelast r end) with (removelast (z :: r)).
        rewrite <- app_comm_cons. now rewrite <- Hx.
      * intros Hf. destruct (H4 Hf) as [Hr Hall]. split; [now rewrite Hr|]. constructor; auto.
Qed.

Section Cor.
  Variables (c : cfg) (mi : Z -> list Z).
  Hypothesis W : WF c mi.

  Definition start_state (e : Z) : st := init_state e (upe c * e) (spe c * e).

  (* ---------------- termination ---------------- *)
  Definition before_budget (e : Z) : Prop :=
    match bud c with
    | Epochs E => e < E
    | Updates U => upe c * e < U
    | Samples X => spe c * e < X
    end.

  Lemma epoch_hits_of e j :
    (j < length (epoch_batches c mi e))%nat ->
    hit c (upd_at c e (epoch_batches c mi e) j) = true -> epoch_hits c mi e = true.
  Proof.
    intros Hj Hh. unfold epoch_hits, epoch_updates.
    apply (take_until_found _ _ (upd_at c e (epoch_batches c mi e) j)); auto.
    apply in_map. apply in_seq. lia.
  Qed.

  Lemma counters_last e :
    let bs := epoch_batches c mi e in
    let k := counters_at c e bs (length bs - 1) in
    k_epoch k = e + 1 /\ k_update k = (e + 1) * upe c /\ k_sample k = (e + 1) * spe c.
  Proof.
    cbv zeta. set (bs := epoch_batches c mi e).
    pose proof (epoch_batches_len c mi W e) as Hlen. pose proof (epoch_batches_count c mi W e) as Hcnt.
    pose proof (upe_pos c mi W) as Hupe. fold bs in Hlen, Hcnt.
    assert (1 <= length bs)%nat as Hl by lia.
    unfold counters_at. cbn [k_epoch k_update k_sample].
    replace (S (length bs - 1)) with (length bs) by lia.
    rewrite Nat.eqb_refl, firstn_all. repeat split; lia.
  Qed.

  Lemma hits_last_epoch E e : bud c = Epochs E -> e + 1 = E -> epoch_hits c mi e = true.
  Proof.
    intros Hb He. pose proof (counters_last e) as [H1 [H2 H3]].
    pose proof (epoch_batches_count c mi W e). pose proof (upe_pos c mi W).
    apply (epoch_hits_of e (length (epoch_batches c mi e) - 1)); [lia|].
    unfold hit, upd_at. cbn [u_k]. unfold budget_reached. rewrite Hb, H1. apply Z.eqb_eq. lia.
  Qed.

  Lemma hits_update U e : bud c = Updates U -> e * upe c < U <= (e + 1) * upe c -> epoch_hits c mi e = true.
  Proof.
    intros Hb HU. pose proof (epoch_batches_count c mi W e) as Hcnt.
    apply (epoch_hits_of e (Z.to_nat (U - e * upe c - 1))); [lia|].
    unfold hit, upd_at. cbn [u_k]. unfold budget_reached, counters_at. rewrite Hb. cbn [k_update].
    apply Z.eqb_eq. lia.
  Qed.

  Lemma hits_sample X e : bud c = Samples X -> X <= (e + 1) * spe c -> epoch_hits c mi e = true.
  Proof.
    intros Hb HS. pose proof (counters_last e) as [H1 [H2 H3]].
    pose proof (epoch_batches_count c mi W e). pose proof (upe_pos c mi W).
    apply (epoch_hits_of e (length (epoch_batches c mi e) - 1)); [lia|].
    unfold hit, upd_at. cbn [u_k]. unfold budget_reached. rewrite Hb, H3. apply Z.leb_le. lia.
  Qed.

  Lemma spec_run_terminates : forall n e,
    before_budget e -> (default_fuel c (start_state e) <= n)%nat ->
    exists tr, spec_run c mi e n = Some tr.
  Proof.
    pose proof (upe_pos c mi W) as Hupe. pose proof (spe_range c mi W) as Hspe.
    unfold before_budget, default_fuel, start_state, init_state. cbn [epoch update sample].
    induction n as [|n IH]; intros e Hbef Hfuel.
    - destruct (bud c); lia.
    - cbn [spec_run]. destruct (epoch_hits c mi e) eqn:Hh; [eexists; reflexivity|].
      destruct (IH (e + 1)) as [tr Htr].
      + destruct (bud c) as [E|U|X] eqn:Hb.
        * destruct (Z.eq_dec (e + 1) E) as [He|He]; [|lia].
          rewrite (hits_last_epoch E e Hb He) in Hh. discriminate.
        * destruct (Z_le_gt_dec U ((e + 1) * upe c)) as [Hle|Hgt]; [|lia].
          rewrite (hits_update U e Hb) in Hh by lia. discriminate.
        * destruct (Z_le_gt_dec X ((e + 1) * spe c)) as [Hle|Hgt]; [|lia].
          rewrite (hits_sample X e Hb Hle) in Hh. discriminate.
      + destruct (bud c); nia.
      + rewrite Htr. eexists; reflexivity.
  Qed.

  Theorem sampler_terminates e : before_budget e ->
    exists tr, run c mi (default_fuel c (start_state e)) (start_state e) = Some tr.
  Proof.
    intros Hb. unfold start_state. rewrite (model_eq_spec c mi W).
    apply spec_run_terminates; auto.
  Qed.

  (* ---------------- the stop is exact ---------------- *)
  (* within an epoch: no update before the last shown one reaches the budget; if
     the epoch stops the run, its last shown update does *)
  Theorem stop_exact e :
    let us := fst (take_until (hit c) (epoch_updates c mi e)) in
    Forall (fun u => hit c u = false) (removelast us) /\
    (epoch_hits c mi e = true -> exists u, us = removelast us ++ [u] /\ hit c u = true) /\
    (epoch_hits c mi e = false -> us = epoch_updates c mi e /\ Forall (fun u => hit c u = false) us).
  Proof.
    cbv zeta. unfold epoch_hits.
    pose proof (take_until_prefix (hit c) (epoch_updates c mi e)) as H.
    destruct (take_until (hit c) (epoch_updates c mi e)) as [r f]. cbn [fst snd].
    destruct H as [rest [H1 [H2 [H3 H4]]]]. split; [exact H2|]. split; [exact H3|].
    intros Hf. destruct (H4 Hf) as [Hr Hall]. split; [exact Hr|]. now rewrite Hr.
  Qed.

  (* ---------------- resume ---------------- *)
  Fixpoint epochs_events (e0 : Z) (k : nat) : list event :=
    match k with O => [] | S k' => epoch_events c mi e0 ++ epochs_events (e0 + 1) k' end.

  Fixpoint no_hit_in (e0 : Z) (k : nat) : Prop :=
    match k with O => True | S k' => epoch_hits c mi e0 = false /\ no_hit_in (e0 + 1) k' end.

  Lemma spec_resume : forall k e0 n, no_hit_in e0 k ->
    spec_run c mi e0 (k + n) = option_map (app (epochs_events e0 k)) (spec_run c mi (e0 + Z.of_nat k) n).
  Proof.
    induction k as [|k IH]; intros e0 n Hno.
    - cbn. rewrite Z.add_0_r. destruct (spec_run c mi e0 n); reflexivity.
    - destruct Hno as [Hh Hno]. cbn [plus spec_run epochs_events]. rewrite Hh.
      rewrite (IH (e0 + 1) n Hno).
      replace (e0 + 1 + Z.of_nat k) with (e0 + Z.of_nat (S k)) by lia.
      destruct (spec_run c mi (e0 + Z.of_nat (S k)) n); cbn [option_map]; [|reflexivity].
      now rewrite app_assoc.
  Qed.

  Theorem resume_is_suffix k e0 n : no_hit_in e0 k ->
    run c mi (k + n) (start_state e0) =
    option_map (app (epochs_events e0 k)) (run c mi n (start_state (e0 + Z.of_nat k))).
  Proof.
    intros Hno. unfold start_state. rewrite !(model_eq_spec c mi W). now apply spec_resume.
  Qed.

  (* the constructor accepts exactly the epoch-boundary checkpoints and derives
     the state the uninterrupted run has there *)
  Theorem init_checkpoint_spec a : init_checkpoint c a = spec_start c a.
  Proof.
    pose proof (upe_pos c mi W) as Hupe. pose proof (wf_B c mi W) as HB.
    destruct a as [|e|u|s]; cbn [init_checkpoint spec_start].
    - reflexivity.
    - f_equal; lia.
    - destruct (drop_last c) eqn:Hd; cbn [negb andb orb].
      + rewrite orb_false_r. destruct (u mod upe c =? 0) eqn:Hm; cbn [negb]; [|reflexivity].
        f_equal. apply Z.eqb_eq in Hm. rewrite (spe_upe_drop c mi W Hd).
        rewrite (Z.div_mod u (upe c)) at 1 by lia. rewrite Hm. lia.
      + rewrite orb_true_r. reflexivity.
    - destruct (s mod cB c =? 0) eqn:Hs; cbn [negb]; [|reflexivity].
      destruct (drop_last c) eqn:Hd; cbn [negb andb orb].
      + rewrite orb_false_r. destruct (s / cB c mod upe c =? 0) eqn:Hm; cbn [negb]; [|reflexivity].
        f_equal. apply Z.eqb_eq in Hm, Hs. rewrite (spe_upe_drop c mi W Hd).
        rewrite (Z.div_mod s (cB c)) at 1 by lia. rewrite Hs.
        rewrite (Z.div_mod (s / cB c) (upe c)) at 1 by lia. rewrite Hm. lia.
      + rewrite orb_true_r. reflexivity.
  Qed.

  (* ---------------- zero budget, offsets ---------------- *)
  Theorem zero_budget_one_pass : zero_budget c = true ->
    sampler_iter c mi 0 0 0 = Some (spec_eval c 0 (sides c)).
  Proof.
    intros Hz. unfold sampler_iter. rewrite Hz. cbn. now rewrite (eval_loop_spec c mi W).
  Qed.

  Theorem iter_eq_spec e n : zero_budget c = false ->
    n = default_fuel c (start_state e) ->
    sampler_iter c mi e (upe c * e) (spe c * e) = spec_iter c mi e n.
  Proof.
    intros Hz Hn. unfold sampler_iter, spec_iter. rewrite Hz, Hn. apply (model_eq_spec c mi W).
  Qed.
End Cor.

(* every index of a pass resolves back to its own dataset and position *)
Lemma concat_lookup_aux_app : forall pre n post di idx,
  Forall (fun x => 0 <= x) pre -> 0 <= idx < n ->
  concat_lookup_aux (pre ++ n :: post) di (fold_right Z.add 0 pre + idx) = Some ((di + length pre)%nat, idx).
Proof.
  induction pre as [|p pre IH]; intros n post di idx Hpre Hidx.
  - cbn. destruct (idx <? n) eqn:E; [|apply Z.ltb_ge in E; lia]. f_equal. f_equal. lia.
  - inversion Hpre as [|? ? Hp Hpre']; subst. cbn [app concat_lookup_aux fold_right].
    assert (0 <= fold_right Z.add 0 pre).
    { clear -Hpre'. induction Hpre'; cbn; lia. }
    destruct (p + fold_right Z.add 0 pre + idx <? p) eqn:E; [apply Z.ltb_lt in E; lia|].
    replace (p + fold_right Z.add 0 pre + idx - p) with (fold_right Z.add 0 pre + idx) by lia.
    rewrite IH by auto. f_equal. f_equal. simpl length. lia.
Qed.

Theorem offset_roundtrip c mi ci sc j : WF c mi ->
  nth_error (sides c) ci = Some sc -> 0 <= j < dslen sc ->
  concat_lookup c (offset_of c ci + j) = Some (S ci, j).
Proof.
  intros W Hn Hj. unfold concat_lookup, offset_of.
  destruct (nth_error_split _ _ Hn) as [pre [post [Hs Hl]]].
  rewrite Hs, firstn_app, firstn_all2 by lia. subst ci. rewrite Nat.sub_diag. cbn [firstn].
  rewrite app_nil_r, map_app. cbn [map].
  change (dsN c :: map dslen pre ++ dslen sc :: map dslen post)
    with ((dsN c :: map dslen pre) ++ dslen sc :: map dslen post).
  replace (dsN c + fold_right Z.add 0 (map dslen pre) + j)
    with (fold_right Z.add 0 (dsN c :: map dslen pre) + j) by (cbn; lia).
  rewrite concat_lookup_aux_app; auto.
  - f_equal. f_equal. simpl length. rewrite map_length. lia.
  - constructor; [apply (wf_dsN c mi W)|].
    pose proof (wf_sides c mi W) as HF. rewrite Hs in HF. apply Forall_app in HF. destruct HF as [HF _].
    clear -HF. induction HF as [|x l Hx HF IH]; cbn; constructor; auto.
    destruct Hx as (_ & _ & _ & _ & _ & H). exact H.
Qed.

(* main indices resolve to dataset 0 *)
Theorem main_roundtrip c j : 0 <= j < dsN c -> concat_lookup c j = Some (0%nat, j).
Proof.
  intros Hj. unfold concat_lookup. cbn. destruct (j <? dsN c) eqn:E; [reflexivity|apply Z.ltb_ge in E; lia].
Qed.

(* a pass shows exactly the config's indices, shifted, in order *)
Definition ev_idx (e : event) : Z := match e with SetEpoch x => x | Main _ i => i | Side _ _ i => i end.
Lemma emit_idx {E} (mk : bool -> Z -> E) (f : E -> Z) b : (forall fl i, f (mk fl i) = i) -> map f (emit mk b) = b.
Proof.
  intros H. induction b as [|i b IH]; [reflexivity|].
  destruct b as [|j b]; [cbn; now rewrite H|]. rewrite emit_cons2, map_cons, H, IH. reflexivity.
Qed.
Theorem side_pass_whole c ci sc : 0 < or_default (sbs sc) (cB c) ->
  map ev_idx (side_events c ci sc) = map (Z.add (offset_of c ci)) (sidx sc).
Proof.
  intros Hb. unfold side_events.
  rewrite <- (concat_chunk (Z.to_nat (or_default (sbs sc) (cB c))) (map (Z.add (offset_of c ci)) (sidx sc))) at 2 by lia.
  induction (chunk _ _) as [|b bs IH]; [reflexivity|].
  cbn [flat_map concat]. rewrite map_app, IH. f_equal. apply emit_idx. reflexivity.
Qed.

(* reached-or-crossed, spelled out *)
Theorem due_iff sc k : (forall n, ens sc = Some n -> 0 < n) ->
  due sc k = true <->
  (exists n, ene sc = Some n /\ k_epoch_end k = true /\ k_epoch k mod n = 0) \/
  (exists n, enu sc = Some n /\ k_update k mod n = 0) \/
  (exists n m, ens sc = Some n /\ k_prev_sample k < m * n <= k_sample k).
Proof.
  intros Hs. unfold due. rewrite !orb_true_iff. split.
  - intros [[H|H]|H].
    + left. destruct (ene sc) as [n|]; [|discriminate]. apply andb_true_iff in H. destruct H as [H1 H2].
      exists n. repeat split; auto. now apply Z.eqb_eq.
    + right; left. destruct (enu sc) as [n|]; [|discriminate]. exists n. split; auto. now apply Z.eqb_eq.
    + right; right. destruct (ens sc) as [n|] eqn:E; [|discriminate].
      apply crossed_iff in H; [|now apply Hs]. destruct H as [m Hm]. exists n, m. auto.
  - intros [[n [E [H1 H2]]]|[[n [E H]]|[n [m [E H]]]]].
    + left; left. rewrite E, H1. apply Z.eqb_eq. exact H2.
    + left; right. rewrite E. now apply Z.eqb_eq.
    + right. rewrite E. apply crossed_iff; [now apply Hs|]. exists m. exact H.
Qed.

(* samples per epoch: everything without drop_last, else the largest multiple of
   the dropping unit (drop_last_batch_size if given, else batch_size) *)
Theorem spe_spec c mi : WF c mi ->
  if drop_last c
  then let unit := or_default (cD c) (cB c) in
       spe c mod unit = 0 /\ spe c <= cN c < spe c + unit
  else spe c = cN c.
Proof.
  intros W. pose proof (wf_B c mi W) as HB. pose proof (wf_BN c mi W) as HBN.
  unfold spe. destruct (drop_last c) eqn:Hd; [|reflexivity]. cbv zeta.
  assert (0 < or_default (cD c) (cB c)) as Hu.
  { unfold or_default. destruct (cD c) as [d|] eqn:E; [|lia].
    destruct (wf_D c mi W d E) as (_ & _ & Hr). lia. }
  set (u := or_default (cD c) (cB c)) in *. split.
  - apply Z.mod_mul. lia.
  - pose proof (Z.mul_div_le (cN c) u Hu). pose proof (Z.mul_succ_div_gt (cN c) u Hu). lia.
Qed.

Definition is_main (e : event) : bool := match e with Main _ _ => true | _ => false end.

Lemma filter_main_emit_main b : filter is_main (emit Main b) = emit Main b.
Proof.
  induction b as [|i b IH]; [reflexivity|]. destruct b as [|j b]; [reflexivity|].
  rewrite emit_cons2. cbn [filter is_main]. now rewrite IH.
Qed.
Lemma filter_main_emit_side ci b : filter is_main (emit (Side ci) b) = [].
Proof.
  induction b as [|i b IH]; [reflexivity|]. destruct b as [|j b]; [reflexivity|].
  rewrite emit_cons2. cbn [filter is_main]. exact IH.
Qed.
Lemma filter_main_side_events c ci sc : filter is_main (side_events c ci sc) = [].
Proof.
  unfold side_events. induction (chunk _ _) as [|b bs IH]; [reflexivity|].
  cbn [flat_map]. rewrite filter_app, filter_main_emit_side, IH. reflexivity.
Qed.
Lemma filter_main_passes c k : forall l ci, filter is_main (passes_from c ci l k) = [].
Proof.
  induction l as [|sc l IH]; intros ci; [reflexivity|]. cbn [passes_from].
  rewrite filter_app, IH, app_nil_r. destruct (due sc k); [apply filter_main_side_events|reflexivity].
Qed.

(* the main part of an update is exactly its batch: all indices not-full but the last *)
Theorem update_main_part c e bs j :
  filter is_main (u_events (upd_at c e bs j)) = emit Main (nth j bs []).
Proof.
  unfold upd_at. cbn [u_events]. rewrite filter_app, filter_main_emit_main, filter_main_passes.
  apply app_nil_r.
Qed.

(* and the side part of an update is exactly the passes of the due configs *)
Theorem update_side_part c e bs j :
  filter (fun x => negb (is_main x)) (u_events (upd_at c e bs j))
  = passes_from c 0 (sides c) (counters_at c e bs j).
Proof.
  unfold upd_at. cbn [u_events]. rewrite filter_app.
  assert (forall b, filter (fun x => negb (is_main x)) (emit Main b) = []) as ->.
  { induction b as [|i b IH]; [reflexivity|]. destruct b as [|i2 b]; [reflexivity|].
    rewrite emit_cons2. cbn [filter is_main negb]. exact IH. }
  cbn [app].
  assert (forall l ci, filter (fun x => negb (is_main x)) (passes_from c ci l (counters_at c e bs j))
                       = passes_from c ci l (counters_at c e bs j)) as H.
  { induction l as [|sc l IH]; intros ci; [reflexivity|]. cbn [passes_from].
    rewrite filter_app, IH. f_equal. destruct (due sc _); [|reflexivity].
    unfold side_events. induction (chunk _ _) as [|b bs' IHb]; [reflexivity|].
    cbn [flat_map]. rewrite filter_app, IHb. f_equal.
    induction b as [|i b IHe]; [reflexivity|]. destruct b as [|i2 b]; [reflexivity|].
    rewrite emit_cons2. cbn [filter is_main negb]. now rewrite IHe. }
  apply H.
Qed.
