(* C10 -- executable model of KDMixCollator.collate (kappadata/collators/kd_mix_collator.py,
   REPAIRED tree: fixes/C10_sample_flag_bbox.patch, fixes/C10_set_item_single.patch) and of the
   ModeWrapper.get_item/set_item plumbing it uses.  No proofs in this file.

   Samples are represented by their position in the batch (0..B-1).  The model follows the
   code statement by statement: same order of draws, same index used for every lookup.
   What is NOT modelled: pixel / label float arithmetic (the model emits *descriptors* that
   say which partner and which weight / box the arithmetic is applied with), the float
   expression  floor(0.5*sqrt(1-lambda)*h)  for the half box sizes (shipped by the harness
   as the argument [halves], obtained from the implementation's own get_random_bbox), and
   the float32 rounding of lambda.  Probabilities / lambdas are rationals (exact values of
   the binary64 draws). *)
From Coq Require Import ZArith QArith List Bool.
Import ListNotations.
Open Scope Z_scope.

(* ---------- configuration ---------- *)
Inductive shuffle_mode := Roll | Flip | Random.
Inductive ab_mode := PerBatch | PerSample.
Inductive token := TIndex | TX | TClass | TOther (k : nat).

Record cfg := {
  bsz : nat;                 (* batch_size = len(x) *)
  img_h : Z; img_w : Z;      (* h, w = x.shape[2:] *)
  mixup_p : Q; cutmix_p : Q;
  total_p : Q;               (* the float sum mixup_p + cutmix_p; the ctor raises unless it is 1.0 *)
  mixup_alpha : option Q; cutmix_alpha : option Q;
  apply_mode : ab_mode; lamb_mode : ab_mode; shuf : shuffle_mode;
  tokens : list token        (* dataset_mode.split(" ") *)
}.

(* ---------- draws ---------- *)
Inductive draw :=
| DUnit (u : Q)                      (* rng.random() *)
| DUnits (us : list Q)               (* rng.random(n) *)
| DBeta (a : Q) (x : Q)              (* rng.beta(a, a) *)
| DBetas (a : Q) (xs : list Q)       (* rng.beta(a, a, size=n) *)
| DInts (hi : Z) (xs : list Z)       (* rng.integers(hi, size=(n,)) *)
| DPerm (p : list nat).              (* rng.permutation(n) *)
Definition trace := list draw.

Definition M (A : Type) := trace -> option (A * trace).
Definition ret {A} (a : A) : M A := fun tr => Some (a, tr).
Definition fail {A} : M A := fun _ => None.
Definition bind {A B} (m : M A) (f : A -> M B) : M B :=
  fun tr => match m tr with Some (a, tr') => f a tr' | None => None end.
Notation "x <- m ;; k" := (bind m (fun x => k)) (at level 61, m at next level, right associativity).
Notation "' p <- m ;; k" := (bind m (fun p => k)) (at level 61, p pattern, m at next level, right associativity).

Definition Qeqb (a b : Q) : bool := Qeq_bool a b.
Definition Qltb (a b : Q) : bool := negb (Qle_bool b a).

Definition next_unit : M Q := fun tr =>
  match tr with DUnit u :: tr' => Some (u, tr') | _ => None end.
Definition next_units (n : nat) : M (list Q) := fun tr =>
  match tr with DUnits us :: tr' => if Nat.eqb (length us) n then Some (us, tr') else None | _ => None end.
Definition next_beta (a : Q) : M Q := fun tr =>
  match tr with DBeta a' x :: tr' => if Qeqb a a' then Some (x, tr') else None | _ => None end.
Definition next_betas (a : Q) (n : nat) : M (list Q) := fun tr =>
  match tr with DBetas a' xs :: tr' => if Qeqb a a' && Nat.eqb (length xs) n then Some (xs, tr') else None | _ => None end.
Definition next_ints (hi : Z) (n : nat) : M (list Z) := fun tr =>
  match tr with DInts hi' xs :: tr' => if (hi =? hi') && Nat.eqb (length xs) n then Some (xs, tr') else None | _ => None end.
Definition next_perm (n : nat) : M (list nat) := fun tr =>
  match tr with DPerm p :: tr' => if Nat.eqb (length p) n then Some (p, tr') else None | _ => None end.
Definition lift {A} (o : option A) : M A := match o with Some a => ret a | None => fail end.

(* ---------- descriptors ---------- *)
Definition box := (Z * Z * Z * Z)%type.          (* top, left, bot, right *)
Inductive img_desc :=
| Mix (p : nat) (w : Q)       (* x_i * w + x_p * (1 - w) *)
| Cut (p : nat) (b : box)     (* x_i[..., top:bot, left:right] = x_p[..., top:bot, left:right] *)
| Keep.                       (* x_i untouched (never produced: [apply] is drawn but never read) *)
Definition lab_desc := (nat * Q)%type.           (* y_i * w + y_p * (1 - w) *)

(* ---------- shuffle ---------- *)
(* item.roll(shifts=1, dims=0): out[0] = in[-1], out[k] = in[k-1] *)
Definition roll1 (l : list nat) : list nat :=
  match rev l with [] => [] | x :: r => x :: rev r end.
(* item[permutation] *)
Definition index_by (l : list nat) (p : list nat) : list nat := map (fun k => nth k l 0%nat) p.

Definition shuffle (m : shuffle_mode) (item : list nat) (permutation : option (list nat))
  : M (list nat * option (list nat)) :=
  if Nat.eqb (length item) 1 then ret (item, None) else
  match m with
  | Roll => ret (roll1 item, None)
  | Flip => if Nat.even (length item) then ret (rev item, None) else fail   (* assert len(item) % 2 == 0 *)
  | Random =>
      match permutation with
      | Some p => ret (index_by item p, Some p)
      | None => p <- next_perm (length item) ;; ret (index_by item p, Some p)
      end
  end.

(* ---------- get_random_bbox ---------- *)
Definition clamp_box (h w : Z) (ch cw : Z) (half : Z * Z) : box :=
  let '(hh, wh) := half in
  (Z.max (ch - hh) 0, Z.max (cw - wh) 0, Z.min (ch + hh) h, Z.min (cw + wh) w).

Definition box_area (b : box) : Z := let '(t, l, bo, r) := b in (bo - t) * (r - l).

(* lamb_adjusted = 1.0 - (bot - top) * (right - left) / (h * w) *)
Definition lamb_adjusted (h w : Z) (b : box) : Q := 1 - inject_Z (box_area b) / inject_Z (h * w).

Fixpoint zip3 (a b : list Z) (c : list (Z * Z)) : list (Z * Z * (Z * Z)) :=
  match a, b, c with
  | x :: a', y :: b', z :: c' => (x, y, z) :: zip3 a' b' c'
  | _, _, _ => []
  end.

Definition get_random_bbox (h w : Z) (n : nat) (halves : list (Z * Z)) : M (list box * list Q) :=
  chs <- next_ints h n ;;
  cws <- next_ints w n ;;
  if negb (Nat.eqb (length halves) n) then fail else
  let boxes := map (fun '(ch, cw, hf) => clamp_box h w ch cw hf) (zip3 chs cws halves) in
  ret (boxes, map (lamb_adjusted h w) boxes).

(* ---------- ModeWrapper.has_item / get_item_index / set_item ---------- *)
Definition tok_eqb (a b : token) : bool :=
  match a, b with
  | TIndex, TIndex | TX, TX | TClass, TClass => true
  | TOther i, TOther j => Nat.eqb i j
  | _, _ => false
  end.
Definition has_item (mode : list token) (t : token) : bool := existsb (tok_eqb t) mode.
Fixpoint index_of (t : token) (mode : list token) : option nat :=
  match mode with
  | [] => None
  | t' :: r => if tok_eqb t t' then Some 0%nat else option_map S (index_of t r)
  end.
Fixpoint set_at {A} (k : nat) (v : A) (l : list A) : list A :=     (* tuple(it if i != idx else value ...) *)
  match l, k with
  | [], _ => []
  | _ :: r, O => v :: r
  | x :: r, S k' => x :: set_at k' v r
  end.
(* a non-tuple batch (single-item mode) is represented as a one-element list *)
Definition set_item {A} (mode : list token) (t : token) (batch : list A) (v : A) : option (list A) :=
  match mode with
  | [_] => Some [v]                                    (* repaired: not a tuple -> return value *)
  | _ => match index_of t mode with Some k => Some (set_at k v batch) | None => None end
  end.
Definition get_item {A} (mode : list token) (t : token) (batch : list A) : option A :=
  match mode with
  | [_] => nth_error batch 0
  | _ => match index_of t mode with Some k => nth_error batch k | None => None end
  end.

(* ---------- collate ---------- *)
Record result := {
  imgs : list img_desc;                 (* what happened to x, per sample *)
  labs : option (list lab_desc);        (* what happened to y, per sample (None: no "class" item) *)
  ctx_apply : list bool;
  ctx_cutmix : list bool;               (* a single flag in lamb_mode batch *)
  ctx_lambda : list Q                   (* one element in lamb_mode batch *)
}.

Definition qnth (i : nat) (l : list Q) : Q := nth i l 0%Q.
(* torch.where(use_cutmix, cutmix_lamb, mixup_lamb); None = element of torch.empty(...) *)
Fixpoint where3 (c : list bool) (a b : list (option Q)) : list (option Q) :=
  match c, a, b with
  | ci :: c', ai :: a', bi :: b' => (if ci then ai else bi) :: where3 c' a' b'
  | _, _, _ => []
  end.
Fixpoint sequence {A} (l : list (option A)) : option (list A) :=
  match l with
  | [] => Some []
  | Some a :: r => option_map (cons a) (sequence r)
  | None :: _ => None
  end.

Definition collate (c : cfg) (halves : list (Z * Z)) : M result :=
  let n := bsz c in
  let h := img_h c in let w := img_w c in
  if negb (has_item (tokens c) TX) then fail else          (* len(None) *)
  let has_y := has_item (tokens c) TClass in
  (* sample apply *)
  apply <- (match apply_mode c with
            | PerBatch => u <- next_unit ;; ret (repeat (Qltb u (total_p c)) n)
            | PerSample => us <- next_units n ;; ret (map (fun u => Qltb u (total_p c)) us)
            end) ;;
  match lamb_mode c with
  | PerBatch =>
      u <- next_unit ;;
      let use_cutmix := Qltb (u * total_p c) (cutmix_p c) in
      alpha <- lift (if use_cutmix then cutmix_alpha c else mixup_alpha c) ;;
      lamb <- next_beta alpha ;;
      (* apply x *)
      '(x2, permutation) <- shuffle (shuf c) (seq 0 n) None ;;
      '(xs, lamb) <- (if use_cutmix then
                        '(bbox, lamb') <- get_random_bbox h w 1 halves ;;
                        match bbox, lamb' with
                        | b0 :: _, l0 :: _ => ret (map (fun j => Cut j b0) x2, l0)
                        | _, _ => fail
                        end
                      else ret (map (fun j => Mix j lamb) x2, lamb)) ;;
      (* apply y *)
      ys <- (if has_y then
               '(y2, _) <- shuffle (shuf c) (seq 0 n) permutation ;;
               ret (Some (map (fun j => (j, lamb)) y2))
             else ret None) ;;
      ret {| imgs := xs; labs := ys; ctx_apply := apply; ctx_cutmix := [use_cutmix]; ctx_lambda := [lamb] |}
  | PerSample =>
      us <- next_units n ;;
      let use_cutmix := map (fun u => Qltb (u * total_p c) (cutmix_p c)) us in
      mixup_lamb <- (if Qltb 0 (mixup_p c) then
                       a <- lift (mixup_alpha c) ;; l <- next_betas a n ;; ret (map Some l)
                     else ret (repeat None n)) ;;
      '(bbox, cutmix_lamb) <- (if Qltb 0 (cutmix_p c) then
                       a <- lift (cutmix_alpha c) ;; _ <- next_betas a n ;;
                       '(bb, l) <- get_random_bbox h w n halves ;;
                       ret (bb, map Some l)
                     else ret ([], repeat None n)) ;;
      lamb <- lift (sequence (where3 use_cutmix cutmix_lamb mixup_lamb)) ;;
      (* apply x *)
      '(x2_indices, permutation) <- shuffle (shuf c) (seq 0 n) None ;;
      let xs := map (fun i =>
                       let j := nth i x2_indices 0%nat in
                       if nth i use_cutmix false
                       then Cut j (nth i bbox (0, 0, 0, 0))
                       else Mix j (qnth i lamb)) (seq 0 n) in
      ys <- (if has_y then
               '(y2, _) <- shuffle (shuf c) (seq 0 n) permutation ;;
               ret (Some (map (fun i => (nth i y2 0%nat, qnth i lamb)) (seq 0 n)))
             else ret None) ;;
      ret {| imgs := xs; labs := ys; ctx_apply := apply; ctx_cutmix := use_cutmix; ctx_lambda := lamb |}
  end.

(* ---------- the batch tuple ---------- *)
Inductive item :=
| IX (l : list img_desc)
| IY (l : list lab_desc)
| IOther (v : list Z).

(* idx/x/y are read with get_item, then written back with set_item in the order index, x, class *)
Definition collate_batch (c : cfg) (halves : list (Z * Z)) (batch : list item) : M (list item * result) :=
  let mode := tokens c in
  idx <- lift (if has_item mode TIndex then option_map Some (get_item mode TIndex batch) else Some None) ;;
  r <- collate c halves ;;
  b1 <- lift (match idx with Some v => set_item mode TIndex batch v | None => Some batch end) ;;
  b2 <- lift (set_item mode TX b1 (IX (imgs r))) ;;
  b3 <- lift (match labs r with Some l => set_item mode TClass b2 (IY l) | None => Some b2 end) ;;
  ret (b3, r).
